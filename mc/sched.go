//go:build verif

package verifmc

import (
	"fmt"
	"reflect"
	"sort"
	"strings"
	"sync"
)

// ---- controlled scheduler -------------------------------------------------
//
// Instrumented code (see /verif/instr) creates goroutines with Go and uses the
// WaitGroup / Once / Map / Mutex types and the Send / Recv / MapKeys functions
// of this package instead of the runtime's. Under Explore exactly one
// instrumented goroutine runs at a time; before every hooked operation the
// running goroutine reaches a scheduling point at which the explorer decides
// who continues. Blocking operations are modelled by an "enabled" predicate,
// so "no enabled goroutine although some are unfinished" is a deadlock.
//
// Without an active exploration the same types behave like their sequential
// counterparts, so instrumented packages can also be used outside Explore
// (single goroutine only).

type thread struct {
	id   int
	wake chan struct{}
	done bool
	cond func() bool // nil: enabled
	op   string
}

// Point is one recorded decision of an execution.
type Point struct {
	Kind       string // "thread" or "maporder"
	N          int    // number of options
	CurEnabled bool   // thread points: the running goroutine could have continued
	Choice     int
	Op         string
}

// Execution is the result of one controlled run.
type Execution struct {
	Points  []Point
	Failure string // deadlock, panic, horizon, replay divergence
	Order   []int  // goroutine ids in completion order
}

type sched struct {
	threads []*thread
	cur     *thread // holds the baton
	prefix  []int
	points  []Point
	failure string
	aborted bool
	abortCh chan struct{}
	allDone chan struct{}
	closed  bool
	steps   int
	horizon int
	order   []int
	exited  sync.WaitGroup
}

var active *sched

type abortSentinel struct{}

func (s *sched) abort(msg string) {
	if s.aborted {
		return
	}
	s.aborted = true
	s.failure = msg
	close(s.abortCh)
}

// choose records a decision with n options and returns the chosen index.
func (s *sched) choose(kind string, n int, curEnabled bool, op string) int {
	c := 0
	if i := len(s.points); i < len(s.prefix) {
		c = s.prefix[i]
		if c >= n {
			s.abort(fmt.Sprintf("replay divergence at decision %d: choice %d of %d options (%s)", i, c, n, op))
			panic(abortSentinel{})
		}
	}
	s.points = append(s.points, Point{Kind: kind, N: n, CurEnabled: curEnabled, Choice: c, Op: op})
	return c
}

// park blocks the calling goroutine until it is handed the baton.
func (s *sched) park(t *thread) {
	select {
	case <-t.wake:
	case <-s.abortCh:
		panic(abortSentinel{})
	}
	if s.aborted {
		panic(abortSentinel{})
	}
}

// yield is called by the goroutine holding the baton, at a scheduling point
// (t.cond describes the operation it is about to perform) or when it has
// finished (t.done). It returns when t may continue.
func (s *sched) yield(t *thread) {
	if s.aborted {
		panic(abortSentinel{})
	}
	s.steps++
	if s.steps > s.horizon {
		s.abort(fmt.Sprintf("step horizon %d exceeded (livelock?)", s.horizon))
		panic(abortSentinel{})
	}
	var en []*thread
	curEnabled := !t.done && (t.cond == nil || t.cond())
	if curEnabled {
		en = append(en, t)
	}
	live := 0
	for _, o := range s.threads {
		if o.done {
			continue
		}
		live++
		if o == t {
			continue
		}
		if o.cond == nil || o.cond() {
			en = append(en, o)
		}
	}
	if len(en) == 0 {
		if live == 0 {
			if !s.closed {
				s.closed = true
				close(s.allDone)
			}
			return
		}
		var blocked []string
		for _, o := range s.threads {
			if !o.done {
				blocked = append(blocked, fmt.Sprintf("g%d at %s", o.id, o.op))
			}
		}
		s.abort("deadlock: no enabled goroutine; blocked: " + strings.Join(blocked, ", "))
		panic(abortSentinel{})
	}
	next := en[0]
	if len(en) > 1 {
		next = en[s.choose("thread", len(en), curEnabled, t.op)]
	}
	if next == t {
		return
	}
	s.cur = next
	next.wake <- struct{}{}
	if !t.done {
		s.park(t)
	}
}

func (s *sched) point(op string, cond func() bool) {
	t := s.cur
	t.op, t.cond = op, cond
	s.yield(t)
	t.cond = nil
}

// Explore1 runs body once under the controlled scheduler, replaying prefix
// and taking the default choice (0) at every later decision.
func Explore1(prefix []int, horizon int, body func()) *Execution {
	s := &sched{prefix: prefix, horizon: horizon, abortCh: make(chan struct{}), allDone: make(chan struct{})}
	main := &thread{id: 0, wake: make(chan struct{}, 1)}
	s.threads = []*thread{main}
	s.cur = main
	active = s
	func() {
		defer func() {
			if r := recover(); r != nil {
				if _, ok := r.(abortSentinel); !ok {
					s.abort(fmt.Sprintf("panic in main goroutine: %v", r))
				}
			}
		}()
		body()
		main.done = true
		s.order = append(s.order, 0)
		s.yield(main)
		select {
		case <-s.allDone:
		case <-s.abortCh:
		}
	}()
	// Every controlled goroutine has finished or unwinds after the abort.
	s.exited.Wait()
	active = nil
	return &Execution{Points: s.points, Failure: s.failure, Order: s.order}
}

// Go starts fn as a controlled goroutine.
func Go(fn func()) {
	s := active
	if s == nil {
		panic("verifmc.Go outside an exploration")
	}
	t := &thread{id: len(s.threads), wake: make(chan struct{}, 1)}
	s.threads = append(s.threads, t)
	s.exited.Add(1)
	go func() {
		defer s.exited.Done()
		defer func() {
			if r := recover(); r != nil {
				if _, ok := r.(abortSentinel); !ok {
					s.abort(fmt.Sprintf("panic in goroutine g%d: %v", t.id, r))
				}
			}
		}()
		s.park(t)
		fn()
		t.done = true
		s.order = append(s.order, t.id)
		s.yield(t)
	}()
	s.point("go", nil)
}

// WaitGroup replaces sync.WaitGroup in instrumented code.
type WaitGroup struct{ n int }

func (w *WaitGroup) Add(d int) {
	if s := active; s != nil {
		s.point("wg.Add", nil)
	}
	w.n += d
	if w.n < 0 {
		panic("sync: negative WaitGroup counter")
	}
}

func (w *WaitGroup) Done() { w.Add(-1) }

func (w *WaitGroup) Wait() {
	if s := active; s != nil {
		s.point("wg.Wait", func() bool { return w.n == 0 })
		return
	}
	if w.n != 0 {
		panic("verifmc.WaitGroup.Wait would block outside an exploration")
	}
}

// Once replaces sync.Once.
type Once struct{ state int }

func (o *Once) Do(f func()) {
	if s := active; s != nil {
		s.point("once.Do", func() bool { return o.state != 1 })
	}
	if o.state == 2 {
		return
	}
	o.state = 1
	defer func() { o.state = 2 }()
	f()
}

// Mutex replaces sync.Mutex.
type Mutex struct{ locked bool }

func (m *Mutex) Lock() {
	if s := active; s != nil {
		s.point("mutex.Lock", func() bool { return !m.locked })
	}
	m.locked = true
}

func (m *Mutex) Unlock() {
	if s := active; s != nil {
		s.point("mutex.Unlock", nil)
	}
	m.locked = false
}

// RWMutex is modelled as a plain mutex with reader counting.
type RWMutex struct {
	w bool
	r int
}

func (m *RWMutex) Lock() {
	if s := active; s != nil {
		s.point("rw.Lock", func() bool { return !m.w && m.r == 0 })
	}
	m.w = true
}
func (m *RWMutex) Unlock() {
	if s := active; s != nil {
		s.point("rw.Unlock", nil)
	}
	m.w = false
}
func (m *RWMutex) RLock() {
	if s := active; s != nil {
		s.point("rw.RLock", func() bool { return !m.w })
	}
	m.r++
}
func (m *RWMutex) RUnlock() {
	if s := active; s != nil {
		s.point("rw.RUnlock", nil)
	}
	m.r--
}

// Map replaces sync.Map.
type Map struct{ m map[any]any }

func (m *Map) Load(k any) (any, bool) {
	if s := active; s != nil {
		s.point("map.Load", nil)
	}
	v, ok := m.m[k]
	return v, ok
}

func (m *Map) Store(k, v any) {
	if s := active; s != nil {
		s.point("map.Store", nil)
	}
	if m.m == nil {
		m.m = map[any]any{}
	}
	m.m[k] = v
}

func (m *Map) LoadOrStore(k, v any) (any, bool) {
	if s := active; s != nil {
		s.point("map.LoadOrStore", nil)
	}
	if m.m == nil {
		m.m = map[any]any{}
	}
	if old, ok := m.m[k]; ok {
		return old, true
	}
	m.m[k] = v
	return v, false
}

func (m *Map) Delete(k any) {
	if s := active; s != nil {
		s.point("map.Delete", nil)
	}
	delete(m.m, k)
}

// Reset empties the map (harness use: cold caches between executions).
func (m *Map) Reset() { m.m = nil }

var globalMaps []*Map

// RegisterGlobal is called from init functions that the instrumenter adds for
// every package-level sync.Map, so that ResetGlobals can give every execution
// the same (cold) process-wide caches.
func RegisterGlobal(m *Map) { globalMaps = append(globalMaps, m) }

// ResetGlobals empties every registered process-wide map.
func ResetGlobals() {
	for _, m := range globalMaps {
		m.Reset()
	}
}

// Globals returns the number of registered process-wide maps.
func Globals() int { return len(globalMaps) }

// Send replaces "ch <- v" on a buffered channel.
func Send[T any](ch chan T, v T) {
	if cap(ch) == 0 {
		panic("verifmc: unbuffered channel send is not modelled")
	}
	if s := active; s != nil {
		s.point("chan.send", func() bool { return len(ch) < cap(ch) })
	}
	select {
	case ch <- v:
	default:
		panic("verifmc: send on full channel outside an exploration")
	}
}

// Recv replaces "<-ch" on a buffered channel.
func Recv[T any](ch chan T) T {
	if cap(ch) == 0 {
		panic("verifmc: unbuffered channel receive is not modelled")
	}
	if s := active; s != nil {
		s.point("chan.recv", func() bool { return len(ch) > 0 })
	}
	select {
	case v := <-ch:
		return v
	default:
		panic("verifmc: receive on empty channel outside an exploration")
	}
}

// KeyCanon is the canonicaliser used to put map keys into a reproducible
// base order; harnesses may configure skips (e.g. back pointers).
var KeyCanon = &Canon{}

// MapKeys returns the keys of m in the order the explorer chooses: the keys
// are first sorted by their canonical dump (reproducible across runs), then
// the explorer picks each next key; every pick other than the first remaining
// key is one deviation. Outside an exploration the sorted order is returned.
func MapKeys[K comparable, V any](m map[K]V) []K {
	keys := make([]K, 0, len(m))
	dumps := make(map[K]string, len(m))
	for k := range m {
		keys = append(keys, k)
		dumps[k] = KeyCanon.Key(reflect.ValueOf(k).Interface())
	}
	sort.Slice(keys, func(i, j int) bool { return dumps[keys[i]] < dumps[keys[j]] })
	s := active
	if s == nil || len(keys) < 2 {
		return keys
	}
	out := make([]K, 0, len(keys))
	rest := keys
	for len(rest) > 1 {
		c := s.choose("maporder", len(rest), true, "range map")
		out = append(out, rest[c])
		rest = append(append([]K{}, rest[:c]...), rest[c+1:]...)
	}
	return append(out, rest[0])
}

// ---- deviation-bounded depth-first exploration ------------------------------

// Explorer enumerates every execution of Body with at most Bound deviations
// (preemptions of a goroutine that could have continued, or map-order picks
// other than the first remaining key).
type Explorer struct {
	Bound   int
	Horizon int
	Body    func()
	// Check is called after every execution; a non-empty result is a violation.
	Check  func(x *Execution) string
	OnFail func(choices []int, x *Execution, msg string)
	Stop   func() bool
	// Shard/NShards split the first-level subtrees between processes.
	Shard, NShards int

	Executions int64
	Decisions  int64
	MaxPoints  int
	Traces     map[string]int64 // distinct goroutine completion orders
	Capped     bool
	ByCost     map[int]int64
}

func (e *Explorer) cost(p Point, alt int) int {
	if alt == 0 {
		return 0
	}
	if p.Kind == "maporder" || p.CurEnabled {
		return 1
	}
	return 0
}

// Run explores all executions within the bound.
func (e *Explorer) Run() {
	if e.Traces == nil {
		e.Traces = map[string]int64{}
		e.ByCost = map[int]int64{}
	}
	if e.NShards == 0 {
		e.NShards = 1
	}
	e.explore(nil, 0, 0)
}

func (e *Explorer) one(prefix []int, used int) *Execution {
	x := Explore1(prefix, e.Horizon, e.Body)
	e.Executions++
	e.Decisions += int64(len(x.Points))
	if len(x.Points) > e.MaxPoints {
		e.MaxPoints = len(x.Points)
	}
	e.Traces[fmt.Sprint(x.Order)]++
	e.ByCost[used]++
	msg := x.Failure
	if msg == "" && e.Check != nil {
		msg = e.Check(x)
	}
	if msg != "" && e.OnFail != nil {
		ch := make([]int, len(x.Points))
		for i, p := range x.Points {
			ch[i] = p.Choice
		}
		e.OnFail(ch, x, msg)
	}
	return x
}

func (e *Explorer) explore(prefix []int, used int, depth int) {
	if e.Stop != nil && e.Stop() {
		e.Capped = true
		return
	}
	var x *Execution
	if depth == 0 && e.Shard != 0 {
		// only shard 0 checks the root execution; the others just need its shape
		x = Explore1(prefix, e.Horizon, e.Body)
	} else {
		x = e.one(prefix, used)
	}
	if x.Failure != "" {
		return
	}
	child := 0
	costSoFar := used
	for i := len(prefix); i < len(x.Points); i++ {
		p := x.Points[i]
		for alt := 1; alt < p.N; alt++ {
			c := costSoFar + e.cost(p, alt)
			if c > e.Bound {
				continue
			}
			if depth == 0 {
				child++
				if child%e.NShards != e.Shard {
					continue
				}
			}
			np := make([]int, i+1)
			for j := 0; j < i; j++ {
				np[j] = x.Points[j].Choice
			}
			np[i] = alt
			e.explore(np, c, depth+1)
		}
		// the default choice at point i costs nothing
	}
}

// ---- scheduling points for hand-hooked seams --------------------------------

// Exploring reports whether a controlled execution is in progress.
func Exploring() bool { return active != nil }

// Yield is a scheduling point before an operation named op that never blocks.
// It is a no-op outside an exploration.
func Yield(op string) {
	if s := active; s != nil {
		s.point(op, nil)
	}
}

// Block is a scheduling point at which the caller may only continue once
// enabled() holds (a modelled wait). It is a no-op outside an exploration.
func Block(op string, enabled func() bool) {
	if s := active; s != nil {
		s.point(op, enabled)
	}
}
