//go:build verif

package verifmc

import (
	"fmt"
	"os"
	"runtime"
	"strconv"
	"sync"
	"sync/atomic"
	"time"
)

// Workers is the number of worker goroutines used by ParRange.
func Workers() int {
	if s := os.Getenv("VERIF_WORKERS"); s != "" {
		if n, err := strconv.Atoi(s); err == nil && n > 0 {
			return n
		}
	}
	n := runtime.NumCPU()
	if n > 16 {
		n = 16
	}
	return n
}

// ParRange splits [0,total) into chunks and runs fn(worker, lo, hi) on a pool.
// The chunks are handed out in increasing order, so the enumeration order is
// "simplest first" up to the pool width. If stop returns true no further
// chunks are started and ParRange returns the first index not handed out
// (== total when everything was enumerated).
func ParRange(total, chunk uint64, stop func() bool, fn func(worker int, lo, hi uint64)) uint64 {
	if chunk == 0 {
		chunk = 1
	}
	var next uint64
	var wg sync.WaitGroup
	n := Workers()
	for w := 0; w < n; w++ {
		wg.Add(1)
		go func(w int) {
			defer wg.Done()
			for {
				if stop != nil && stop() {
					return
				}
				lo := atomic.AddUint64(&next, chunk) - chunk
				if lo >= total {
					return
				}
				hi := lo + chunk
				if hi > total {
					hi = total
				}
				fn(w, lo, hi)
			}
		}(w)
	}
	wg.Wait()
	d := atomic.LoadUint64(&next)
	if d > total {
		d = total
	}
	return d
}

// Watch runs fn and treats "still running after limit" as a hang: onHang is
// called (it should report the case) and the process exits, because a stuck
// goroutine cannot be cancelled. limit is generous (tens of seconds for work
// that takes microseconds); it is a liveness detector, not a timing oracle.
type Watchdog struct {
	mu    sync.Mutex
	cur   map[int]watched
	limit time.Duration
	stop  chan struct{}
}

type watched struct {
	desc  func() string
	since time.Time
}

// NewWatchdog starts a watchdog; onHang receives the description of the
// stuck case.
func NewWatchdog(limit time.Duration, onHang func(desc string)) *Watchdog {
	w := &Watchdog{cur: map[int]watched{}, limit: limit, stop: make(chan struct{})}
	go func() {
		t := time.NewTicker(limit / 4)
		defer t.Stop()
		for {
			select {
			case <-w.stop:
				return
			case <-t.C:
				w.mu.Lock()
				for _, c := range w.cur {
					if time.Since(c.since) > w.limit {
						d := c.desc()
						w.mu.Unlock()
						onHang(d)
						return
					}
				}
				w.mu.Unlock()
			}
		}
	}()
	return w
}

// Enter marks worker as busy with the case described by desc.
func (w *Watchdog) Enter(worker int, desc func() string) {
	w.mu.Lock()
	w.cur[worker] = watched{desc, time.Now()}
	w.mu.Unlock()
}

// Leave marks worker as idle.
func (w *Watchdog) Leave(worker int) {
	w.mu.Lock()
	delete(w.cur, worker)
	w.mu.Unlock()
}

// Stop ends the watchdog.
func (w *Watchdog) Stop() { close(w.stop) }

// Catch runs fn and converts a panic into a message.
func Catch(fn func()) (panicMsg string) {
	defer func() {
		if r := recover(); r != nil {
			buf := make([]byte, 2048)
			buf = buf[:runtime.Stack(buf, false)]
			panicMsg = fmt.Sprintf("panic: %v\n%s", r, buf)
		}
	}()
	fn()
	return ""
}
