//go:build verif

package verifmc

import (
	"fmt"
	"os"
	"runtime"
	"strconv"
	"sync"
	"sync/atomic"
	"time"
)

// hangSink receives the description of a chunk that does not return (set by NewCheck); it does not return either.
var hangSink func(msg string)

// HangLimit is how long one chunk of cases may run before it is called a hang (VERIF_HANG_S, default 600 s:
// two to three orders of magnitude above the slowest chunk observed, see max_chunk_s in the evidence).
func HangLimit() time.Duration {
	if s := os.Getenv("VERIF_HANG_S"); s != "" {
		if f, err := strconv.ParseFloat(s, 64); err == nil && f > 0 {
			return time.Duration(f * float64(time.Second))
		}
	}
	return 600 * time.Second
}

var maxChunkNanos atomic.Int64

func noteChunk(d time.Duration) {
	for {
		cur := maxChunkNanos.Load()
		if int64(d) <= cur || maxChunkNanos.CompareAndSwap(cur, int64(d)) {
			return
		}
	}
}

// MaxChunk is the longest time any chunk of cases took so far in this process.
func MaxChunk() time.Duration { return time.Duration(maxChunkNanos.Load()) }

// panicSink receives panics that escape a worker's chunk (set by NewCheck).
var panicSink func(msg string)

// Workers is the number of worker goroutines used by ParRange.
func Workers() int {
	if s := os.Getenv("VERIF_WORKERS"); s != "" {
		if n, err := strconv.Atoi(s); err == nil && n > 0 {
			return n
		}
	}
	n := runtime.NumCPU()
	if n > 16 {
		n = 16
	}
	return n
}

// ParRange splits [0,total) into chunks and runs fn(worker, lo, hi) on a pool.
// The chunks are handed out in increasing order, so the enumeration order is
// "simplest first" up to the pool width. If stop returns true no further
// chunks are started and ParRange returns the first index not handed out
// (== total when everything was enumerated).
func ParRange(total, chunk uint64, stop func() bool, fn func(worker int, lo, hi uint64)) uint64 {
	if chunk == 0 {
		chunk = 1
	}
	var next uint64
	var wg sync.WaitGroup
	n := Workers()
	// Liveness: a chunk (microseconds to seconds of work) that is still running after HangLimit is a hang of
	// the code under test. A stuck goroutine cannot be cancelled, so hangSink reports and ends the process.
	started := make([]atomic.Int64, n) // unix nanos, 0 = idle
	ranges := make([][2]uint64, n)
	var rmu sync.Mutex
	quit := make(chan struct{})
	go func() {
		t := time.NewTicker(5 * time.Second)
		defer t.Stop()
		for {
			select {
			case <-quit:
				return
			case <-t.C:
				now := time.Now().UnixNano()
				for w := range started {
					if s := started[w].Load(); s != 0 && time.Duration(now-s) > HangLimit() {
						rmu.Lock()
						r := ranges[w]
						rmu.Unlock()
						if hangSink != nil {
							hangSink(fmt.Sprintf("a worker has been inside cases [%d,%d) for more than %v", r[0], r[1], HangLimit()))
						}
						return
					}
				}
			}
		}
	}()
	defer close(quit)
	for w := 0; w < n; w++ {
		wg.Add(1)
		go func(w int) {
			defer wg.Done()
			for {
				if stop != nil && stop() {
					return
				}
				lo := atomic.AddUint64(&next, chunk) - chunk
				if lo >= total {
					return
				}
				hi := lo + chunk
				if hi > total {
					hi = total
				}
				rmu.Lock()
				ranges[w] = [2]uint64{lo, hi}
				rmu.Unlock()
				t0 := time.Now()
				started[w].Store(t0.UnixNano())
				if msg := Catch(func() { fn(w, lo, hi) }); msg != "" {
					// A panic that no per-case handler caught: report it as a violation instead of crashing
					// the check (the rest of the chunk is lost, which the violation makes moot).
					if panicSink != nil {
						panicSink(fmt.Sprintf("cases [%d,%d): %s", lo, hi, msg))
					} else {
						panic(msg)
					}
				}
				started[w].Store(0)
				noteChunk(time.Since(t0))
			}
		}(w)
	}
	wg.Wait()
	d := atomic.LoadUint64(&next)
	if d > total {
		d = total
	}
	return d
}

// Watch runs fn and treats "still running after limit" as a hang: onHang is
// called (it should report the case) and the process exits, because a stuck
// goroutine cannot be cancelled. limit is generous (tens of seconds for work
// that takes microseconds); it is a liveness detector, not a timing oracle.
type Watchdog struct {
	mu    sync.Mutex
	cur   map[int]watched
	limit time.Duration
	stop  chan struct{}
}

type watched struct {
	desc  func() string
	since time.Time
}

// NewWatchdog starts a watchdog; onHang receives the description of the
// stuck case.
func NewWatchdog(limit time.Duration, onHang func(desc string)) *Watchdog {
	w := &Watchdog{cur: map[int]watched{}, limit: limit, stop: make(chan struct{})}
	go func() {
		t := time.NewTicker(limit / 4)
		defer t.Stop()
		for {
			select {
			case <-w.stop:
				return
			case <-t.C:
				w.mu.Lock()
				for _, c := range w.cur {
					if time.Since(c.since) > w.limit {
						d := c.desc()
						w.mu.Unlock()
						onHang(d)
						return
					}
				}
				w.mu.Unlock()
			}
		}
	}()
	return w
}

// Enter marks worker as busy with the case described by desc.
func (w *Watchdog) Enter(worker int, desc func() string) {
	w.mu.Lock()
	w.cur[worker] = watched{desc, time.Now()}
	w.mu.Unlock()
}

// Leave marks worker as idle.
func (w *Watchdog) Leave(worker int) {
	w.mu.Lock()
	delete(w.cur, worker)
	w.mu.Unlock()
}

// Stop ends the watchdog.
func (w *Watchdog) Stop() { close(w.stop) }

// Catch runs fn and converts a panic into a message.
func Catch(fn func()) (panicMsg string) {
	defer func() {
		if r := recover(); r != nil {
			buf := make([]byte, 2048)
			buf = buf[:runtime.Stack(buf, false)]
			panicMsg = fmt.Sprintf("panic: %v\n%s", r, buf)
		}
	}()
	fn()
	return ""
}
