//go:build verif

package verifmc

import "math"

// Strings enumerates all sequences of symbols from Alphabet with length
// 0..MaxLen in length-lexicographic order. It is indexable, so that a shard
// is a contiguous index range and a replay file can store the rendered text.
type Strings struct {
	Alphabet []string
	MaxLen   int
	offs     []uint64 // offs[l] = index of the first string of length l
}

// NewStrings builds the enumerator.
func NewStrings(alphabet []string, maxLen int) *Strings {
	s := &Strings{Alphabet: alphabet, MaxLen: maxLen}
	n := uint64(len(alphabet))
	var off, pow uint64 = 0, 1
	for l := 0; l <= maxLen; l++ {
		s.offs = append(s.offs, off)
		off += pow
		pow *= n
	}
	s.offs = append(s.offs, off)
	return s
}

// Total is the number of strings.
func (s *Strings) Total() uint64 { return s.offs[len(s.offs)-1] }

// Symbols decodes index i into symbol indices (appended to buf[:0]).
func (s *Strings) Symbols(i uint64, buf []int) []int {
	buf = buf[:0]
	l := 0
	for l+1 < len(s.offs)-1 && i >= s.offs[l+1] {
		l++
	}
	i -= s.offs[l]
	n := uint64(len(s.Alphabet))
	for k := 0; k < l; k++ {
		buf = append(buf, 0)
	}
	for k := l - 1; k >= 0; k-- {
		buf[k] = int(i % n)
		i /= n
	}
	return buf
}

// Render renders index i into dst[:0].
func (s *Strings) Render(i uint64, sym []int, dst []byte) ([]int, []byte) {
	sym = s.Symbols(i, sym)
	dst = dst[:0]
	for _, k := range sym {
		dst = append(dst, s.Alphabet[k]...)
	}
	return sym, dst
}

// Permutations calls fn with every permutation of 0..n-1 (Heap's algorithm,
// fn must not retain p). It stops early if fn returns false.
func Permutations(n int, fn func(p []int) bool) {
	p := make([]int, n)
	for i := range p {
		p[i] = i
	}
	c := make([]int, n)
	if !fn(p) {
		return
	}
	i := 0
	for i < n {
		if c[i] < i {
			if i%2 == 0 {
				p[0], p[i] = p[i], p[0]
			} else {
				p[c[i]], p[i] = p[i], p[c[i]]
			}
			if !fn(p) {
				return
			}
			c[i]++
			i = 0
		} else {
			c[i] = 0
			i++
		}
	}
}

// Multisets calls fn with every non-decreasing sequence of length n over
// 0..k-1 (fn must not retain m).
func Multisets(k, n int, fn func(m []int)) {
	m := make([]int, n)
	var rec func(pos, min int)
	rec = func(pos, min int) {
		if pos == n {
			fn(m)
			return
		}
		for v := min; v < k; v++ {
			m[pos] = v
			rec(pos+1, v)
		}
	}
	rec(0, 0)
}

// Sequences calls fn with every sequence of length n over 0..k-1.
func Sequences(k, n int, fn func(m []int)) {
	m := make([]int, n)
	var rec func(pos int)
	rec = func(pos int) {
		if pos == n {
			fn(m)
			return
		}
		for v := 0; v < k; v++ {
			m[pos] = v
			rec(pos + 1)
		}
	}
	rec(0)
}

// UlpNeighbourhood returns the 2n+1 floats around x in increasing order.
func UlpNeighbourhood(x float64, n int) []float64 {
	out := make([]float64, 0, 2*n+1)
	lo := x
	for i := 0; i < n; i++ {
		lo = math.Nextafter(lo, math.Inf(-1))
	}
	v := lo
	for i := 0; i < 2*n+1; i++ {
		out = append(out, v)
		v = math.Nextafter(v, math.Inf(1))
	}
	return out
}
