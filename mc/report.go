//go:build verif

// Package verifmc is the model-checking engine used by the golang/perf
// verification harnesses. It is overlaid into the module under
// golang.org/x/perf/internal/verifmc at check time; /repo is never written.
package verifmc

import (
	"crypto/sha1"
	"encoding/hex"
	"encoding/json"
	"fmt"
	"os"
	"path/filepath"
	"regexp"
	"runtime/debug"
	"sort"
	"strconv"
	"strings"
	"sync"
	"sync/atomic"
	"time"
)

// Check collects the verdict and the evidence of one property check.
type Check struct {
	ID    string
	Tier  string // quick | thorough
	Seed  int
	start time.Time

	mu       sync.Mutex
	fams     []*Family
	famBy    map[string]*Family
	viol     []violation
	nViol    int
	nKnown   map[string]int
	known    []knownEntry
	unstable []violation
	assume   []string
	replay   map[string]func(json.RawMessage) string
	extra    map[string]any
	deadline atomic.Int64 // unix nanoseconds; read by workers
	// sweep: the free-running -race pass of the same harness bodies (VERIF_RACE_SWEEP): every family gets a
	// short time budget on real goroutines under the race detector; nothing it reports counts as enumeration.
	sweep       bool
	sweepBudget time.Duration
}

// SweepPrefix marks the families of the free-running -race pass in the evidence.
const SweepPrefix = "free-running-race/"

type violation struct {
	Family string          `json:"family"`
	Sig    string          `json:"sig"`
	Msg    string          `json:"msg"`
	Case   json.RawMessage `json:"case"`
	Repro  string          `json:"reproduced,omitempty"`
}

type knownEntry struct {
	Property string `json:"property"`
	Status   string `json:"status"` // known | fixed
	Family   string `json:"family"`
	Sig      string `json:"sig"` // regexp over the violation signature
	What     string `json:"what"`
	Commit   string `json:"commit,omitempty"`
	re       *regexp.Regexp
}

// Family is one enumerated space inside a check, with its own counters.
type Family struct {
	Name       string
	Rule       string
	Bounds     map[string]any
	mu         sync.Mutex
	evals      int64
	nontrivial int64
	states     int64
	trans      int64
	maxDepth   int
	fixpoint   *bool
	exhaustive bool
	capped     string
	outcomes   map[string]int64
	samples    []any
	extra      map[string]any
	wall       float64
	t0         time.Time
}

// NewCheck reads the tier and seed from the environment.
func NewCheck(id string) *Check {
	tier := os.Getenv("VERIF_TIER")
	if tier != "thorough" {
		tier = "quick"
	}
	seed, _ := strconv.Atoi(os.Getenv("VERIF_SEED"))
	c := &Check{ID: id, Tier: tier, Seed: seed, start: time.Now(), famBy: map[string]*Family{},
		nKnown: map[string]int{}, replay: map[string]func(json.RawMessage) string{}, extra: map[string]any{}}
	capS := 150.0
	if tier == "thorough" {
		capS = 1500
	}
	if s := os.Getenv("VERIF_CAP_S"); s != "" {
		if f, err := strconv.ParseFloat(s, 64); err == nil {
			capS = f
		}
	}
	if os.Getenv("GOGC") == "" {
		// The searches allocate many short-lived objects on 16 workers; a
		// lazier collector roughly doubles throughput.
		debug.SetGCPercent(800)
	}
	c.deadline.Store(c.start.Add(time.Duration(capS * float64(time.Second))).UnixNano())
	if os.Getenv("VERIF_RACE_SWEEP") != "" {
		c.sweep = true
		b := 2.0
		if f, err := strconv.ParseFloat(os.Getenv("VERIF_RACE_FAMILY_S"), 64); err == nil && f > 0 {
			b = f
		}
		c.sweepBudget = time.Duration(b * float64(time.Second))
	}
	c.loadKnown()
	panicSink = func(msg string) {
		f := c.Family("uncaught-panic", "a panic of the code under test that escaped the per-case handler of a worker (reported, never ignored)", nil)
		c.Fail(f, "panic", "worker", msg)
	}
	hangSink = func(msg string) {
		f := c.Family("hang", "a chunk of cases that does not return within the liveness limit (the property requires termination; reported, never waited out)", nil)
		c.Fail(f, "hang", "worker", msg)
		os.Exit(c.Finish())
	}
	return c
}

// Sweep reports whether this process is the free-running -race pass.
func (c *Check) Sweep() bool { return c.sweep }

// Thorough reports whether the thorough tier was requested.
func (c *Check) Thorough() bool { return c.Tier == "thorough" }

// Pick returns q for the quick tier and t for the thorough tier.
func Pick[T any](c *Check, q, t T) T {
	if c.Thorough() {
		return t
	}
	return q
}

// TimeUp reports whether the wall-clock safety cap was reached. Hitting the
// cap is never a failure: families that stop early report exhaustive:false.
func (c *Check) TimeUp() bool {
	d := c.deadline.Load()
	if d == 0 {
		// free-running pass: a family's budget starts when its enumeration first asks (after its set-up)
		c.deadline.CompareAndSwap(0, time.Now().Add(c.sweepBudget).UnixNano())
		return false
	}
	return time.Now().UnixNano() > d
}

func (c *Check) loadKnown() {
	p := os.Getenv("VERIF_KNOWN")
	if p == "" {
		return
	}
	b, err := os.ReadFile(p)
	if err != nil {
		return
	}
	var all struct {
		Findings []knownEntry `json:"findings"`
	}
	if err := json.Unmarshal(b, &all); err != nil {
		fmt.Printf("HARNESS-ERROR: cannot parse %s: %v\n", p, err)
		os.Exit(2)
	}
	for _, k := range all.Findings {
		if k.Property != c.ID || k.Status != "known" {
			continue
		}
		k.re = regexp.MustCompile("^(?:" + k.Sig + ")$")
		c.known = append(c.known, k)
	}
}

// Assume records an assumption for the evidence file.
func (c *Check) Assume(s string) { c.assume = append(c.assume, s) }

// Extra adds a top-level coverage key.
func (c *Check) Extra(k string, v any) {
	c.mu.Lock()
	c.extra[k] = v
	c.mu.Unlock()
}

// Family registers (or returns) a family. replay re-executes one stored case
// and returns a violation message or "".
func (c *Check) Family(name, rule string, replay func(json.RawMessage) string) *Family {
	c.mu.Lock()
	defer c.mu.Unlock()
	if c.sweep && os.Getenv("VERIF_REPLAY") == "" {
		name = SweepPrefix + name
	}
	if f, ok := c.famBy[name]; ok {
		return f
	}
	f := &Family{Name: name, Rule: rule, outcomes: map[string]int64{}, Bounds: map[string]any{}, extra: map[string]any{}, exhaustive: true, t0: time.Now()}
	if c.sweep {
		// every family starts with a fresh, short budget; what it covers in that time is a sample
		c.deadline.Store(0)
		f.exhaustive = false
		f.capped = "SAMPLING: the same harness body on real goroutines under the race detector for a fixed time budget; carries the race detector and the concurrent-use oracle only"
		f.Rule = "SAMPLING (not enumeration), built with -race: " + rule
	}
	c.fams = append(c.fams, f)
	c.famBy[name] = f
	if replay != nil {
		c.replay[name] = replay
	}
	return f
}

// Done stamps the family's wall time.
func (f *Family) Done() { f.wall = time.Since(f.t0).Seconds() }

// Count adds evaluations and non-trivial cases.
func (f *Family) Count(evals, nontrivial int64) {
	f.mu.Lock()
	f.evals += evals
	f.nontrivial += nontrivial
	f.mu.Unlock()
}

// Outcome counts one observed outcome class.
func (f *Family) Outcome(o string, n int64) {
	f.mu.Lock()
	f.outcomes[o] += n
	f.mu.Unlock()
}

// Sample stores an example case (at most 6 per family are kept).
func (f *Family) Sample(s any) {
	f.mu.Lock()
	if len(f.samples) < 6 {
		f.samples = append(f.samples, s)
	}
	f.mu.Unlock()
}

// Set stores a family-level extra.
func (f *Family) Set(k string, v any) {
	f.mu.Lock()
	f.extra[k] = v
	f.mu.Unlock()
}

// Capped marks the family as not exhaustive, with the reason.
func (f *Family) Capped(reason string) {
	f.mu.Lock()
	f.exhaustive = false
	f.capped = reason
	f.mu.Unlock()
}

// SpaceStats records explicit-state search numbers.
func (f *Family) SpaceStats(states, trans int64, maxDepth int, fixpoint bool) {
	f.mu.Lock()
	f.states += states
	f.trans += trans
	if maxDepth > f.maxDepth {
		f.maxDepth = maxDepth
	}
	fp := fixpoint
	if f.fixpoint != nil {
		fp = fp && *f.fixpoint
	}
	f.fixpoint = &fp
	f.mu.Unlock()
}

// Local is a per-worker accumulator, merged with Flush.
type Local struct {
	f          *Family
	Evals      int64
	Nontrivial int64
	outcomes   map[string]int64
}

func (f *Family) Local() *Local   { return &Local{f: f, outcomes: map[string]int64{}} }
func (l *Local) Outcome(o string) { l.outcomes[o]++ }
func (l *Local) Flush() {
	l.f.mu.Lock()
	l.f.evals += l.Evals
	l.f.nontrivial += l.Nontrivial
	for k, v := range l.outcomes {
		l.f.outcomes[k] += v
	}
	l.f.mu.Unlock()
	l.Evals, l.Nontrivial = 0, 0
	l.outcomes = map[string]int64{}
}

const maxStoredViolations = 12

// famListed reports whether name is one of the "|"-separated families of a
// known-findings entry (one defect may be reachable through several families).
func famListed(list, name string) bool {
	for _, f := range strings.Split(list, "|") {
		if f == name {
			return true
		}
	}
	return false
}

// Fail reports a violating case. sig is the specific signature matched against
// known findings; cas is the replayable case. The case is re-executed through
// the family's replay function (if any) before it is believed.
func (c *Check) Fail(fam *Family, sig string, cas any, msg string) {
	raw, err := json.Marshal(cas)
	if err != nil {
		raw, _ = json.Marshal(fmt.Sprintf("%#v", cas))
	}
	c.mu.Lock()
	for _, k := range c.known {
		if (k.Family == "" || famListed(k.Family, strings.TrimPrefix(fam.Name, SweepPrefix))) && k.re.MatchString(sig) {
			c.nKnown[k.What]++
			c.mu.Unlock()
			return
		}
	}
	c.nViol++
	if len(c.viol) >= maxStoredViolations {
		c.mu.Unlock()
		return
	}
	rp := c.replay[fam.Name]
	c.mu.Unlock()
	v := violation{Family: fam.Name, Sig: sig, Msg: msg, Case: raw}
	if rp != nil && os.Getenv("VERIF_REPLAY") == "" {
		n := 0
		for i := 0; i < 2; i++ {
			if m := safeReplay(rp, raw); m != "" {
				n++
			}
		}
		v.Repro = fmt.Sprintf("%d/2", n)
		if n == 0 && c.sweep {
			// The case passes when replayed alone but failed while other goroutines were using the same package:
			// in the free-running pass that is exactly what shared mutable state looks like.
			v.Msg = "fails only under concurrent use of the package (passes when replayed alone): " + v.Msg
		} else if n == 0 {
			c.mu.Lock()
			c.nViol--
			c.unstable = append(c.unstable, v)
			c.mu.Unlock()
			return
		}
	}
	c.mu.Lock()
	c.viol = append(c.viol, v)
	c.mu.Unlock()
}

func safeReplay(rp func(json.RawMessage) string, raw json.RawMessage) (msg string) {
	defer func() {
		if r := recover(); r != nil {
			msg = fmt.Sprintf("panic: %v", r)
		}
	}()
	return rp(raw)
}

// Finish writes the evidence file, prints KNOWN-FINDING / VIOLATION lines and
// returns the process exit code (0 or 1).
func (c *Check) Finish() int {
	root := os.Getenv("VERIF_ROOT")
	if root == "" {
		root = "/verif"
	}
	if rp := os.Getenv("VERIF_REPLAY"); rp != "" {
		return c.finishReplay()
	}
	cov := map[string]any{}
	var evals, nontriv, states, trans int64
	exhaustive := true
	var samples []any
	var rules []string
	fams := map[string]any{}
	distinctOutcomes := 0
	for _, f := range c.fams {
		if f.wall == 0 {
			f.Done()
		}
		evals += f.evals
		nontriv += f.nontrivial
		states += f.states
		trans += f.trans
		if !f.exhaustive {
			exhaustive = false
		}
		for i, s := range f.samples {
			if i < 3 {
				samples = append(samples, map[string]any{"family": f.Name, "case": s})
			}
		}
		rules = append(rules, f.Name+": "+f.Rule)
		fm := map[string]any{"evaluations": f.evals, "distinct_nontrivial": f.nontrivial, "rule": f.Rule,
			"exhaustive": f.exhaustive, "bounds": f.Bounds, "wall_s": round3(f.wall), "distinct_outcomes": len(f.outcomes)}
		if len(f.outcomes) <= 40 {
			fm["outcomes"] = f.outcomes
		}
		if f.evals > 1 && len(f.outcomes) == 1 {
			fm["single_outcome"] = true
		}
		distinctOutcomes += len(f.outcomes)
		if f.capped != "" {
			fm["capped"] = f.capped
		}
		if f.states > 0 {
			fm["states"] = f.states
			fm["transitions"] = f.trans
			fm["max_depth"] = f.maxDepth
			if f.fixpoint != nil {
				fm["fixpoint"] = *f.fixpoint
			}
		}
		for k, v := range f.extra {
			fm[k] = v
		}
		fams[f.Name] = fm
	}
	cov["evaluations"] = evals
	cov["distinct_nontrivial"] = nontriv
	sort.Strings(rules)
	rule := ""
	for i, r := range rules {
		if i > 0 {
			rule += " || "
		}
		rule += r
	}
	cov["rule"] = rule
	cov["samples"] = samples
	cov["exhaustive"] = exhaustive
	cov["distinct_outcomes"] = distinctOutcomes
	cov["families"] = fams
	if states > 0 {
		cov["states"] = states
		cov["transitions"] = trans
		// Every transition is executed on the implementation itself; there is
		// no separate abstract model whose traces would need replaying.
		cov["traces_validated_against_impl"] = trans
	}
	for k, v := range c.extra {
		cov[k] = v
	}
	cov["max_chunk_s"] = round3(MaxChunk().Seconds())
	if len(c.unstable) > 0 {
		cov["unstable"] = c.unstable
	}
	known := []string{}
	for w, n := range c.nKnown {
		known = append(known, fmt.Sprintf("%s (x%d)", w, n))
	}
	sort.Strings(known)
	if len(known) > 0 {
		cov["known_findings_hit"] = known
	}
	ev := map[string]any{
		"property_id": c.ID, "tier": c.Tier, "seed": c.Seed, "level": "model_checking",
		"coverage": cov, "assumptions": c.assume, "wall_s": round3(time.Since(c.start).Seconds()),
		"violations": c.nViol,
	}
	if c.assume == nil {
		ev["assumptions"] = []string{}
	}
	out := os.Getenv("VERIF_EVIDENCE")
	if out == "" {
		out = filepath.Join(root, "evidence", c.ID+".json")
	}
	os.MkdirAll(filepath.Dir(out), 0o755)
	b, _ := json.MarshalIndent(ev, "", " ")
	if err := os.WriteFile(out, append(b, '\n'), 0o644); err != nil {
		fmt.Printf("HARNESS-ERROR: writing evidence: %v\n", err)
		return 2
	}
	fmt.Printf("SUMMARY property=%s tier=%s evaluations=%d nontrivial=%d states=%d transitions=%d exhaustive=%v violations=%d wall=%.1fs\n",
		c.ID, c.Tier, evals, nontriv, states, trans, exhaustive, c.nViol, time.Since(c.start).Seconds())
	for _, f := range c.fams {
		fmt.Printf("  family %-28s evals=%-10d nontrivial=%-10d outcomes=%-4d states=%-8d trans=%-9d exhaustive=%v %.1fs %s\n",
			f.Name, f.evals, f.nontrivial, len(f.outcomes), f.states, f.trans, f.exhaustive, f.wall, f.capped)
	}
	for _, k := range known {
		fmt.Printf("KNOWN-FINDING: property=%s %s\n", c.ID, k)
	}
	for _, u := range c.unstable {
		fmt.Printf("UNSTABLE (not believed): family=%s sig=%s %s\n", u.Family, u.Sig, u.Msg)
	}
	dir := filepath.Join(root, "replays", c.ID)
	if os.Getenv("VERIF_KEEP_REPLAYS") == "" {
		os.RemoveAll(dir) // replay files of earlier runs are stale (the runner clears the directory itself when it runs several binaries)
	}
	if c.nViol == 0 {
		return 0
	}
	os.MkdirAll(dir, 0o755)
	for _, v := range c.viol {
		b, _ := json.MarshalIndent(v, "", " ")
		h := sha1.Sum(b)
		p := filepath.Join(dir, hex.EncodeToString(h[:6])+".json")
		os.WriteFile(p, append(b, '\n'), 0o644)
		fmt.Printf("VIOLATION property=%s replay=%s\n", c.ID, p)
		fmt.Printf("  family=%s sig=%s reproduced=%s\n  %s\n", v.Family, v.Sig, v.Repro, v.Msg)
	}
	if c.nViol > len(c.viol) {
		fmt.Printf("  (%d further violating cases not stored)\n", c.nViol-len(c.viol))
	}
	return 1
}

// Replaying reports whether this process was started to replay one case; the
// harness must then only register its families and call Finish.
func (c *Check) Replaying() bool { return os.Getenv("VERIF_REPLAY") != "" }

func (c *Check) finishReplay() int {
	p := os.Getenv("VERIF_REPLAY")
	b, err := os.ReadFile(p)
	if err != nil {
		fmt.Printf("HARNESS-ERROR: %v\n", err)
		return 2
	}
	var v violation
	if err := json.Unmarshal(b, &v); err != nil {
		fmt.Printf("HARNESS-ERROR: %v\n", err)
		return 2
	}
	v.Family = strings.TrimPrefix(v.Family, SweepPrefix)
	rp := c.replay[v.Family]
	if rp == nil {
		fmt.Printf("HARNESS-ERROR: family %q has no replay function\n", v.Family)
		return 2
	}
	m1 := safeReplay(rp, v.Case)
	m2 := safeReplay(rp, v.Case)
	if m1 != m2 {
		fmt.Printf("HARNESS-ERROR: replay not deterministic:\n 1: %s\n 2: %s\n", m1, m2)
		return 2
	}
	if m1 == "" {
		fmt.Printf("REPLAY property=%s family=%s: case passes\n", c.ID, v.Family)
		return 0
	}
	fmt.Printf("VIOLATION property=%s replay=%s\n  family=%s\n  %s\n", c.ID, p, v.Family, m1)
	return 1
}

func round3(f float64) float64 { return float64(int64(f*1000+0.5)) / 1000 }
