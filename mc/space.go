//go:build verif

package verifmc

import (
	"crypto/sha1"
	"fmt"
	"os"
	"sync"
)

// Space is an explicit-state breadth-first search over the real transition
// function. A state is identified by the history (sequence of op indices)
// that first reached it; a successor is a fresh real object with that
// history replayed plus one more op (live objects are never cloned).
//
// Step is called for every transition hist+[op]; it must build fresh objects,
// replay, check every invariant / reference-model agreement for the new
// history, and return the canonical key of the resulting state. A non-empty
// fail is a violation of the property on that history. If prune is true the
// successor is not expanded further (used for states outside the property's
// domain).
type Space struct {
	NOps     int
	MaxDepth int
	Step     func(worker int, hist []int) (key string, fail string, prune bool)
	OnFail   func(hist []int, msg string)
	Stop     func() bool // wall-clock safety cap
	// MaxStates stops the search (reported as not exhaustive) when exceeded.
	MaxStates int

	States      int64
	Transitions int64
	Depth       int  // deepest level whose successors were all generated
	Fixpoint    bool // frontier emptied before MaxDepth
	Capped      string
	Merged      int64 // transitions that led to an already known state
}

type spItem struct{ hist []int }

type spRes struct {
	key  [20]byte
	fail string
	skip bool
}

// Run performs the search. The initial state is the empty history.
func (s *Space) Run() {
	seen := map[[20]byte]struct{}{}
	k0, fail, _ := s.Step(0, nil)
	if fail != "" && s.OnFail != nil {
		s.OnFail(nil, fail)
	}
	seen[sha1.Sum([]byte(k0))] = struct{}{}
	s.States = 1
	frontier := []spItem{{nil}}
	for depth := 0; depth < s.MaxDepth; depth++ {
		if len(frontier) == 0 {
			s.Fixpoint = true
			return
		}
		if s.Stop != nil && s.Stop() {
			s.Capped = "time cap before depth " + itoa(depth+1)
			return
		}
		// Expand the whole level in parallel; merge in canonical order so the
		// search is deterministic.
		results := make([][]spRes, len(frontier))
		var mu sync.Mutex
		aborted := false
		done := ParRange(uint64(len(frontier)), 8, s.Stop, func(w int, lo, hi uint64) {
			for i := lo; i < hi; i++ {
				it := frontier[i]
				rs := make([]spRes, s.NOps)
				h := make([]int, len(it.hist)+1)
				copy(h, it.hist)
				for op := 0; op < s.NOps; op++ {
					h[len(h)-1] = op
					key, fail, prune := s.Step(w, h)
					rs[op] = spRes{key: sha1.Sum([]byte(key)), fail: fail, skip: prune}
				}
				results[i] = rs
			}
		})
		mu.Lock()
		if done < uint64(len(frontier)) {
			aborted = true
		}
		mu.Unlock()
		var next []spItem
		for i, rs := range results {
			if rs == nil {
				continue
			}
			for op, r := range rs {
				s.Transitions++
				if r.fail != "" && s.OnFail != nil {
					h := append(append([]int{}, frontier[i].hist...), op)
					s.OnFail(h, r.fail)
				}
				if r.skip || r.fail != "" {
					continue
				}
				if _, ok := seen[r.key]; ok {
					s.Merged++
					continue
				}
				seen[r.key] = struct{}{}
				s.States++
				next = append(next, spItem{append(append([]int{}, frontier[i].hist...), op)})
			}
		}
		if aborted {
			s.Capped = "time cap inside depth " + itoa(depth+1)
			return
		}
		s.Depth = depth + 1
		frontier = next
		if os.Getenv("VERIF_VERBOSE") != "" {
			fmt.Printf("  [space] depth=%d states=%d transitions=%d frontier=%d\n", s.Depth, s.States, s.Transitions, len(frontier))
		}
		if s.MaxStates > 0 && int(s.States) > s.MaxStates {
			s.Capped = "state cap after depth " + itoa(depth+1)
			return
		}
	}
	if len(frontier) == 0 {
		s.Fixpoint = true
	}
}

func itoa(n int) string {
	if n == 0 {
		return "0"
	}
	neg := n < 0
	if neg {
		n = -n
	}
	var b [20]byte
	i := len(b)
	for n > 0 {
		i--
		b[i] = byte('0' + n%10)
		n /= 10
	}
	if neg {
		i--
		b[i] = '-'
	}
	return string(b[i:])
}
