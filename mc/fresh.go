//go:build verif

package verifmc

import (
	"fmt"
	"os"
	"os/exec"
	"strings"
)

// Fresh-process executions. Package-level state (lazily built tables, caches,
// variables bound to flags) makes "what ran before in this process" part of
// the state space; its initial state can only be reached in a new process.
// FreshExec re-executes the running test binary so that exactly one Test
// function runs, with the given environment, and returns what that function
// printed through FreshPrint.

const freshOpen, freshClose = "<<<verif-fresh:", ":verif-fresh>>>"

// FreshPrint is called by the child to hand its observation to the parent.
func FreshPrint(s string) { os.Stdout.WriteString(freshOpen + s + freshClose) }

// FreshExec runs test function testName of this binary in a new process.
func FreshExec(testName string, env ...string) (string, error) {
	cmd := exec.Command(os.Args[0], "-test.run", "^"+testName+"$", "-test.count", "1")
	cmd.Env = append(os.Environ(), env...)
	out, err := cmd.Output()
	s := string(out)
	i, j := strings.Index(s, freshOpen), strings.LastIndex(s, freshClose)
	if i < 0 || j < i {
		return "", fmt.Errorf("fresh process %s %v printed no observation (err=%v, output %q)", testName, env, err, tail(s, 400))
	}
	return s[i+len(freshOpen) : j], nil
}

func tail(s string, n int) string {
	if len(s) <= n {
		return s
	}
	return s[len(s)-n:]
}
