//go:build verif

package verifmc

import (
	"encoding/json"
	"fmt"
	"os"
	"os/exec"
	"strings"
)

// Fresh-process executions. Package-level state (lazily built tables, caches,
// variables bound to flags) makes "what ran before in this process" part of
// the state space; its initial state can only be reached in a new process.
// FreshExec re-executes the running test binary so that exactly one Test
// function runs, with the given environment, and returns what that function
// printed through FreshPrint.

const freshOpen, freshClose = "<<<verif-fresh:", ":verif-fresh>>>"

// FreshPrint is called by the child to hand its observation to the parent.
func FreshPrint(s string) { os.Stdout.WriteString(freshOpen + s + freshClose) }

// FreshExec runs test function testName of this binary in a new process.
func FreshExec(testName string, env ...string) (string, error) {
	cmd := exec.Command(os.Args[0], "-test.run", "^"+testName+"$", "-test.count", "1")
	cmd.Env = append(os.Environ(), env...)
	out, err := cmd.Output()
	s := string(out)
	i, j := strings.Index(s, freshOpen), strings.LastIndex(s, freshClose)
	if i < 0 || j < i {
		return "", fmt.Errorf("fresh process %s %v printed no observation (err=%v, output %q)", testName, env, err, tail(s, 400))
	}
	return s[i+len(freshOpen) : j], nil
}

func tail(s string, n int) string {
	if len(s) <= n {
		return s
	}
	return s[len(s)-n:]
}

// ---- first calls of a fresh process ----

// Call is one API call of a first-call alphabet; Run returns what the caller can observe, as text.
type Call struct {
	Name string
	Run  func() string
}

// FirstCallsChild is the body of the child's Test function: it makes the calls named in the environment
// variable, in order, and hands the answers to the parent.
func FirstCallsChild(calls []Call, envVar string) bool {
	spec := os.Getenv(envVar)
	if spec == "" {
		return false
	}
	var out []string
	for _, s := range strings.Split(spec, ",") {
		i := 0
		fmt.Sscan(s, &i)
		var r string
		if p := Catch(func() { r = calls[i].Run() }); p != "" {
			r = "panic: " + strings.SplitN(p, "\n", 2)[0]
		}
		out = append(out, r)
	}
	FreshPrint(strings.Join(out, "\x01"))
	return true
}

func checkFirstCalls(calls []Call, warm []string, seq []int, childTest, envVar string) string {
	var spec []string
	for _, i := range seq {
		spec = append(spec, fmt.Sprint(i))
	}
	got, err := FreshExec(childTest, envVar+"="+strings.Join(spec, ","))
	if err != nil {
		return err.Error()
	}
	parts := strings.Split(got, "\x01")
	if len(parts) != len(seq) {
		return fmt.Sprintf("fresh process answered %d of %d calls", len(parts), len(seq))
	}
	for k, i := range seq {
		if parts[k] != warm[i] {
			var before []string
			for _, j := range seq[:k] {
				before = append(before, calls[j].Name)
			}
			return fmt.Sprintf("%s = %q as call %d of a fresh process (after %v), but %q in a process that has used the package before", calls[i].Name, parts[k], k+1, before, warm[i])
		}
	}
	return ""
}

// FirstCalls registers and runs the family "first-calls-of-a-fresh-process": every call as the FIRST call of a
// new process (the test binary re-executed with childTest), alone and followed by every other call (all ordered
// pairs); each answer must equal the answer of the same call in this long-running process (computed after the
// process has used the package in every other family, and checked there against the property's oracle). What it
// decides: that no table, cache or variable built on first use — by whichever entry point comes first — changes a
// result. The space is finite and fully enumerated: len(calls) + len(calls)·(len(calls)−1) processes.
func FirstCalls(c *Check, calls []Call, childTest, envVar string) {
	if c.Sweep() {
		return
	}
	warm := make([]string, len(calls))
	var names []string
	for i, cl := range calls {
		warm[i] = cl.Run()
		names = append(names, cl.Name)
	}
	replay := func(raw json.RawMessage) string {
		var seq []int
		if err := json.Unmarshal(raw, &seq); err != nil {
			return err.Error()
		}
		return checkFirstCalls(calls, warm, seq, childTest, envVar)
	}
	f := c.Family("first-calls-of-a-fresh-process", fmt.Sprintf("every call of %q as the FIRST call of a new process (the test binary re-executed), alone and followed by every other call (all ordered pairs): each answer equals the answer of the same call in the long-running process, whose answers the other families check against the property's oracle — so tables, caches or variables built on first use, by whichever entry point comes first, cannot change a result; non-trivial = pairs", names), replay)
	if c.Replaying() {
		return
	}
	var seqs [][]int
	for i := range calls {
		seqs = append(seqs, []int{i})
	}
	for i := range calls {
		for j := range calls {
			if i != j {
				seqs = append(seqs, []int{i, j})
			}
		}
	}
	f.Bounds["calls"] = len(calls)
	f.Bounds["fresh_processes"] = len(seqs)
	done := ParRange(uint64(len(seqs)), 1, c.TimeUp, func(w int, lo, hi uint64) {
		l := f.Local()
		for k := lo; k < hi; k++ {
			msg := checkFirstCalls(calls, warm, seqs[k], childTest, envVar)
			l.Evals++
			if len(seqs[k]) > 1 {
				l.Nontrivial++
			}
			if msg != "" {
				l.Outcome("differs")
				c.Fail(f, "fresh-process", seqs[k], msg)
			} else {
				l.Outcome("same as warm")
			}
		}
		l.Flush()
	})
	if done < uint64(len(seqs)) {
		f.Capped(fmt.Sprintf("time cap: %d of %d processes", done, len(seqs)))
	}
	f.Sample([]int{0, 1})
	f.Done()
}
