//go:build verif

package verifmc

import (
	"encoding/binary"
	"math"
	"reflect"
	"sort"
	"unsafe"
)

// Canon produces a canonical dump of the real heap graph reachable from a
// set of roots: two object graphs with equal dumps are isomorphic (same
// scalars, same strings, same slice lengths/capacities/contents, same
// aliasing structure) and are therefore indistinguishable to deterministic
// code that does not inspect addresses.
//
// Rules:
//   - pointers, and the backing arrays of slices, are numbered by first visit
//     so that aliasing is part of the key;
//   - slices whose element type can hold mutable references (slice, pointer,
//     map, interface) are dumped up to cap (stale slots are re-used by the
//     code under test and are part of the future); all other slices are
//     dumped up to len;
//   - maps are dumped sorted by the canonical dump of their keys;
//   - funcs are dumped by nil-ness only; channels by len/cap.
//   - types listed in SkipTypes and fields listed in SkipFields
//     ("TypeName.field") are omitted — every such omission needs a written
//     argument at the use site.
type Canon struct {
	SkipTypes  map[reflect.Type]bool
	SkipFields map[string]bool
	// LenOnlyFields lists slice fields ("TypeName.field") whose elements
	// beyond len are only ever overwritten (by append) before being read.
	LenOnlyFields map[string]bool
	lenOnly       bool
	plans         map[reflect.Type][]fieldPlan
	buf           []byte
	ptrs          map[ptrKey]int
}

type ptrKey struct {
	p unsafe.Pointer
	t reflect.Type
}

// Key dumps the roots (which should be pointers) and returns the dump.
func (c *Canon) Key(roots ...any) string {
	c.buf = c.buf[:0]
	c.ptrs = map[ptrKey]int{}
	for _, r := range roots {
		c.walk(reflect.ValueOf(r))
		c.buf = append(c.buf, '|')
	}
	return string(c.buf)
}

func (c *Canon) u(x uint64) {
	c.buf = binary.AppendUvarint(c.buf, x)
}

func (c *Canon) str(s string) {
	c.u(uint64(len(s)))
	c.buf = append(c.buf, s...)
}

func hasRefs(t reflect.Type) bool {
	switch t.Kind() {
	case reflect.Slice, reflect.Ptr, reflect.Map, reflect.Interface, reflect.Chan, reflect.UnsafePointer:
		return true
	case reflect.Array:
		return hasRefs(t.Elem())
	case reflect.Struct:
		for i := 0; i < t.NumField(); i++ {
			if hasRefs(t.Field(i).Type) {
				return true
			}
		}
	}
	return false
}

func (c *Canon) walk(v reflect.Value) {
	if !v.IsValid() {
		c.buf = append(c.buf, 'z')
		return
	}
	t := v.Type()
	if c.SkipTypes[t] {
		c.buf = append(c.buf, '_')
		return
	}
	switch v.Kind() {
	case reflect.Bool:
		if v.Bool() {
			c.buf = append(c.buf, 'T')
		} else {
			c.buf = append(c.buf, 'F')
		}
	case reflect.Int, reflect.Int8, reflect.Int16, reflect.Int32, reflect.Int64:
		c.buf = append(c.buf, 'i')
		c.buf = binary.AppendVarint(c.buf, v.Int())
	case reflect.Uint, reflect.Uint8, reflect.Uint16, reflect.Uint32, reflect.Uint64, reflect.Uintptr:
		c.buf = append(c.buf, 'u')
		c.u(v.Uint())
	case reflect.Float32, reflect.Float64:
		c.buf = append(c.buf, 'f')
		c.u(math.Float64bits(v.Float()))
	case reflect.Complex64, reflect.Complex128:
		c.buf = append(c.buf, 'c')
		c.u(math.Float64bits(real(v.Complex())))
		c.u(math.Float64bits(imag(v.Complex())))
	case reflect.String:
		c.buf = append(c.buf, 's')
		c.str(v.String())
	case reflect.Ptr:
		if v.IsNil() {
			c.buf = append(c.buf, 'n')
			return
		}
		c.walkAt(v.Elem(), unsafe.Pointer(v.Pointer()))
	case reflect.Interface:
		if v.IsNil() {
			c.buf = append(c.buf, 'n')
			return
		}
		e := v.Elem()
		c.buf = append(c.buf, 'I')
		c.str(e.Type().String())
		c.walk(e)
	case reflect.Struct:
		if v.CanAddr() {
			c.walkAt(v, unsafe.Pointer(v.UnsafeAddr()))
		} else {
			c.walkStruct(v)
		}
	case reflect.Array:
		c.buf = append(c.buf, '[')
		for i := 0; i < v.Len(); i++ {
			c.walk(v.Index(i))
		}
	case reflect.Slice:
		if v.IsNil() {
			c.buf = append(c.buf, 'n')
			return
		}
		c.buf = append(c.buf, 'S')
		c.u(uint64(v.Len()))
		et := t.Elem()
		refs := hasRefs(et)
		n := v.Len()
		if c.lenOnly {
			refs = false
			c.lenOnly = false
		}
		if refs {
			c.u(uint64(v.Cap()))
			n = v.Cap()
		}
		// Backing array identity (only meaningful for non-empty capacity).
		if v.Cap() > 0 {
			k := ptrKey{unsafe.Pointer(v.Pointer()), reflect.SliceOf(et)}
			if id, ok := c.ptrs[k]; ok {
				c.buf = append(c.buf, '@')
				c.u(uint64(id))
				// Aliased backing array: contents were dumped at first
				// visit; lengths may differ, so dump the contents anyway for
				// scalar slices (cheap) but not for reference-bearing ones.
				if refs {
					return
				}
			} else {
				c.ptrs[k] = len(c.ptrs)
				c.buf = append(c.buf, '#')
			}
		}
		if et.Kind() == reflect.Uint8 {
			c.buf = append(c.buf, v.Bytes()...)
			return
		}
		full := v
		if n > v.Len() {
			full = v.Slice(0, n)
		}
		for i := 0; i < n; i++ {
			c.walk(full.Index(i))
		}
	case reflect.Map:
		if v.IsNil() {
			c.buf = append(c.buf, 'n')
			return
		}
		c.buf = append(c.buf, 'M')
		c.u(uint64(v.Len()))
		type ent struct {
			k string
			v reflect.Value
		}
		ents := make([]ent, 0, v.Len())
		it := v.MapRange()
		sub := &Canon{SkipTypes: c.SkipTypes, SkipFields: c.SkipFields, LenOnlyFields: c.LenOnlyFields}
		for it.Next() {
			ents = append(ents, ent{sub.Key(it.Key().Interface()), it.Value()})
		}
		sort.Slice(ents, func(i, j int) bool { return ents[i].k < ents[j].k })
		for _, e := range ents {
			c.str(e.k)
			c.walk(e.v)
		}
	case reflect.Func:
		if v.IsNil() {
			c.buf = append(c.buf, 'n')
		} else {
			c.buf = append(c.buf, 'p')
		}
	case reflect.Chan:
		c.buf = append(c.buf, 'C')
		c.u(uint64(v.Len()))
		c.u(uint64(v.Cap()))
	case reflect.UnsafePointer:
		c.buf = append(c.buf, 'P')
	default:
		c.buf = append(c.buf, '?')
	}
}

// walkAt dumps the value living at address p, numbering the address so that
// a second route to the same object (another pointer, or an interior pointer
// to an inline struct field) is dumped as a back reference.
func (c *Canon) walkAt(v reflect.Value, p unsafe.Pointer) {
	k := ptrKey{p, v.Type()}
	if v.Type().Size() > 0 {
		if id, ok := c.ptrs[k]; ok {
			c.buf = append(c.buf, '@')
			c.u(uint64(id))
			return
		}
		c.ptrs[k] = len(c.ptrs)
	}
	c.buf = append(c.buf, '&')
	if v.Kind() == reflect.Struct {
		c.walkStruct(v)
	} else {
		c.walk(v)
	}
}

type fieldPlan struct {
	skip     bool
	lenOnly  bool
	exported bool
}

func (c *Canon) plan(t reflect.Type) []fieldPlan {
	if c.plans == nil {
		c.plans = map[reflect.Type][]fieldPlan{}
	}
	if p, ok := c.plans[t]; ok {
		return p
	}
	p := make([]fieldPlan, t.NumField())
	for i := range p {
		sf := t.Field(i)
		name := t.Name() + "." + sf.Name
		p[i] = fieldPlan{skip: c.SkipFields[name], lenOnly: c.LenOnlyFields[name] && sf.Type.Kind() == reflect.Slice, exported: sf.IsExported()}
	}
	c.plans[t] = p
	return p
}

func (c *Canon) walkStruct(v reflect.Value) {
	t := v.Type()
	plan := c.plan(t)
	c.buf = append(c.buf, '{')
	var cp reflect.Value
	for i := range plan {
		if plan[i].skip {
			continue
		}
		f := v.Field(i)
		if !plan[i].exported {
			if f.CanAddr() {
				f = reflect.NewAt(f.Type(), unsafe.Pointer(f.UnsafeAddr())).Elem()
			} else {
				// Not addressable: copy the struct to make it so.
				if !cp.IsValid() {
					cp = reflect.New(t).Elem()
					cp.Set(v)
				}
				f = cp.Field(i)
				f = reflect.NewAt(f.Type(), unsafe.Pointer(f.UnsafeAddr())).Elem()
			}
		}
		if plan[i].lenOnly {
			c.lenOnly = true
		}
		c.walk(f)
		c.lenOnly = false
	}
	c.buf = append(c.buf, '}')
}
