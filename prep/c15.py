"""C15 orchestration: instrument the working tree, run the controlled pass sharded over
processes, run the free-running -race pass, merge the evidence."""
import glob
import json
import os
import subprocess
import sys
import time

PKGS = ["cmd/benchstat/internal/benchtab", "benchproc", "benchmath", "benchunit"]


def prepare(run, cid, tier):
    def runner(replay):
        t0 = time.time()
        V, R = run.VERIF, run.REPO
        env = run.goenv()
        bdir = os.path.join(V, ".build")
        os.makedirs(bdir, exist_ok=True)
        scratch = os.path.join(V, ".scratch", cid)
        os.makedirs(scratch, exist_ok=True)
        for f in glob.glob(os.path.join(scratch, "part-*.json")) + glob.glob(os.path.join(scratch, "*.ref")):
            os.remove(f)
        # 1. instrumenter
        instr = os.path.join(bdir, "verifinstr")
        p = subprocess.run(["go", "build", "-o", instr, "."], cwd=os.path.join(V, "instr"), env=env,
                           stdout=subprocess.PIPE, stderr=subprocess.STDOUT, text=True)
        if p.returncode != 0:
            print(p.stdout)
            print("HARNESS-ERROR: cannot build the instrumenter")
            return 2
        idir = os.path.join(bdir, "C15-instr")
        subprocess.run(["rm", "-rf", idir])
        p = subprocess.run([instr, "-repo", R, "-out", idir] + PKGS, env=env, stdout=subprocess.PIPE, stderr=subprocess.PIPE, text=True)
        refusal = None
        extra = {}
        if p.returncode == 3:
            refusal = p.stderr.strip()
            print("[c15] instrumenter refuses:", refusal)
        elif p.returncode != 0:
            print(p.stdout, p.stderr)
            print("HARNESS-ERROR: instrumenter failed (the working tree may not compile)")
            return 2
        else:
            res = json.loads(p.stdout)
            extra = res["overlay"]
            print("[c15] instrumented:", res["stats"])
        base_env = dict(env)
        base_env.update({"VERIF_TIER": tier, "VERIF_ROOT": V, "VERIF_KNOWN": os.path.join(V, "known_findings.json"),
                         "VERIF_REPO": R, "VERIF_C15_REFDIR": scratch})
        base_env.setdefault("VERIF_SEED", "0")
        outputs = []
        rcs = []
        saw_violation = False
        if replay:
            base_env["VERIF_REPLAY"] = os.path.abspath(replay)
        # 2. controlled pass
        if refusal is None:
            run.CHECKS[cid]["tags"] = "verif,verifsched"
            binp, bt = build_tags(run, cid, "verif,verifsched", extra, "-sched")
            nshards = 1 if replay else min(16, os.cpu_count() or 1)
            procs = []
            for i in range(nshards):
                e = dict(base_env)
                e["VERIF_SHARD"], e["VERIF_NSHARDS"] = str(i), str(nshards)
                e["VERIF_EVIDENCE"] = os.path.join(scratch, f"part-sched-{i}.json")
                e["GOMAXPROCS"] = "2"
                procs.append(subprocess.Popen([binp, "-test.run", "^TestVerifC15$", "-test.timeout", "0"], cwd=scratch, env=e,
                                              stdout=subprocess.PIPE, stderr=subprocess.STDOUT, text=True))
            for i, pr in enumerate(procs):
                out, _ = pr.communicate()
                rcs.append(pr.returncode)
                outputs.append(out)
                if i == 0 or pr.returncode != 0:
                    sys.stdout.write(out if i == 0 else "\n".join(l for l in out.splitlines() if not l.startswith("  family") and not l.startswith("SUMMARY")) + "\n")
            if replay:
                return finish(rcs, outputs, cid, t0)
        # 3. free-running -race pass (uninstrumented)
        binr, bt = build_tags(run, cid, "verif", None, "-race", race=True)
        e = dict(base_env)
        e["VERIF_EVIDENCE"] = os.path.join(scratch, "part-race.json")
        pr = subprocess.run([binr, "-test.run", "^TestVerifC15$", "-test.timeout", "0"], cwd=scratch, env=e,
                            stdout=subprocess.PIPE, stderr=subprocess.STDOUT, text=True)
        sys.stdout.write(pr.stdout)
        rcs.append(pr.returncode)
        outputs.append(pr.stdout)
        if "WARNING: DATA RACE" in pr.stdout:
            os.makedirs(os.path.join(V, "replays", cid), exist_ok=True)
            rp = os.path.join(V, "replays", cid, "race-report.txt")
            open(rp, "w").write(pr.stdout)
            print(f"VIOLATION property={cid} replay={rp}")
            print("  the free-running -race pass reported a data race")
            outputs.append(f"VIOLATION property={cid} replay={rp}")
            rcs.append(1)
        merge(V, cid, tier, scratch, refusal, time.time() - t0)
        return finish(rcs, outputs, cid, t0)
    return runner


def build_tags(run, cid, tags, extra, suffix, race=False):
    cfg = run.CHECKS[cid]
    bdir = os.path.join(run.VERIF, ".build")
    ov = os.path.join(bdir, f"{cid}{suffix}.overlay.json")
    repl = run.overlay_for(cid, extra)
    with open(ov, "w") as fh:
        json.dump({"Replace": repl}, fh, indent=1)
    out = os.path.join(bdir, f"{cid}{suffix}.test")
    cmd = ["go", "test", "-c", "-overlay", ov, "-tags", tags, "-vet=off", "-o", out]
    if race:
        cmd.append("-race")
    cmd.append("./" + cfg["pkg"])
    t0 = time.time()
    p = subprocess.run(cmd, cwd=run.REPO, env=run.goenv(), stdout=subprocess.PIPE, stderr=subprocess.STDOUT, text=True)
    if p.returncode != 0:
        print(p.stdout)
        print(f"HARNESS-ERROR: build failed for {cid}{suffix}")
        sys.exit(2)
    return out, time.time() - t0


def finish(rcs, outputs, cid, t0):
    viol = any("VIOLATION property=" in o for o in outputs)
    print(f"[run.py] {cid} total={time.time()-t0:.1f}s rcs={rcs}")
    if viol:
        return 1
    if all(rc == 0 for rc in rcs):
        return 0
    print("HARNESS-ERROR: a C15 process exited without a verdict")
    return 2


def merge(V, cid, tier, scratch, refusal, wall):
    parts = sorted(glob.glob(os.path.join(scratch, "part-*.json")))
    if not parts:
        return
    evs = [json.load(open(p)) for p in parts]
    cov = {"evaluations": 0, "distinct_nontrivial": 0, "states": 0, "transitions": 0, "families": {}, "samples": [], "exhaustive": True}
    rules = []
    viol = 0
    known = set()
    for ev in evs:
        c = ev["coverage"]
        viol += ev.get("violations", 0)
        for k in ("evaluations", "distinct_nontrivial", "states", "transitions"):
            cov[k] += c.get(k, 0)
        for name, fam in c.get("families", {}).items():
            m = cov["families"].setdefault(name, None)
            if m is None:
                cov["families"][name] = dict(fam)
                rules.append(name + ": " + fam.get("rule", ""))
                continue
            for k in ("evaluations", "distinct_nontrivial", "states", "transitions"):
                if k in fam:
                    m[k] = m.get(k, 0) + fam[k]
            m["exhaustive"] = m.get("exhaustive", True) and fam.get("exhaustive", True)
            if "outcomes" in fam:
                o = m.setdefault("outcomes", {})
                for kk, vv in fam["outcomes"].items():
                    o[kk] = o.get(kk, 0) + vv
            for k in ("max_depth", "max_decisions_per_execution", "distinct_goroutine_completion_orders"):
                if k in fam:
                    m[k] = max(m.get(k, 0), fam[k])
            m["wall_s"] = max(m.get("wall_s", 0), fam.get("wall_s", 0))
        if not cov["samples"]:
            cov["samples"] = c.get("samples", [])
        for k in c.get("known_findings_hit", []):
            known.add(k)
    # exhaustive refers to the controlled exploration; the race pass is sampling by nature
    sched = cov["families"].get("schedules")
    cov["exhaustive"] = bool(sched and sched.get("exhaustive")) and refusal is None
    for fam in cov["families"].values():
        fam["distinct_outcomes"] = len(fam.get("outcomes", {}))
    cov["rule"] = " || ".join(sorted(rules))
    cov["traces_validated_against_impl"] = cov["transitions"]
    cov["processes"] = len(parts)
    if refusal:
        cov["uninstrumentable"] = refusal
        cov["explanation"] = "controlled exploration skipped: " + refusal
    if cov["states"] == 0:
        del cov["states"], cov["transitions"], cov["traces_validated_against_impl"]
    if known:
        cov["known_findings_hit"] = sorted(known)
    out = {"property_id": cid, "tier": tier, "seed": int(os.environ.get("VERIF_SEED", "0") or 0), "level": "model_checking",
           "coverage": cov, "assumptions": evs[0].get("assumptions", []), "wall_s": round(wall, 3), "violations": viol}
    os.makedirs(os.path.join(V, "evidence"), exist_ok=True)
    with open(os.path.join(V, "evidence", cid + ".json"), "w") as fh:
        json.dump(out, fh, indent=1)
        fh.write("\n")
