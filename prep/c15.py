"""C15 orchestration: instrument the working tree, run the controlled pass sharded over
processes, run the free-running -race pass, merge the evidence."""
import glob
import json
import os
import subprocess
import sys
import time

PKGS = ["cmd/benchstat/internal/benchtab", "benchproc", "benchmath", "benchunit"]


def prepare(run, cid, tier):
    def runner(replay):
        t0 = time.time()
        V, R, O = run.VERIF, run.REPO, run.OUT
        env = run.goenv()
        bdir = os.path.join(O, ".build")
        os.makedirs(bdir, exist_ok=True)
        scratch = os.path.join(O, ".scratch", cid)
        os.makedirs(scratch, exist_ok=True)
        for f in glob.glob(os.path.join(scratch, "part-*.json")) + glob.glob(os.path.join(scratch, "*.ref")):
            os.remove(f)
        # 1. instrumenter
        instr = os.path.join(bdir, "verifinstr")
        p = subprocess.run(["go", "build", "-o", instr, "."], cwd=os.path.join(V, "instr"), env=env,
                           stdout=subprocess.PIPE, stderr=subprocess.STDOUT, text=True)
        if p.returncode != 0:
            print(p.stdout)
            print("HARNESS-ERROR: cannot build the instrumenter")
            return 2
        idir = os.path.join(bdir, "C15-instr")
        subprocess.run(["rm", "-rf", idir])
        p = subprocess.run([instr, "-repo", R, "-out", idir] + PKGS, env=env, stdout=subprocess.PIPE, stderr=subprocess.PIPE, text=True)
        refusal = None
        extra = {}
        if p.returncode == 3:
            refusal = p.stderr.strip()
            print("[c15] instrumenter refuses:", refusal)
        elif p.returncode != 0:
            print(p.stdout, p.stderr)
            print("HARNESS-ERROR: instrumenter failed (the working tree may not compile)")
            return 2
        else:
            res = json.loads(p.stdout)
            extra = res["overlay"]
            print("[c15] instrumented:", res["stats"])
        base_env = dict(env)
        base_env.update({"VERIF_TIER": tier, "VERIF_ROOT": O, "VERIF_KNOWN": os.path.join(V, "known_findings.json"),
                         "VERIF_REPO": R, "VERIF_C15_REFDIR": scratch})
        base_env.setdefault("VERIF_SEED", "0")
        base_env["VERIF_KEEP_REPLAYS"] = "1"  # several processes report into one replay directory; it is cleared here
        fam = ""
        if replay:
            try:
                fam = json.load(open(replay)).get("family", "")
            except Exception:
                fam = ""
        else:
            subprocess.run(["rm", "-rf", os.path.join(O, "replays", cid)])
        outputs = []
        rcs = []
        saw_violation = False
        if replay:
            base_env["VERIF_REPLAY"] = os.path.abspath(replay)
        if replay and fam == "argument-histories":
            bina, bt = run.build(cid, suffix="-args", pkg="cmd/benchstat")
            pr = subprocess.run([bina, "-test.run", "^TestVerifC15$", "-test.timeout", "0"], cwd=scratch, env=base_env,
                                stdout=subprocess.PIPE, stderr=subprocess.STDOUT, text=True)
            sys.stdout.write(pr.stdout)
            return finish([pr.returncode], [pr.stdout], cid, t0)
        if replay and fam not in ("schedules", "scheduler-selftest", ""):
            binr, bt = build_tags(run, cid, "verif", None, "-race", race=True)
            pr = subprocess.run([binr, "-test.run", "^TestVerifC15$", "-test.timeout", "0"], cwd=scratch, env=base_env,
                                stdout=subprocess.PIPE, stderr=subprocess.STDOUT, text=True)
            sys.stdout.write(pr.stdout)
            return finish([pr.returncode], [pr.stdout], cid, t0)
        # 2. controlled pass
        if refusal is None:
            run.CHECKS[cid]["tags"] = "verif,verifsched"
            binp, bt = build_tags(run, cid, "verif,verifsched", extra, "-sched")
            nshards = 1 if replay else min(16, os.cpu_count() or 1)
            procs = []
            for i in range(nshards):
                e = dict(base_env)
                e["VERIF_SHARD"], e["VERIF_NSHARDS"] = str(i), str(nshards)
                e["VERIF_EVIDENCE"] = os.path.join(scratch, f"part-sched-{i}.json")
                e["GOMAXPROCS"] = "2"
                procs.append(subprocess.Popen([binp, "-test.run", "^TestVerifC15$", "-test.timeout", "0"], cwd=scratch, env=e,
                                              stdout=subprocess.PIPE, stderr=subprocess.STDOUT, text=True))
            for i, pr in enumerate(procs):
                out, _ = pr.communicate()
                rcs.append(pr.returncode)
                outputs.append(out)
                if i == 0 or pr.returncode != 0:
                    sys.stdout.write(out if i == 0 else "\n".join(l for l in out.splitlines() if not l.startswith("  family") and not l.startswith("SUMMARY")) + "\n")
            if replay:
                return finish(rcs, outputs, cid, t0)
        # 3. free-running -race pass (uninstrumented)
        binr, bt = build_tags(run, cid, "verif", None, "-race", race=True)
        e = dict(base_env)
        e["VERIF_EVIDENCE"] = os.path.join(scratch, "part-race.json")
        pr = subprocess.run([binr, "-test.run", "^TestVerifC15$", "-test.timeout", "0"], cwd=scratch, env=e,
                            stdout=subprocess.PIPE, stderr=subprocess.STDOUT, text=True)
        sys.stdout.write(pr.stdout)
        rcs.append(pr.returncode)
        outputs.append(pr.stdout)
        if "WARNING: DATA RACE" in pr.stdout:
            os.makedirs(os.path.join(O, "replays", cid), exist_ok=True)
            rp = os.path.join(O, "replays", cid, "race-report.txt")
            open(rp, "w").write(pr.stdout)
            print(f"VIOLATION property={cid} replay={rp}")
            print("  the free-running -race pass reported a data race")
            outputs.append(f"VIOLATION property={cid} replay={rp}")
            rcs.append(1)
        # 4. argument histories on the real entry point (package cmd/benchstat): one process, many runs
        bina, bt = run.build(cid, suffix="-args", pkg="cmd/benchstat")
        e = dict(base_env)
        e["VERIF_EVIDENCE"] = os.path.join(scratch, "part-args.json")
        e["VERIF_KEEP_REPLAYS"] = "1"
        pr = subprocess.run([bina, "-test.run", "^TestVerifC15$", "-test.timeout", "0"], cwd=scratch, env=e,
                            stdout=subprocess.PIPE, stderr=subprocess.STDOUT, text=True)
        sys.stdout.write(pr.stdout)
        rcs.append(pr.returncode)
        outputs.append(pr.stdout)
        run.merge_parts(cid, tier, scratch, time.time() - t0, refusal=refusal, exhaustive_family="schedules")
        return finish(rcs, outputs, cid, t0)
    return runner


def build_tags(run, cid, tags, extra, suffix, race=False):
    cfg = run.CHECKS[cid]
    bdir = os.path.join(run.OUT, ".build")
    ov = os.path.join(bdir, f"{cid}{suffix}.overlay.json")
    repl = run.overlay_for(cid, extra)
    with open(ov, "w") as fh:
        json.dump({"Replace": repl}, fh, indent=1)
    out = os.path.join(bdir, f"{cid}{suffix}.test")
    cmd = ["go", "test", "-c", "-overlay", ov, "-tags", tags, "-vet=off", "-o", out]
    if race:
        cmd.append("-race")
    cmd.append("./" + cfg["pkg"])
    t0 = time.time()
    p = subprocess.run(cmd, cwd=run.REPO, env=run.goenv(), stdout=subprocess.PIPE, stderr=subprocess.STDOUT, text=True)
    if p.returncode != 0:
        print(p.stdout)
        print(f"HARNESS-ERROR: build failed for {cid}{suffix}")
        sys.exit(2)
    return out, time.time() - t0


def finish(rcs, outputs, cid, t0):
    viol = any("VIOLATION property=" in o for o in outputs)
    print(f"[run.py] {cid} total={time.time()-t0:.1f}s rcs={rcs}")
    if viol:
        return 1
    if all(rc == 0 for rc in rcs):
        return 0
    print("HARNESS-ERROR: a C15 process exited without a verdict")
    return 2


