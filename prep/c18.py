"""C18 orchestration: the plain binary runs the enumerating families; a second binary, built from
benchseries rewritten by the instrumenter (range-over-map -> verifmc.MapKeys), explores the orders
in which Go may deliver map keys, sharded over processes; evidence merged."""
import glob
import json
import os
import subprocess
import sys
import time

PKGS = ["benchseries"]


def prepare(run, cid, tier):
    def runner(replay):
        t0 = time.time()
        V, R, O = run.VERIF, run.REPO, run.OUT
        env = run.goenv()
        bdir = os.path.join(O, ".build")
        os.makedirs(bdir, exist_ok=True)
        scratch = os.path.join(O, ".scratch", cid)
        os.makedirs(scratch, exist_ok=True)
        for f in glob.glob(os.path.join(scratch, "part-*.json")):
            os.remove(f)
        base_env = dict(env)
        base_env.update({"VERIF_TIER": tier, "VERIF_ROOT": O, "VERIF_KNOWN": os.path.join(V, "known_findings.json"), "VERIF_REPO": R})
        base_env.setdefault("VERIF_SEED", "0")
        base_env["VERIF_KEEP_REPLAYS"] = "1"  # several processes report into one replay directory; it is cleared here
        if replay:
            base_env["VERIF_REPLAY"] = os.path.abspath(replay)
        else:
            subprocess.run(["rm", "-rf", os.path.join(O, "replays", cid)])
        outputs, rcs = [], []
        # 1. plain binary
        binp, bt = run.build(cid)
        e = dict(base_env)
        e["VERIF_EVIDENCE"] = os.path.join(scratch, "part-0.json")
        rc = run.run_binary(cid, binp, e, t0, bt)
        if replay and rc != 2:
            return rc
        rcs.append(rc)
        # 2. instrumented binary: map iteration orders
        instr = os.path.join(bdir, "verifinstr")
        p = subprocess.run(["go", "build", "-o", instr, "."], cwd=os.path.join(V, "instr"), env=env,
                           stdout=subprocess.PIPE, stderr=subprocess.STDOUT, text=True)
        if p.returncode != 0:
            print(p.stdout)
            print("HARNESS-ERROR: cannot build the instrumenter")
            return 2
        idir = os.path.join(bdir, cid + "-instr")
        subprocess.run(["rm", "-rf", idir])
        p = subprocess.run([instr, "-repo", R, "-out", idir] + PKGS, env=env, stdout=subprocess.PIPE, stderr=subprocess.PIPE, text=True)
        refusal = None
        if p.returncode == 3:
            refusal = p.stderr.strip()
            print("[c18] instrumenter refuses:", refusal)
        elif p.returncode != 0:
            print(p.stdout, p.stderr)
            print("HARNESS-ERROR: instrumenter failed (the working tree may not compile)")
            return 2
        else:
            res = json.loads(p.stdout)
            print("[c18] instrumented:", res["stats"])
            ov = os.path.join(bdir, f"{cid}-sched.overlay.json")
            with open(ov, "w") as fh:
                json.dump({"Replace": run.overlay_for(cid, res["overlay"])}, fh, indent=1)
            out = os.path.join(bdir, f"{cid}-sched.test")
            cmd = ["go", "test", "-c", "-overlay", ov, "-tags", "verif,verifsched", "-vet=off", "-o", out, "./" + run.CHECKS[cid]["pkg"]]
            b = subprocess.run(cmd, cwd=R, env=env, stdout=subprocess.PIPE, stderr=subprocess.STDOUT, text=True)
            if b.returncode != 0:
                print(b.stdout)
                print(f"HARNESS-ERROR: build failed for {cid}-sched")
                return 2
            nshards = 1 if replay else min(8, os.cpu_count() or 1)
            procs = []
            for i in range(nshards):
                e = dict(base_env)
                e["VERIF_SHARD"], e["VERIF_NSHARDS"] = str(i), str(nshards)
                e["VERIF_EVIDENCE"] = os.path.join(scratch, f"part-sched-{i}.json")
                procs.append(subprocess.Popen([out, "-test.run", f"^TestVerif{cid}$", "-test.timeout", "0"], cwd=scratch, env=e,
                                              stdout=subprocess.PIPE, stderr=subprocess.STDOUT, text=True))
            for i, pr in enumerate(procs):
                o, _ = pr.communicate()
                outputs.append(o)
                if i == 0 or pr.returncode != 0:
                    sys.stdout.write(o if i == 0 else "\n".join(l for l in o.splitlines() if not l.startswith("  family") and not l.startswith("SUMMARY")) + "\n")
                if "VIOLATION property=" in o:
                    rcs.append(1)
                elif pr.returncode == 0:
                    rcs.append(0)
                else:
                    rcs.append(2)
            if replay:
                return max(rcs[1:]) if rcs[1:] else 2
        run.merge_parts(cid, tier, scratch, time.time() - t0, refusal=refusal)
        print(f"[run.py] {cid} total={time.time()-t0:.1f}s rcs={rcs}")
        if any(rc == 1 for rc in rcs):
            return 1
        if all(rc == 0 for rc in rcs):
            return 0
        print("HARNESS-ERROR: a C18 process exited without a verdict")
        return 2
    return runner
