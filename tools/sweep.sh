#!/bin/sh
# tools/sweep.sh <lane> <nlanes> <out.tsv> [pattern]
# Runs every mutant (mutants/*.diff) and seeded change (seeded/*/patch.diff) of lane <lane> against
# (a) the repository's own test suite and (b) the property's quick check, in a scratch worktree
# (VERIF_REPO) with a scratch output directory (VERIF_OUT), so that neither /repo nor /verif's evidence
# is touched. One TSV row per change: name, property, suite verdict, check exit code, seconds, first violation.
lane="$1"; n="$2"; out="$3"; pat="${4:-}"
V="$(cd "$(dirname "$0")/.." && pwd)"
export GOFLAGS=-mod=mod GOPROXY=off GOSUMDB=off GOTOOLCHAIN=local
wt=/tmp/sweep-wt-$lane; od=/tmp/sweep-out-$lane
git -C /repo worktree remove --force $wt 2>/dev/null; rm -rf $wt $od
git -C /repo worktree add --detach $wt HEAD >/dev/null 2>&1 || exit 2
: > "$out"
i=0
for p in $V/mutants/*.diff $V/seeded/*/patch.diff; do
  case "$p" in *"$pat"*) ;; *) continue;; esac
  i=$((i+1)); [ $((i % n)) -eq "$lane" ] || continue
  case "$p" in */seeded/*) name="seeded/$(basename $(dirname $p))"; id=$(basename $(dirname $p) | cut -c1-3);; *) name="mutants/$(basename $p .diff)"; id=$(basename $p | cut -c1-3);; esac
  cd $wt && git checkout -q -- . && git clean -fdq
  if ! git apply "$p" 2>/dev/null; then printf "%s\t%s\tNOAPPLY\t-\t-\n" "$name" "$id" >> "$out"; continue; fi
  if go build ./... >/dev/null 2>&1 && go test -vet=off -count=1 ./... >/tmp/sweep-test-$lane.log 2>&1; then tests=pass; else tests=FAIL; fi
  t0=$(date +%s)
  o=$(VERIF_REPO=$wt VERIF_OUT=$od $V/run.sh $id quick 2>&1); rc=$?
  t1=$(date +%s)
  v=$(echo "$o" | grep -A2 '^VIOLATION' | sed -n '2,3p' | tr '\n\t' '  ' | cut -c1-260)
  printf "%s\t%s\t%s\t%s\t%ss\t%s\n" "$name" "$id" "$tests" "$rc" "$((t1-t0))" "$v" >> "$out"
done
cd /; git -C /repo worktree remove --force $wt; rm -rf $od /tmp/sweep-test-$lane.log
echo "lane $lane done"
