#!/usr/bin/env python3
"""tools/mkprompt.py <ID> <round>: prints the brief given to an independent sub-agent that seeds a property-breaking change.
Only the property record and the titles of changes already collected for it (so that it tries something different) are disclosed."""
import json, sys, os, glob
cid, rnd = sys.argv[1], sys.argv[2]
prop = None
for l in open('/verif/properties.jsonl'):
    p = json.loads(l)
    if p['id'] == cid:
        prop = p
prior = []
for d in sorted(glob.glob(f'/verif/seeded/{cid}-*/meta.json')):
    prior.append(json.load(open(d))['breaks'].split('\n')[0].lstrip('# ').strip())
wt = f'/tmp/wt{rnd}-{cid}'
out = f'/tmp/seedr{rnd}/{cid}-{rnd}'
print(f"""You are helping to evaluate a verification framework for the Go module golang.org/x/perf (benchmark-format tooling: parser/writer, filter and projection language, statistics, benchstat CLI, a storage server). You get a scratch git worktree of the repository at {wt} (already created; work ONLY there; never touch /repo or /verif, and do not read anything under /verif).

Below is one semantic property that the code is supposed to satisfy, as a JSON record:

{json.dumps(prop, indent=1, ensure_ascii=False)}

YOUR TASK: write ONE realistic change to the repository's non-test Go source (in {wt}) that BREAKS this property, while
  (a) the module still compiles (`go build ./...`), and
  (b) the repository's existing test suite still passes, unedited (`go test -vet=off -count=1 ./...` in {wt}), and
  (c) the change looks like something a well-meaning developer could plausibly commit (an optimisation, a refactoring, a cache, a fast path, a "simplification", reordered statements, a hoisted variable, a changed boundary condition) — NOT an obviously malicious special case on a magic input, and
  (d) it needs something SPECIFIC to manifest: a particular interleaving or map iteration order, a fault at a particular point, a multi-step sequence of operations / a history on a stateful object, an unusual input shape or boundary value, or two cooperating sites that each look fine alone. Ordinary use on ordinary input should NOT expose it at once.

Changes already collected for this property (do something DIFFERENT — a different function, mechanism and clause of the property if you can):
{chr(10).join('  - ' + t for t in prior) if prior else '  (none yet)'}

Also write a demonstration: a single Go test file (`demo_test.go`, using only the standard library and the module's own packages) which FAILS with your change and PASSES on the unchanged code. Its header comment must say which package directory it is to be copied into and the exact `go test -vet=off -count=1 -run '<TestName>' ./<pkgdir>/` command. It must be deterministic enough to fail reliably with the change (if the defect is schedule-dependent, loop/repeat inside the test until it shows, but keep it under ~60 s), and must pass reliably without the change.

Environment: no network. In every shell call first run: export GOFLAGS=-mod=mod GOPROXY=off GOSUMDB=off GOTOOLCHAIN=local . Go is 1.23. Packages under storage/ need cgo sqlite (first build ≈45 s). Do not add module dependencies. Do not edit existing *_test.go files or testdata.

Procedure you must follow and report:
  1. Read the code the property is anchored in (in {wt}). Pick the change.
  2. Make it. Run `go build ./... && go test -vet=off -count=1 ./...` in {wt}: everything must pass. If not, pick another change.
  3. Put the demo test in place, run it: it must fail. `git stash` (or `git diff > patch; git checkout -- .`) the change, run the demo again: it must pass. Restore the change.
  4. Deliver into the directory {out}/ (create it):
       patch.diff    — `git diff` of the non-test source change only (must apply with `git apply` to a clean checkout of HEAD; do NOT include the demo file in it)
       demo_test.go  — the demonstration
       notes.md      — first line `# {cid}-{rnd}: <one-line title>`, then: the change, which clause of the property it breaks, exactly what is needed for it to manifest, and the commands you ran with their results.
  5. Remove the demo file from the worktree and leave the worktree with the change reverted (`git checkout -- . && git clean -fdq`).

Reply with a short summary (title, files touched, what it needs to manifest, confirmation that suite passes / demo fails with / passes without).""")
