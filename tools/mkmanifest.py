#!/usr/bin/env python3
"""Generate /verif/MANIFEST.json from the table below (only checks whose harness exists are claimed)."""
import glob
import json
import os

ROOT = os.path.dirname(os.path.dirname(os.path.abspath(__file__)))

E1 = "bounded-exhaustive enumeration of inputs over a stated alphabet/lattice, each executed on the real code and compared with an independent reference model"
E2 = "explicit-state BFS over operation histories on the real objects, de-duplicated on a canonical dump of the real heap graph, reference model stepped in lock-step on every transition"
E3 = "controlled cooperative scheduler with deviation-bounded DFS over goroutine interleavings and map iteration orders on the instrumented real code, plus a separate free-running -race pass"

CHECKS = {
    "C01": dict(pkg="benchfmt", tech="explicit-state model checking of Writer+Reader histories (BFS to fixpoint, heap-graph state keys) + exhaustive enumeration of text-born streams", sec="3/C01",
                text="Every history over the line/record alphabet is executed on the real Writer and Reader; the search is run to a fixpoint where it closes, so the verdict covers histories of any length over the alphabet; text-born streams are enumerated exhaustively up to a length bound.",
                note="Trusts the Reader as the read-back oracle (checked against the independent format model by C02) and the alphabet chosen from the shortcuts in writer.go."),
    "C02": dict(pkg="benchfmt", tech="explicit-state model checking: BFS over line histories on the real Reader with heap-graph state keys, lock-step format model; exhaustive symbol-string enumeration", sec="3/C02",
                text="All histories of lines over a 17-line core alphabet are explored to the fixpoint of the Reader's real state space (every reachable heap shape incl. stale slots and aliasing), a 48-line alphabet to a depth bound, and every symbol string up to a length bound is compared with the independent format model.",
                note="Trusts the reference format model (internal/verifref, written from the format documentation) and bufio.Scanner's line splitting."),
    "C03": dict(pkg="benchfmt", tech="bounded-exhaustive enumeration of numeric field texts (all strings over 16 symbols up to a length bound + structured halfway/boundary families) against strconv", sec="3/C03",
                text="Every numeric text over the symbol alphabet up to the bound and every member of the structured boundary families is parsed by the real Reader and compared bit for bit with strconv.",
                note="Trusts strconv.ParseFloat/Atoi as the definition of correct rounding."),
    "C04": dict(pkg="benchproc", tech="bounded-exhaustive enumeration of unit token sequences × special values through the real Reader, metadata map and filters, against an independent unit model", sec="3/C04",
                text="All units of ≤N tokens over the component/separator alphabet × all listed values go through the real Reader; base unit, scaling, original pair, metadata lookup, filter matching and idempotence are compared with the independent unit model.",
                note="Trusts the unit reference model (internal/verifref)."),
    "C05": dict(pkg="benchproc", tech="bounded-exhaustive enumeration of benchmark names over 8 symbols against an independent name model, through Name.Parts/Base and benchproc extractors/filters", sec="3/C05",
                text="Every name over the symbol alphabet up to the bound is decomposed by the real code and through projections and filters and compared with the reference decomposition.",
                note="Trusts the reference name model."),
    "C06": dict(pkg="benchproc", tech="bounded-exhaustive enumeration of filter ASTs × results with 1..65 measurements against a boolean reference evaluator", sec="3/C06",
                text="Every filter AST up to the node bound, in several concrete syntaxes, is compiled by the real parser and evaluated on results straddling the 32/64-measurement word boundaries; Test/All/Any/Apply are compared with a reference evaluator.",
                note="Trusts the reference evaluator; extractors are checked by C05."),
    "C07": dict(pkg="benchproc", tech="bounded-exhaustive enumeration of byte-symbol strings as keys/values/expressions against a reference recogniser", sec="3/C07",
                text="Every string over 16 byte symbols up to the bound is used as quoted/bare key and value and offered as filter/projection text; denotation, clean failure and positioned errors are checked on each.",
                note="Trusts strconv.Quote and the reference classification of must-reject texts."),
    "C08": dict(pkg="benchproc", tech="explicit-state BFS over streams of results projected through one parser's projections, with tuple reference model on every transition", sec="3/C08",
                text="Every stream of results up to the depth bound over a result alphabet is projected by the real Projections parsed in every order; key equality, field values, exclusions and losslessness are checked on every transition.",
                note="Trusts the reference tuple extractor (name model checked by C05)."),
    "C09": dict(pkg="benchproc", tech="explicit-state BFS over observation histories with order axioms and all-permutation sort checks on every state", sec="3/C09",
                text="Every observation history up to the depth bound is run on the real projection; on every state Less is checked to be a strict total order agreeing with the documented field orders and SortKeys of every permutation gives one sequence.",
                note="Trusts the reference comparators."),
    "C10": dict(pkg="benchunit", tech="bounded-exhaustive enumeration of ulp-neighbourhoods of every prefix threshold and a 4-digit decimal lattice, checked in exact rational arithmetic", sec="3/C10",
                text="Every float within ±N ulp of every rounding threshold of every prefix in both classes, and the full 4-significant-digit lattice, is formatted by the real scaler and checked with math/big.",
                note="Exhaustive over the stated lattice, not over all float64."),
    "C11": dict(pkg="internal/stats", tech="bounded-exhaustive enumeration of all multiset pairs over a small alphabet against brute-force permutation distributions in exact rationals; at the exact-method size limits an explicit-state search over (tie groups decided, members in sample 1, 2U) with exact counts, validated against the brute force", sec="3/C11",
                text="All pairs of samples over {1..k} up to the size bound × 3 alternatives are compared with the exact permutation distribution; PMF/CDF are compared pointwise including arguments outside the support; samples exactly at and one below the limits of the exact method (50 untied / 25 tied) get the same oracle with the exact distribution from the explicit-state search.",
                note="Trusts math/big and the brute-force definition."),
    "C12": dict(pkg="internal/stats", tech="exhaustive evaluation over stated finite lattices of (x, ν), beta parameters and sample sequences against exact-rational / numerical-integration references", sec="3/C12",
                text="The domain is continuous; the check is exhaustive over a stated lattice and over all ordered sample sequences up to a length bound, with stated tolerances.",
                note="Lattice-exhaustive, not a statement about all reals."),
    "C13": dict(pkg="benchmath", tech="bounded-exhaustive enumeration of samples (n=1..70 families, all small multiset pairs) × confidences × thresholds × assumptions against exact binomial / permutation references", sec="3/C13",
                text="All listed sample families × confidence levels × assumptions are summarised and compared by the real code and checked against exact binomial coverage and exact permutation p-values.",
                note="Trusts internal reference statistics in exact rationals."),
    "C14": dict(pkg="cmd/benchstat", tech="bounded-exhaustive enumeration of dataset shapes × flag combinations through the real benchstat entry point, against an oracle built from the dataset description", sec="3/C14",
                text="Every dataset shape from the grammar × every flag combination is run through the real benchstat and the CSV is compared cell for cell with an oracle computed from the dataset description.",
                note="Cell statistics use benchmath (checked by C13) on the expected samples."),
    "C15": dict(pkg="cmd/benchstat/internal/benchtab", tech="stateless model checking: controlled cooperative scheduler + deviation-bounded DFS over goroutine interleavings and map iteration orders of the instrumented real builder; separate free-running -race pass", sec="3/C15",
                text="Every interleaving of the cell/column goroutines up to the preemption bound and every map iteration order deviation is executed on the mechanically instrumented real code and must yield the reference bytes.",
                note="Data races are only visible to the separate free-running -race pass (sampling)."),
    "C16": dict(pkg="cmd/benchstat", tech="bounded-exhaustive enumeration of table specs (rows × columns × spans × alignments × shrink) and key sequences, layout oracle; text-vs-CSV comparison over the C14 datasets", sec="3/C16",
                text="All table shapes up to the size bound are laid out by the real texttab and checked against layout constraints; header trees for all key sequences; text and CSV parsed and compared.",
                note="Trusts the layout constraint oracle."),
    "C17": dict(pkg="benchstat", tech="bounded-exhaustive enumeration of collections × settings against an exact-rational reference of the documented statistics; repeated-call differential", sec="3/C17",
                text="All collections from the shape grammar × all settings are run through the real legacy library and compared with the reference.",
                note="p-values use internal/stats (checked by C11/C12)."),
    "C18": dict(pkg="benchseries", tech="exhaustive enumeration of all insertion orders (permutations) of result pools and of all add/ask histories up to a depth on the real Builder, canonical-dump comparison; deviation-bounded exhaustive exploration of map iteration orders on the mechanically instrumented real code; lattice enumeration for bootstrap and dates", sec="3/C18",
                text="Every permutation of each result pool, every add/ask history up to the bound and every map iteration order up to the deviation bound is executed on the real Builder; the canonical dump of the comparison series (with bootstrap summaries) must be identical and equal to the set-semantics reference.",
                note="Trusts the set-semantics reference."),
    "C19": dict(pkg="storage/app", tech="explicit-state enumeration of upload histories × exhaustive query conjunctions (all conjunctions up to 5 terms on one key) against a reference store; exhaustive word-splitting and query-word strings, the word parser additionally under every map iteration order on the mechanically instrumented storage/db and storage/query (explorer-chosen orders, unbounded depth-first)", sec="3/C19",
                text="Every upload history up to the bound × every conjunction of query terms up to the bound is executed on the real DB/server and compared with a reference store; every query word up to the bound is parsed by the real parser and compared with the leftmost-operator rule, in a second build under every order in which the maps it consults may be iterated.",
                note="sqlite only; MySQL paths not exercised."),
    "C20": dict(pkg="storage/app", tech="exhaustive single-fault enumeration over every fault position of the upload path + exhaustive SQL-statement interleavings of concurrent uploads under a controlled scheduler + explicit-state ID histories", sec="3/C20",
                text="Every position of every single fault class is injected into the real upload handler and the differential post-state is checked; all statement interleavings of concurrent upload creation are explored.",
                note="Interleavings at SQL-statement granularity on sqlite."),
}


# checks whose enumerating harness bodies are additionally run free on real goroutines under the race detector
SWEEP = {"C01", "C02", "C03", "C04", "C05", "C06", "C07", "C08", "C09", "C10", "C11", "C12", "C13", "C14", "C16", "C17"}
SWEEP_TECH = "; the deciding step is that enumeration — a separate free-running -race pass of the same harness bodies (sampling, reported apart) only adds the race detector for unsynchronised package-level state"
SWEEP_NOTE = " Unsynchronised shared state (a scratch buffer hoisted to package scope, an unlocked cache) is invisible to sequential enumeration: the same harness bodies are therefore also run on 16 real goroutines under -race for a fixed time budget per family; that pass is sampling, is excluded from the exhaustive verdict and from the evaluation counts."


def main():
    checks = []
    na = []
    for cid, c in CHECKS.items():
        hdir = os.path.join(ROOT, "harness", c["pkg"].replace("/", "__"))
        if not glob.glob(os.path.join(hdir, cid.lower() + "_*.go")):
            na.append({"property_id": cid, "reason": "check not built yet in this round; designed in DESIGN.md §" + c["sec"] + " (not a statement that the technique cannot apply)"})
            continue
        checks.append({
            "property_id": cid,
            "quick_cmd": f"./run.sh {cid} quick",
            "thorough_cmd": f"./run.sh {cid} thorough",
            "evidence_file": f"evidence/{cid}.json",
            "replay_cmd_template": f"./run.sh {cid} --replay {{path}}",
            "engine": "verifmc",
            "level_claimed": {"category": "model_checking", "text": c["text"], "design_ref": "DESIGN.md §" + c["sec"]},
            "level_note": c["note"] + (SWEEP_NOTE if cid in SWEEP else ""),
            "technique": c["tech"] + (SWEEP_TECH if cid in SWEEP else ""),
        })
    man = {
        "version": 1,
        "setup_cmd": "python3 run.py --build-all",
        "hooks": {
            "guard": "verif",
            "enable": "go test -c -tags verif -overlay <generated>: engine, reference models and harness files are overlaid at build time; /repo carries no instrumentation",
            "baseline_off_cmd": "cd /repo && GOFLAGS=-mod=mod GOPROXY=off GOSUMDB=off GOTOOLCHAIN=local go test -vet=off -count=1 ./...",
            "source_commits": [],
            "add_only": True,
        },
        "engines": [
            {"name": "verifmc", "path": "mc/", "serves_properties": [c["property_id"] for c in checks],
             "kind_free_text": "hand-written Go engine: bounded-exhaustive enumerators, explicit-state BFS over real objects with heap-graph canonicalisation, cooperative scheduler with deviation-bounded DFS"},
        ],
        "checks": checks,
        "not_applicable": na,
        "notes": "All checks run the real code in-process; see DESIGN.md.",
    }
    with open(os.path.join(ROOT, "MANIFEST.json"), "w") as fh:
        json.dump(man, fh, indent=1)
        fh.write("\n")
    print("claimed:", [c["property_id"] for c in checks])


if __name__ == "__main__":
    main()
