#!/usr/bin/env python3
# validate MANIFEST.json and every evidence file against the given schemas (run with python3-vt)
import json, sys, glob, os
import jsonschema
root = os.path.dirname(os.path.dirname(os.path.abspath(__file__)))
ok = True
man = json.load(open(os.path.join(root, "MANIFEST.json")))
try:
    jsonschema.validate(man, json.load(open("/root/.vp/MANIFEST.schema.json")))
    print("MANIFEST ok,", len(man["checks"]), "checks")
except Exception as e:
    ok = False; print("MANIFEST INVALID:", e)
es = json.load(open("/root/.vp/EVIDENCE.schema.json"))
for c in man["checks"]:
    p = os.path.join(root, c["evidence_file"]) if not c["evidence_file"].startswith("/") else c["evidence_file"]
    if not os.path.exists(p):
        print("missing evidence", p); ok = False; continue
    try:
        ev = json.load(open(p)); jsonschema.validate(ev, es)
        cov = ev["coverage"]
        print(f'{c["property_id"]} ok tier={ev["tier"]} evals={cov.get("evaluations")} nontrivial={cov.get("distinct_nontrivial")} states={cov.get("states")} exhaustive={cov.get("exhaustive")} wall={ev["wall_s"]}')
    except Exception as e:
        ok = False; print("EVIDENCE INVALID", p, str(e)[:300])
sys.exit(0 if ok else 1)
