#!/usr/bin/env python3
"""tools/seeded.py <seeded-out-dir> <CHECK-ID> [<pkgdir>] [--tier quick|thorough]

Confirms a seeded defect produced by an independent sub-agent and records it under /verif/seeded/<name>/:
  1. in a scratch worktree (outside /repo and /verif): patch applies, repository builds, the existing suite passes with it;
  2. the demonstration fails with the patch and passes without it;
  3. applies the patch to a second scratch worktree and runs the registered check against it (VERIF_REPO, VERIF_OUT);
  4. writes meta.json (property, what it needs, what was run, whether the check caught it).
"""
import json
import os
import re
import shutil
import subprocess
import sys

ENV = dict(os.environ, GOFLAGS="-mod=mod", GOPROXY="off", GOSUMDB="off", GOTOOLCHAIN="local")


def sh(cmd, cwd=None, timeout=1800):
    p = subprocess.run(cmd, shell=True, cwd=cwd, env=ENV, stdout=subprocess.PIPE, stderr=subprocess.STDOUT, text=True, errors="replace", timeout=timeout)
    return p.returncode, p.stdout


def main():
    args = [a for a in sys.argv[1:] if not a.startswith("--")]
    tier = "quick"
    if "--tier" in sys.argv:
        tier = sys.argv[sys.argv.index("--tier") + 1]
        args = [a for a in args if a != tier]
    src, cid = args[0].rstrip("/"), args[1]
    name = os.path.basename(src)
    patch = os.path.join(src, "patch.diff")
    demos = [f for f in os.listdir(src) if f.endswith(".go")]
    if not demos:
        print("no demo .go file")
        return 2
    demo = demos[0]
    text = open(os.path.join(src, demo)).read()
    pkgdir = args[2] if len(args) > 2 else None
    if pkgdir is None:
        m = re.search(r"go test[^\n]*?\s\.?/?((?:[\w.]+/)*[\w.]+)/?\s*(?:\n|$|#|\))", text[:4000])
        if m and os.path.isdir(os.path.join("/repo", m.group(1))):
            pkgdir = m.group(1)
    if pkgdir is None:
        print("cannot determine package dir for demo; pass it explicitly")
        return 2
    pkgdir = pkgdir.strip("/")
    m = re.search(r"-run\s+'?\"?([\w^$|.()\[\]]+)", text[:3000])
    runre = m.group(1) if m else "."
    wt = "/tmp/sv-" + name
    sh(f"git -C /repo worktree remove --force {wt}")
    rc, out = sh(f"git -C /repo worktree add -q --detach {wt} HEAD")
    if rc != 0:
        print(out)
        return 2
    result = {"name": name, "property": cid, "demo": demo, "demo_pkg": pkgdir, "demo_run": runre}
    try:
        rc, out = sh(f"git apply {patch}", cwd=wt)
        if rc != 0:
            print("patch does not apply:", out)
            return 2
        rc, out = sh("go build ./... && go test -vet=off -count=1 ./...", cwd=wt)
        result["suite_passes_with_patch"] = rc == 0
        if rc != 0:
            print("existing suite FAILS with the patch:\n", out[-1500:])
            return 3
        shutil.copy(os.path.join(src, demo), os.path.join(wt, pkgdir, "zz_seeded_demo_test.go" if demo.endswith("_test.go") else demo))
        rc1, out1 = sh(f"go test -vet=off -count=1 -run '{runre}' ./{pkgdir}/", cwd=wt)
        result["demo_fails_with_patch"] = rc1 != 0
        sh(f"git apply -R {patch}", cwd=wt)
        rc2, out2 = sh(f"go test -vet=off -count=1 -run '{runre}' ./{pkgdir}/", cwd=wt)
        result["demo_passes_without_patch"] = rc2 == 0
        if rc1 == 0 or rc2 != 0:
            print("demo does not discriminate: with patch rc=%d, without rc=%d" % (rc1, rc2))
            print(out1[-800:], "\n----\n", out2[-800:])
            return 3
    finally:
        sh(f"git -C /repo worktree remove --force {wt}")
        sh("git -C /repo worktree prune")
    # run the registered check against it: a second scratch worktree carrying the patch (VERIF_REPO) and a scratch output
    # directory (VERIF_OUT), so that neither /repo nor /verif/evidence ever sees the broken tree
    wt2 = "/tmp/sc-" + name
    outd = "/tmp/sco-" + name
    sh(f"git -C /repo worktree remove --force {wt2}")
    sh(f"rm -rf {outd}")
    rc, out = sh(f"git -C /repo worktree add -q --detach {wt2} HEAD")
    if rc != 0:
        print(out)
        return 2
    try:
        rc, out = sh(f"git apply {patch}", cwd=wt2)
        if rc != 0:
            print("patch does not apply:", out)
            return 2
        ENV["VERIF_REPO"] = wt2
        ENV["VERIF_OUT"] = outd
        rc, out = sh(f"/verif/run.sh {cid} {tier}", cwd="/verif", timeout=7200)
        # keep the first replay file next to the record
        open("/tmp/sc-last-" + name + ".log", "w").write(out)
    finally:
        sh(f"git -C /repo worktree remove --force {wt2}")
        sh("git -C /repo worktree prune")
        sh(f"rm -rf {outd}")
    caught = rc == 1 and "VIOLATION property=" in out
    result["check"] = f"./run.sh {cid} {tier}"
    result["check_rc"] = rc
    result["caught"] = caught
    vi = [l for l in out.splitlines() if l.startswith("VIOLATION") or l.startswith("  family=")][:2]
    msg = ""
    lines = out.splitlines()
    for i, l in enumerate(lines):
        if l.startswith("VIOLATION"):
            msg = "\n".join(lines[i:i + 3])[:600]
            break
    result["check_first_violation"] = msg
    notes = ""
    if os.path.exists(os.path.join(src, "notes.md")):
        notes = open(os.path.join(src, "notes.md")).read()
    dst = os.path.join("/verif/seeded", name)
    os.makedirs(dst, exist_ok=True)
    shutil.copy(patch, os.path.join(dst, "patch.diff"))
    shutil.copy(os.path.join(src, demo), os.path.join(dst, demo))
    if notes:
        open(os.path.join(dst, "notes.md"), "w").write(notes)
    meta = {
        "property": cid,
        "breaks": notes.split("\n\n")[0][:600] if notes else "",
        "needs_to_manifest": "see notes.md",
        "ran": [
            "scratch worktree: git apply patch.diff && go build ./... && go test -vet=off -count=1 ./...  -> suite passes",
            f"scratch worktree: go test -run '{runre}' ./{pkgdir}/ with the demo -> fails with the patch, passes without",
            f"scratch worktree with patch.diff applied: VERIF_REPO=<worktree> VERIF_OUT=<scratch> ./run.sh {cid} {tier}  -> rc={rc}",
        ],
        "confirmed": result,
        "caught_by_check": caught,
    }
    json.dump(meta, open(os.path.join(dst, "meta.json"), "w"), indent=1)
    print(("CAUGHT  " if caught else "MISSED  ") + name + f" (check rc={rc})")
    if msg:
        print(msg[:400])
    return 0 if caught else 1


if __name__ == "__main__":
    sys.exit(main())
