#!/bin/sh
# tools/mutant.sh <patch.diff> <ID> [tier]: apply a property-breaking patch to a scratch worktree of /repo, run the
# check against it (VERIF_REPO / VERIF_OUT: neither /repo nor /verif/evidence is touched), remove the worktree.
# Prints the verdict line; exit 0 if the check reported a VIOLATION (mutant caught).
patch="$(realpath "$1")"; id="$2"; tier="${3:-quick}"
tag="$(basename "$patch" .diff)-$$"
wt=/tmp/mu-wt-$tag; od=/tmp/mu-out-$tag
git -C /repo worktree add -q --detach $wt HEAD || exit 2
( cd $wt && git apply "$patch" ) || { echo "patch does not apply"; git -C /repo worktree remove --force $wt; exit 2; }
out=$(VERIF_REPO=$wt VERIF_OUT=$od /verif/run.sh "$id" "$tier" 2>&1); rc=$?
git -C /repo worktree remove --force $wt; rm -rf $od
echo "$out" | grep -E "^(VIOLATION|KNOWN-FINDING|HARNESS-ERROR|SUMMARY)" | head -5
echo "$out" | grep -A3 "^VIOLATION" | head -8
echo "mutant $(basename $patch) on $id: rc=$rc"
[ $rc -eq 1 ]
