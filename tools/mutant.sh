#!/bin/sh
# tools/mutant.sh <patch.diff> <ID> [tier]: apply a property-breaking patch to /repo, run the check, undo.
# Prints the verdict line; exit 0 if the check reported a VIOLATION (mutant caught).
patch="$(realpath "$1")"; id="$2"; tier="${3:-quick}"
cd /repo || exit 2
if ! git diff --quiet; then echo "repo dirty"; exit 2; fi
git apply "$patch" || { echo "patch does not apply"; exit 2; }
out=$(/verif/run.sh "$id" "$tier" 2>&1); rc=$?
git -C /repo checkout -- . 
echo "$out" | grep -E "^(VIOLATION|KNOWN-FINDING|HARNESS-ERROR|SUMMARY)" | head -5
echo "$out" | grep -A3 "^VIOLATION" | head -8
echo "mutant $(basename $patch) on $id: rc=$rc"
[ $rc -eq 1 ]
