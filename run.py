#!/usr/bin/env python3
"""Runner for the golang/perf model-checking harnesses.

usage: run.py <ID> quick|thorough
       run.py <ID> --replay <path>
       run.py --build-all          (setup: warm the build cache)

Every invocation rebuilds the test binary from /repo's current working tree
with the engine (/verif/mc -> internal/verifmc), the reference models
(/verif/ref -> internal/verifref) and the harness files overlaid; /repo is
never written.  Exit 0: property held on everything explored.  Exit 1: a
VIOLATION line was printed.  Exit 2: harness/build error (no verdict).
"""
import glob
import json
import os
import subprocess
import sys
import time

VERIF = os.path.dirname(os.path.abspath(__file__))
REPO = os.environ.get("VERIF_REPO", "/repo")
# where build output, scratch files, evidence and replays go (default: /verif itself); runs against deliberately
# broken trees set VERIF_OUT to a scratch directory so that /verif/evidence only ever describes /repo
OUT = os.environ.get("VERIF_OUT", VERIF)

# id -> package directory (relative to the module root) the harness is compiled into
CHECKS = {
    "C01": {"pkg": "benchfmt", "sweep": ["benchfmt"]},
    "C02": {"pkg": "benchfmt", "sweep": ["benchfmt"]},
    "C03": {"pkg": "benchfmt", "sweep": ["benchfmt"]},
    "C04": {"pkg": "benchproc", "sweep": ["benchproc"]},
    "C05": {"pkg": "benchproc", "sweep": ["benchproc"]},
    "C06": {"pkg": "benchproc", "sweep": ["benchproc"]},
    "C07": {"pkg": "benchproc", "sweep": ["benchproc"]},
    "C08": {"pkg": "benchproc", "sweep": ["benchproc"]},
    "C09": {"pkg": "benchproc", "sweep": ["benchproc"]},
    "C10": {"pkg": "benchunit", "sweep": ["benchunit"]},
    "C11": {"pkg": "internal/stats", "sweep": ["internal/stats"]},
    "C12": {"pkg": "internal/stats", "sweep": ["internal/stats"]},
    "C13": {"pkg": "benchmath", "sweep": ["benchmath"]},
    "C14": {"pkg": "cmd/benchstat", "sweep": ["cmd/benchstat"]},
    "C15": {"pkg": "cmd/benchstat/internal/benchtab"},
    "C16": {"pkg": "cmd/benchstat", "sweep": ["cmd/benchstat"]},
    "C17": {"pkg": "benchstat", "sweep": ["benchstat"]},
    "C18": {"pkg": "benchseries"},
    "C19": {"pkg": "storage/app", "pkgs": ["storage/app", "analysis/app", "storage/db"],
            # a further binary of the harness in storage/db, built from storage/db and storage/query rewritten by the
            # instrumenter (range-over-map -> verifmc.MapKeys): the explorer decides every map iteration order
            "maporder": {"instr": ["storage/db", "storage/query"], "pkg": "storage/db"}},
    "C20": {"pkg": "storage/app", "pkgs": ["storage/app", "storage/db"], "race_pkg": "storage/db"},
}


PRINTED = set()


def goenv():
    env = dict(os.environ)
    env.update({"GOFLAGS": "-mod=mod", "GOPROXY": "off", "GOSUMDB": "off", "GOTOOLCHAIN": "local"})
    return env


def overlay_for(cid, extra=None, pkg=None):
    cfg = dict(CHECKS[cid])
    if pkg:
        cfg["pkg"] = pkg
    repl = {}
    for f in sorted(glob.glob(os.path.join(VERIF, "mc", "*.go"))):
        repl[os.path.join(REPO, "internal/verifmc", os.path.basename(f))] = f
    for f in sorted(glob.glob(os.path.join(VERIF, "ref", "*.go"))):
        repl[os.path.join(REPO, "internal/verifref", os.path.basename(f))] = f
    hdir = os.path.join(VERIF, "harness", cfg["pkg"].replace("/", "__"))
    pats = [cid.lower() + "_*.go", "common_*.go"]
    n = 0
    for pat in pats:
        for f in sorted(glob.glob(os.path.join(hdir, pat))):
            repl[os.path.join(REPO, cfg["pkg"], "zz_verif_" + os.path.basename(f))] = f
            n += 1
    if n == 0:
        print(f"HARNESS-ERROR: no harness files for {cid} in {hdir}")
        sys.exit(2)
    if extra:
        repl.update(extra)
    return repl


def build(cid, race=False, extra_overlay=None, suffix="", pkg=None, tags="verif"):
    cfg = dict(CHECKS[cid])
    if pkg:
        cfg["pkg"] = pkg
    bdir = os.path.join(OUT, ".build")
    os.makedirs(bdir, exist_ok=True)
    ov = os.path.join(bdir, f"{cid}{suffix}.overlay.json")
    with open(ov, "w") as fh:
        json.dump({"Replace": overlay_for(cid, extra_overlay, pkg)}, fh, indent=1)
    out = os.path.join(bdir, f"{cid}{suffix}.test")
    cmd = ["go", "test", "-c", "-overlay", ov, "-tags", tags, "-vet=off", "-o", out]
    if race:
        cmd.append("-race")
    if cfg.get("ldflags"):
        cmd += ["-ldflags", cfg["ldflags"]]
    cmd.append("./" + cfg["pkg"])
    t0 = time.time()
    p = subprocess.run(cmd, cwd=REPO, env=goenv(), stdout=subprocess.PIPE, stderr=subprocess.STDOUT, text=True)
    if p.returncode != 0:
        print(p.stdout)
        print(f"HARNESS-ERROR: build failed for {cid} ({' '.join(cmd)})")
        sys.exit(2)
    return out, time.time() - t0


def prehooks(cid, tier):
    """Per-check preparation that needs the working tree (e.g. instrumentation)."""
    mod = os.path.join(VERIF, "prep", cid.lower() + ".py")
    if os.path.exists(mod):
        import importlib.util
        spec = importlib.util.spec_from_file_location("prep_" + cid, mod)
        m = importlib.util.module_from_spec(spec)
        spec.loader.exec_module(m)
        return m.prepare(sys.modules[__name__], cid, tier)
    return None


def run_check(cid, tier, replay=None):
    t0 = time.time()
    custom = prehooks(cid, tier)
    if custom is not None:
        return custom(replay)
    if CHECKS[cid].get("pkgs") or CHECKS[cid].get("sweep"):
        CHECKS[cid].setdefault("pkgs", [CHECKS[cid]["pkg"]])
        return run_multi(cid, tier, replay, t0)
    binp, bt = build(cid)
    env = goenv()
    env["VERIF_TIER"] = tier
    env["VERIF_ROOT"] = OUT
    env["VERIF_KNOWN"] = os.path.join(VERIF, "known_findings.json")
    env["VERIF_EVIDENCE"] = os.path.join(OUT, "evidence", cid + ".json")
    env["VERIF_REPO"] = REPO
    env.setdefault("VERIF_SEED", "0")
    if replay:
        env["VERIF_REPLAY"] = os.path.abspath(replay)
    return run_binary(cid, binp, env, t0, bt)


def run_multi(cid, tier, replay, t0):
    """A check whose harness lives in several packages: one test binary per package, evidence merged."""
    scratch = os.path.join(OUT, ".scratch", cid)
    os.makedirs(scratch, exist_ok=True)
    for f in glob.glob(os.path.join(scratch, "part-*.json")):
        os.remove(f)
    if not replay:
        subprocess.run(["rm", "-rf", os.path.join(OUT, "replays", cid)])
    rcs = []
    for i, pkg in enumerate(CHECKS[cid]["pkgs"]):
        binp, bt = build(cid, suffix=f"-{i}", pkg=pkg)
        env = goenv()
        env.update({"VERIF_TIER": tier, "VERIF_ROOT": OUT, "VERIF_KNOWN": os.path.join(VERIF, "known_findings.json"),
                    "VERIF_EVIDENCE": os.path.join(scratch, f"part-{i}.json"), "VERIF_REPO": REPO, "VERIF_PART": str(i),
                    "VERIF_KEEP_REPLAYS": "1"})
        env.setdefault("VERIF_SEED", "0")
        if replay:
            env["VERIF_REPLAY"] = os.path.abspath(replay)
        rc = run_binary(cid, binp, env, t0, bt)
        if replay:
            # the replay file names its family; only the package that registers it answers
            if rc != 2:
                return rc
            continue
        rcs.append(rc)
    if replay:
        if CHECKS[cid].get("maporder"):
            return maporder_pass(cid, tier, replay, scratch, t0)
        return 2
    rp = CHECKS[cid].get("race_pkg")
    if rp:
        # separate free-running pass of the same bodies under the race detector
        binp, bt = build(cid, race=True, suffix="-race", pkg=rp)
        env = goenv()
        env.update({"VERIF_TIER": tier, "VERIF_ROOT": OUT, "VERIF_KNOWN": os.path.join(VERIF, "known_findings.json"),
                    "VERIF_EVIDENCE": os.path.join(scratch, "part-race.json"), "VERIF_REPO": REPO, "VERIF_RACE": "1",
                    "GORACE": "halt_on_error=0", "VERIF_KEEP_REPLAYS": "1"})
        env.setdefault("VERIF_SEED", "0")
        import io, contextlib
        buf = io.StringIO()
        with contextlib.redirect_stdout(buf):
            rc = run_binary(cid, binp, env, t0, bt)
        out = buf.getvalue()
        sys.stdout.write(out)
        if "WARNING: DATA RACE" in out:
            os.makedirs(os.path.join(OUT, "replays", cid), exist_ok=True)
            path = os.path.join(OUT, "replays", cid, "race-report.txt")
            open(path, "w").write(out)
            print(f"VIOLATION property={cid} replay={path}")
            print("  the free-running -race pass reported a data race")
            rc = 1
        rcs.append(rc)
    for j, sp in enumerate(CHECKS[cid].get("sweep") or []):
        rcs.append(race_sweep(cid, tier, sp, j, scratch, t0))
    if CHECKS[cid].get("maporder"):
        rcs.append(maporder_pass(cid, tier, None, scratch, t0))
    merge_parts(cid, tier, scratch, time.time() - t0)
    if any(rc == 1 for rc in rcs):
        return 1
    if all(rc == 0 for rc in rcs):
        return 0
    return 2


def maporder_pass(cid, tier, replay, scratch, t0):
    """The harness of one package once more, built from packages rewritten by the instrumenter so that the explorer
    chooses the order in which every map is iterated (build tags verif,verifsched)."""
    mo = CHECKS[cid]["maporder"]
    env = goenv()
    bdir = os.path.join(OUT, ".build")
    os.makedirs(bdir, exist_ok=True)
    instr = os.path.join(bdir, "verifinstr")
    p = subprocess.run(["go", "build", "-o", instr, "."], cwd=os.path.join(VERIF, "instr"), env=env,
                       stdout=subprocess.PIPE, stderr=subprocess.STDOUT, text=True)
    if p.returncode != 0:
        print(p.stdout)
        print("HARNESS-ERROR: cannot build the instrumenter")
        return 2
    idir = os.path.join(bdir, cid + "-instr")
    subprocess.run(["rm", "-rf", idir])
    p = subprocess.run([instr, "-repo", REPO, "-out", idir] + mo["instr"], env=env, stdout=subprocess.PIPE, stderr=subprocess.PIPE, text=True)
    if p.returncode == 3:
        print(f"[run.py] {cid}: the instrumenter refuses ({p.stderr.strip()}); map iteration orders are not explored")
        return 0
    if p.returncode != 0:
        print(p.stdout, p.stderr)
        print("HARNESS-ERROR: instrumenter failed (the working tree may not compile)")
        return 2
    res = json.loads(p.stdout)
    print(f"[run.py] {cid} instrumented:", res["stats"])
    binp, bt = build(cid, extra_overlay=res["overlay"], suffix="-maporder", pkg=mo["pkg"], tags="verif,verifsched")
    e = goenv()
    e.update({"VERIF_TIER": tier, "VERIF_ROOT": OUT, "VERIF_KNOWN": os.path.join(VERIF, "known_findings.json"),
              "VERIF_EVIDENCE": os.path.join(scratch, "part-maporder.json"), "VERIF_REPO": REPO, "VERIF_PART": "maporder",
              "VERIF_KEEP_REPLAYS": "1", "VERIF_MAPORDER": "1"})
    e.setdefault("VERIF_SEED", "0")
    if replay:
        e["VERIF_REPLAY"] = os.path.abspath(replay)
    return run_binary(cid, binp, e, t0, bt)


def race_sweep(cid, tier, pkg, j, scratch, t0):
    """Free-running -race pass of the SAME harness bodies (the enumerating families run on 16 real goroutines, each for a
    short time budget): the cooperative/sequential passes cannot see unsynchronised shared state (a buffer hoisted to
    package scope, a cache without a lock); the race detector and the concurrent-use oracle can. Sampling by nature."""
    import io, contextlib
    binp, bt = build(cid, race=True, suffix=f"-sweep{j}", pkg=pkg)
    env = goenv()
    env.update({"VERIF_TIER": "quick", "VERIF_ROOT": OUT, "VERIF_KNOWN": os.path.join(VERIF, "known_findings.json"),
                "VERIF_EVIDENCE": os.path.join(scratch, f"part-sweep{j}.json"), "VERIF_REPO": REPO, "VERIF_RACE_SWEEP": "1",
                "VERIF_PART": "sweep", "VERIF_RACE_FAMILY_S": "2" if tier == "quick" else "20",
                "GORACE": "halt_on_error=0", "VERIF_KEEP_REPLAYS": "1"})
    env.setdefault("VERIF_SEED", "0")
    buf = io.StringIO()
    with contextlib.redirect_stdout(buf):
        rc = run_binary(cid, binp, env, t0, bt)
    out = buf.getvalue()
    races = out.count("WARNING: DATA RACE")
    if races:
        # print the first report in full, the verdict lines, and keep everything in the replay file
        i = out.index("WARNING: DATA RACE")
        sys.stdout.write(out[i:i + 6000] + "\n")
        sys.stdout.write("\n".join(l for l in out.splitlines() if l.startswith(("SUMMARY", "  family", "VIOLATION", "KNOWN-FINDING", "[run.py]"))) + "\n")
        os.makedirs(os.path.join(OUT, "replays", cid), exist_ok=True)
        path = os.path.join(OUT, "replays", cid, f"race-report-{j}.txt")
        open(path, "w").write(out)
        print(f"VIOLATION property={cid} replay={path}")
        print(f"  the free-running -race pass of the harness bodies in {pkg} reported {races} data race(s)")
        rc = 1
    else:
        # known findings were already printed by the enumerating pass
        sys.stdout.write("".join(l for l in out.splitlines(True) if not (l.startswith("KNOWN-FINDING:") and l in PRINTED)))
    return rc


def merge_parts(cid, tier, scratch, wall, refusal=None, exhaustive_family=None):
    parts = sorted(glob.glob(os.path.join(scratch, "part-*.json")))
    if not parts:
        return
    evs = [json.load(open(p)) for p in parts]
    cov = {"evaluations": 0, "distinct_nontrivial": 0, "states": 0, "transitions": 0, "families": {}, "samples": [], "exhaustive": True}
    rules = []
    viol = 0
    known = set()
    assumptions = []
    for ev in evs:
        c = ev["coverage"]
        viol += ev.get("violations", 0)
        for a in ev.get("assumptions", []):
            if a not in assumptions:
                assumptions.append(a)
        for k in ("evaluations", "distinct_nontrivial", "states", "transitions"):
            cov[k] += c.get(k, 0)
        cov["exhaustive"] = cov["exhaustive"] and c.get("exhaustive", True)
        for name, fam in c.get("families", {}).items():
            m = cov["families"].get(name)
            if m is None:
                cov["families"][name] = dict(fam)
                rules.append(name + ": " + fam.get("rule", ""))
                continue
            for k in ("evaluations", "distinct_nontrivial", "states", "transitions"):
                if k in fam:
                    m[k] = m.get(k, 0) + fam[k]
            m["exhaustive"] = m.get("exhaustive", True) and fam.get("exhaustive", True)
            if "outcomes" in fam:
                o = m.setdefault("outcomes", {})
                for kk, vv in fam["outcomes"].items():
                    o[kk] = o.get(kk, 0) + vv
            for k in ("max_depth", "max_decisions_per_execution", "distinct_goroutine_completion_orders"):
                if k in fam:
                    m[k] = max(m.get(k, 0), fam[k])
            m["wall_s"] = max(m.get("wall_s", 0), fam.get("wall_s", 0))
        cov["samples"] = (cov["samples"] + (c.get("samples") or []))[:8]
        for k in c.get("known_findings_hit", []):
            known.add(k)
        cov["max_chunk_s"] = max(cov.get("max_chunk_s", 0), c.get("max_chunk_s", 0))
    if not exhaustive_family and cov["families"]:
        # the free-running -race passes are samples by design; exhaustiveness is a statement about the enumerating families
        cov["exhaustive"] = all(f.get("exhaustive", True) for n, f in cov["families"].items() if not n.startswith("free-running")) and refusal is None
    if exhaustive_family:
        fam = cov["families"].get(exhaustive_family)
        cov["exhaustive"] = bool(fam and fam.get("exhaustive")) and refusal is None
    for fam in cov["families"].values():
        fam["distinct_outcomes"] = len(fam.get("outcomes", {}))
    # the totals describe the enumerating families only; what the free-running -race passes sampled is reported apart
    for k in ("evaluations", "distinct_nontrivial", "states", "transitions"):
        cov[k] = sum(f.get(k, 0) for n, f in cov["families"].items() if not n.startswith("free-running"))
    sampled = sum(f.get("evaluations", 0) for n, f in cov["families"].items() if n.startswith("free-running"))
    if sampled:
        cov["free_running_race_pass_evaluations"] = sampled
    cov["rule"] = " || ".join(sorted(rules))
    cov["traces_validated_against_impl"] = cov["transitions"]
    cov["processes"] = len(parts)
    if refusal:
        cov["uninstrumentable"] = refusal
        cov["explanation"] = "controlled exploration skipped: " + refusal
    if cov["states"] == 0:
        del cov["states"], cov["transitions"], cov["traces_validated_against_impl"]
    if known:
        cov["known_findings_hit"] = sorted(known)
    out = {"property_id": cid, "tier": tier, "seed": int(os.environ.get("VERIF_SEED", "0") or 0), "level": "model_checking",
           "coverage": cov, "assumptions": assumptions, "wall_s": round(wall, 3), "violations": viol}
    os.makedirs(os.path.join(OUT, "evidence"), exist_ok=True)
    with open(os.path.join(OUT, "evidence", cid + ".json"), "w") as fh:
        json.dump(out, fh, indent=1)
        fh.write("\n")


def run_binary(cid, binp, env, t0, bt, args=None):
    scratch = os.path.join(OUT, ".scratch", cid)
    os.makedirs(scratch, exist_ok=True)
    cmd = [binp, "-test.run", f"^TestVerif{cid}$", "-test.timeout", "0", "-test.count", "1"] + (args or [])
    p = subprocess.Popen(cmd, cwd=scratch, env=env, stdout=subprocess.PIPE, stderr=subprocess.STDOUT, text=True, errors="replace")
    # Last line of defence against code under test that wedges the whole test process (a deadlock outside every
    # family's own watchdog): far beyond any run on the unchanged tree (quick tier: every family stops at its internal
    # cap of a few minutes), so it cannot fire there; when it fires the process is killed and the hang is the finding.
    limit = float(os.environ.get("VERIF_PROCESS_LIMIT_S", "2700" if env.get("VERIF_TIER") != "thorough" else "14400"))
    import threading
    hung = []

    def _kill():
        hung.append(True)
        try:
            p.kill()
        except Exception:
            pass
    timer = threading.Timer(limit, _kill)
    timer.daemon = True
    timer.start()
    saw_violation = False
    saw_summary = False
    for line in p.stdout:
        sys.stdout.write(line)
        if line.startswith("KNOWN-FINDING:"):
            PRINTED.add(line)
        if line.startswith("VIOLATION property="):
            saw_violation = True
        if line.startswith("SUMMARY property=") or line.startswith("REPLAY property="):
            saw_summary = True
    rc = p.wait()
    timer.cancel()
    sys.stdout.flush()
    if hung:
        rdir = os.path.join(OUT, "replays", cid)
        os.makedirs(rdir, exist_ok=True)
        path = os.path.join(rdir, "process-hang.txt")
        with open(path, "w") as fh:
            fh.write(f"{' '.join(cmd)}\ndid not finish within {limit:.0f} s and was killed\n")
        print(f"VIOLATION property={cid} replay={path}")
        print(f"  the test process did not finish within {limit:.0f} s (the code under test wedged it); killed")
        return 1
    print(f"[run.py] {cid} build={bt:.1f}s total={time.time()-t0:.1f}s rc={rc}")
    if rc == 0 and not saw_violation and saw_summary:
        return 0
    if rc == 1 and saw_violation:
        return 1
    if saw_violation:
        return 1
    print(f"HARNESS-ERROR: test binary exited {rc} without a verdict")
    return 2


def main():
    if len(sys.argv) >= 2 and sys.argv[1] == "--build-all":
        rc = 0
        for cid in CHECKS:
            hdir = os.path.join(VERIF, "harness", CHECKS[cid]["pkg"].replace("/", "__"))
            if not glob.glob(os.path.join(hdir, cid.lower() + "_*.go")):
                continue
            if CHECKS[cid].get("pkgs"):
                bt = 0
                for i, pkg in enumerate(CHECKS[cid]["pkgs"]):
                    _, b1 = build(cid, suffix=f"-{i}", pkg=pkg)
                    bt += b1
            else:
                _, bt = build(cid)
            for j, sp in enumerate(CHECKS[cid].get("sweep") or []):
                _, b1 = build(cid, race=True, suffix=f"-sweep{j}", pkg=sp)
                bt += b1
            print(f"built {cid} in {bt:.1f}s")
        sys.exit(rc)
    if len(sys.argv) < 3:
        print(__doc__)
        sys.exit(2)
    cid = sys.argv[1]
    if cid not in CHECKS:
        print("unknown check", cid)
        sys.exit(2)
    if sys.argv[2] == "--replay":
        sys.exit(run_check(cid, os.environ.get("VERIF_TIER", "quick"), replay=sys.argv[3]))
    tier = sys.argv[2]
    if tier not in ("quick", "thorough"):
        print(__doc__)
        sys.exit(2)
    sys.exit(run_check(cid, tier))


if __name__ == "__main__":
    main()
