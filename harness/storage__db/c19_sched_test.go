//go:build verif && cgo && verifsched

package db

import (
	"encoding/json"
	"fmt"

	mc "golang.org/x/perf/internal/verifmc"
)

// ---- C19: the query word parser under every map iteration order ----
//
// Only part of the build in which storage/db and storage/query have been
// rewritten by /verif/instr: every range over a map iterates
// verifmc.MapKeys(m), whose order the explorer decides.

func init() { c19SchedOnly = c19MapOrders }

type c19mCase struct {
	Word    string
	Choices []int
}

func c19MapOrders(c *mc.Check) {
	replay := func(raw json.RawMessage) string {
		var cs c19mCase
		if err := json.Unmarshal(raw, &cs); err != nil {
			return err.Error()
		}
		var msg string
		x := mc.Explore1(cs.Choices, 1<<16, func() { msg = c19wCheck(cs.Word) })
		if x.Failure != "" {
			return x.Failure
		}
		return msg
	}
	maxLen := mc.Pick(c, 5, 6)
	f := c.Family("query-words-x-map-orders", fmt.Sprintf("storage/db and storage/query rewritten mechanically so that every range over a map asks the explorer for the order of the keys; every word of ≤%d symbols from %q parsed under EVERY order in which the maps the parser consults may be iterated (depth-first over the explorer's decisions, unbounded): the same oracle as query-word-operators on every execution; on a tree whose parser iterates no map each word has exactly one execution; non-trivial = executions that deviate from the default order", maxLen, c19wSymbols), replay)
	if c.Replaying() {
		return
	}
	en := mc.NewStrings(c19wSymbols, maxLen)
	var sym []int
	var buf []byte
	maxPoints := 0
	var execs, decisions int64
	for i := uint64(0); i < en.Total(); i++ {
		if i%4096 == 0 && c.TimeUp() {
			f.Capped(fmt.Sprintf("time cap: %d of %d words", i, en.Total()))
			break
		}
		sym, buf = en.Render(i, sym, buf)
		w := string(buf)
		var msg string
		e := &mc.Explorer{Bound: 1 << 20, Horizon: 1 << 16, Stop: c.TimeUp,
			Body:  func() { msg = c19wCheck(w) },
			Check: func(x *mc.Execution) string { return msg },
			OnFail: func(ch []int, x *mc.Execution, m string) {
				c.Fail(f, "query-word", c19mCase{w, ch}, m)
			}}
		e.Run()
		f.Count(e.Executions, e.Executions-e.ByCost[0])
		execs += e.Executions
		decisions += e.Decisions
		if e.MaxPoints > maxPoints {
			maxPoints = e.MaxPoints
		}
	}
	if decisions > 0 {
		f.SpaceStats(execs, decisions, maxPoints, true)
	}
	// on a tree whose parser iterates no map there is nothing to decide: one execution per word
	f.Set("executions", execs)
	f.Set("map_order_decisions", decisions)
	f.Set("max_decisions_per_execution", maxPoints)
	f.Sample(c19mCase{"at>10:00", nil})
	f.Done()
}
