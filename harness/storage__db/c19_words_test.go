//go:build verif && cgo

package db

import (
	"encoding/json"
	"fmt"
	"os"
	"strings"
	"testing"
	"unicode"

	mc "golang.org/x/perf/internal/verifmc"
)

// ---- C19 (query words): key:value, key<value, key>value mean what they say ----
//
// A word splits at its LEFTMOST operator character; whatever follows — further
// operator characters included — is the value. This file checks the word
// parser and the merging of several terms on one key against a reference
// written from that rule; the companion file (instrumented build) repeats it
// under every order in which Go may iterate the maps the parser uses.

var c19wSymbols = []string{"k", "a", "1", ":", "<", ">", " ", "K", "-"}

// refWord is the reference: ok=false means the word must be rejected.
func refWord(w string) (key string, op byte, value string, ok bool) {
	for i, r := range w {
		switch {
		case r == ':' || r == '<' || r == '>':
			return w[:i], byte(r), w[i+1:], true
		case unicode.IsSpace(r) || unicode.IsUpper(r):
			return "", 0, "", false // not a key character
		}
	}
	return "", 0, "", false // no operator
}

func opByte(o operation) byte {
	switch o {
	case equals:
		return ':'
	case lt:
		return '<'
	case gt:
		return '>'
	}
	return '?'
}

func c19wCheck(w string) string {
	p, err := parseWord(w)
	key, op, val, ok := refWord(w)
	if !ok {
		if err == nil {
			return fmt.Sprintf("word %q accepted as %+v; it has no operator after a valid key", w, p)
		}
		return ""
	}
	if err != nil {
		return fmt.Sprintf("word %q rejected (%v); it is key %q %c value %q", w, err, key, op, val)
	}
	if p.key != key || opByte(p.operator) != op || p.value != val || p.value2 != "" {
		return fmt.Sprintf("word %q parsed as key %q %c value %q (second value %q); it is key %q %c value %q: a word splits at its leftmost operator character", w, p.key, opByte(p.operator), p.value, p.value2, key, op, val)
	}
	return ""
}

func c19wReplay(raw json.RawMessage) string {
	var w string
	if err := json.Unmarshal(raw, &w); err != nil {
		return err.Error()
	}
	var msg string
	if p := mc.Catch(func() { msg = c19wCheck(w) }); p != "" {
		return p
	}
	return msg
}

func c19Words(c *mc.Check, maxLen int) {
	f := c.Family("query-word-operators", fmt.Sprintf("every word of ≤%d symbols from %q given to the query word parser: it is rejected exactly when no operator character follows a key of valid characters, and otherwise splits at its LEFTMOST operator character — later ':', '<', '>' belong to the value (at>10:00, url:a>b); non-trivial = words with ≥2 operator characters", maxLen, c19wSymbols), c19wReplay)
	if c.Replaying() {
		return
	}
	en := mc.NewStrings(c19wSymbols, maxLen)
	done := mc.ParRange(en.Total(), 1024, c.TimeUp, func(w int, lo, hi uint64) {
		l := f.Local()
		var sym []int
		var buf []byte
		for i := lo; i < hi; i++ {
			sym, buf = en.Render(i, sym, buf)
			s := string(buf)
			var msg string
			if p := mc.Catch(func() { msg = c19wCheck(s) }); p != "" {
				msg = p
			}
			l.Evals++
			if strings.Count(s, ":")+strings.Count(s, "<")+strings.Count(s, ">") >= 2 {
				l.Nontrivial++
				l.Outcome("several operator characters")
			} else {
				l.Outcome("at most one operator character")
			}
			if msg != "" {
				c.Fail(f, "query-word", s, msg)
			}
		}
		l.Flush()
	})
	if done < en.Total() {
		f.Capped(fmt.Sprintf("time cap: %d of %d", done, en.Total()))
	}
	f.Sample("at>10:00")
	f.Done()
}

// c19SchedOnly is set by the file that is only part of the instrumented build.
var c19SchedOnly func(c *mc.Check)

func TestVerifC19(t *testing.T) {
	c := mc.NewCheck("C19")
	if os.Getenv("VERIF_MAPORDER") != "" {
		if c19SchedOnly == nil {
			fmt.Println("HARNESS-ERROR: the map-order binary was built without its harness file")
			os.Exit(2)
		}
		c19SchedOnly(c)
	} else {
		c19Words(c, mc.Pick(c, 6, 7))
	}
	if code := c.Finish(); code != 0 {
		os.Exit(code)
	}
}
