//go:build verif && cgo

package db

import (
	"context"
	"database/sql"
	"database/sql/driver"
	"encoding/json"
	"fmt"
	"os"
	"path/filepath"
	"regexp"
	"runtime"
	"sort"
	"strconv"
	"strings"
	"sync"
	"sync/atomic"
	"testing"
	"time"

	sqlite3 "github.com/mattn/go-sqlite3"
	mc "golang.org/x/perf/internal/verifmc"
	"golang.org/x/perf/storage/benchfmt"
)

// ---- C20 (database part): upload IDs and commit/abort visibility ----
//
// This file lives in package db (it needs the clock seam `now`), so it cannot
// import storage/db/sqlite3 (import cycle); it installs the same
// foreign-keys connect hook on its own driver instances instead. The server
// part of C20 (storage/app) runs on the repository's sqlite3 package.

func fkHook(c *sqlite3.SQLiteConn) error {
	_, err := c.Exec("PRAGMA foreign_keys = ON;", nil)
	return err
}

func init() {
	sql.Register("verifsqlite", &sqlite3.SQLiteDriver{ConnectHook: fkHook})
	sql.Register("verifsqlitesched", &schedDriver{&sqlite3.SQLiteDriver{ConnectHook: fkHook}})
}

// ---- clock seam: one clock per goroutine (BFS workers run in parallel) ----

var clocks sync.Map // goroutine id -> *time.Time
var sharedClock atomic.Pointer[time.Time]

func gid() uint64 {
	var b [64]byte
	n := runtime.Stack(b[:], false)
	s := string(b[len("goroutine "):n])
	id, _ := strconv.ParseUint(s[:strings.IndexByte(s, ' ')], 10, 64)
	return id
}

func init() {
	now = func() time.Time {
		if t := sharedClock.Load(); t != nil {
			return *t
		}
		if t, ok := clocks.Load(gid()); ok {
			return *t.(*time.Time)
		}
		panic("verif: db.now called on a goroutine without a clock")
	}
}

var day0 = time.Date(2026, 10, 1, 15, 4, 5, 0, time.UTC)

func dayString(off int) string { return day0.AddDate(0, 0, off).Format("20060102") }

// ---- fresh databases ----

var scratchRoot = func() string {
	for _, d := range []string{"/dev/shm", os.TempDir()} {
		if dir, err := os.MkdirTemp(d, "verif-c20db-"); err == nil {
			return dir
		}
	}
	panic("no scratch directory")
}()

var dbSeq atomic.Int64

// openFresh creates an empty file-backed sqlite database the way OpenSQL does,
// on the plain or on the scheduling driver.
func openFresh(sched bool) (*DB, func()) {
	dir := filepath.Join(scratchRoot, fmt.Sprintf("d%d", dbSeq.Add(1)))
	os.MkdirAll(dir, 0o755)
	drv, timeout := "verifsqlite", "10000"
	if sched {
		// Under the controlled scheduler a wait inside sqlite's busy handler
		// could never end (the lock holder cannot run), so busy is reported
		// at once and the wait is modelled by the driver wrapper below.
		drv, timeout = "verifsqlitesched", "0"
	}
	dsn := "file:" + filepath.Join(dir, "db.sqlite") + "?_busy_timeout=" + timeout + "&_sync=0"
	if os.Getenv("VERIF_MEMDB") != "" {
		dsn = fmt.Sprintf("file:mem%d?mode=memory&cache=shared&_busy_timeout=%s", dbSeq.Load(), timeout)
	}
	sdb, err := sql.Open(drv, dsn)
	if err != nil {
		panic(err)
	}
	d := &DB{sql: sdb, driverName: "sqlite3"}
	if err := d.createTables("sqlite3"); err != nil {
		panic(err)
	}
	if err := d.prepareStatements("sqlite3"); err != nil {
		panic(err)
	}
	return d, func() {
		d.Close()
		os.RemoveAll(dir)
	}
}

var idRE = regexp.MustCompile(`^(\d{8})\.([1-9]\d*)$`)

func checkIDForm(id string) string {
	m := idRE.FindStringSubmatch(id)
	if m == nil {
		return fmt.Sprintf("upload ID %q is not of the form YYYYMMDD.N", id)
	}
	if _, err := time.Parse("20060102", m[1]); err != nil {
		return fmt.Sprintf("upload ID %q does not start with a date", id)
	}
	return ""
}

func idNum(id string) int {
	n, _ := strconv.Atoi(id[strings.IndexByte(id, '.')+1:])
	return n
}

// c20Result is the i-th result inserted into an upload: results 2j and 2j+1
// have the same labels and so share one record.
func c20Result(id string, i int) *benchfmt.Result {
	return &benchfmt.Result{
		Labels:     benchfmt.Labels{"upload": id, "k": fmt.Sprintf("r%d", i/2)},
		NameLabels: benchfmt.Labels{"name": "X"},
		Content:    fmt.Sprintf("BenchmarkX 1 %d ns/op", i+1),
	}
}

// observe returns what queries and listings can see: upload id -> (records listed, results found).
func observe(d *DB, ids []string) (listed map[string]int, found map[string]int, err error) {
	listed, found = map[string]int{}, map[string]int{}
	ul := d.ListUploads("", nil, 0)
	for ul.Next() {
		info := ul.Info()
		if _, dup := listed[info.UploadID]; dup {
			ul.Close()
			return nil, nil, fmt.Errorf("ListUploads returns upload %s twice", info.UploadID)
		}
		listed[info.UploadID] = info.Count
	}
	if e := ul.Err(); e != nil {
		ul.Close()
		return nil, nil, fmt.Errorf("ListUploads: %v", e)
	}
	ul.Close()
	for _, id := range ids {
		q := d.Query("upload:" + id)
		n := 0
		for q.Next() {
			n++
		}
		e := q.Err()
		q.Close()
		if e != nil {
			return nil, nil, fmt.Errorf("Query(upload:%s): %v", id, e)
		}
		found[id] = n
	}
	q := d.Query("name:X")
	n := 0
	for q.Next() {
		n++
	}
	e := q.Err()
	q.Close()
	if e != nil {
		return nil, nil, fmt.Errorf("Query(name:X): %v", e)
	}
	found["*"] = n
	return listed, found, nil
}

// ---- E2: explicit-state search over histories of the upload API ----

const (
	c20MaxUploads = 4
	c20MaxInserts = 3
)

type mUpload struct {
	ID      string
	Day     int    // day offset at creation
	State   string // open, committed, aborted
	Inserts int
}

type c20Model struct {
	Clock   int // day offset
	MaxDay  int
	News    int
	Replace int
	Ups     []*mUpload
}

// op numbering: 0..2 NewUpload at clock+{0,+1,-1} days; then per handle h:
// 3+4h insert, 4+4h commit, 5+4h abort, 6+4h replace (committed/aborted only).
const c20NOps = 3 + 4*c20MaxUploads

func c20OpName(op int) string {
	switch op {
	case 0:
		return "NewUpload"
	case 1:
		return "clock+1day;NewUpload"
	case 2:
		return "clock-1day;NewUpload"
	}
	h := (op - 3) / 4
	return []string{"InsertRecord", "Commit", "Abort", "ReplaceUpload+InsertRecord+Commit"}[(op-3)%4] + fmt.Sprintf("(u%d)", h)
}

// valid decides from the model alone whether op is inside the explored domain.
func (m *c20Model) valid(op int) bool {
	if op < 3 {
		return m.News < c20MaxUploads
	}
	h, k := (op-3)/4, (op-3)%4
	if h >= len(m.Ups) {
		return false
	}
	u := m.Ups[h]
	switch k {
	case 0:
		return u.State == "open" && u.Inserts < c20MaxInserts
	case 1, 2:
		return u.State == "open"
	}
	return u.State != "open" && m.Replace < 1
}

type c20Hist struct {
	Ops []int
}

// c20RunHist replays hist on a fresh database and checks the last step and the
// final observations. It returns the canonical key of the reached state.
func c20RunHist(hist []int) (key string, msg string, prune bool) {
	m := &c20Model{}
	// domain check first (no database needed)
	{
		mm := &c20Model{}
		for _, op := range hist {
			if !mm.valid(op) {
				return "", "", true
			}
			mm.applyShape(op)
		}
	}
	g := gid()
	clk := day0
	clocks.Store(g, &clk)
	defer clocks.Delete(g)
	d, release := pooledDB()
	clean := false
	defer func() { release(clean) }()
	key, msg, prune = c20RunHistOn(d, m, &clk, hist)
	clean = msg == "" && !prune
	return
}

// Databases are reused between histories of the breadth-first search: after a
// history that ended cleanly (every transaction finished) all rows are
// deleted, which leaves the same observable state as a new file; after a
// failed or pruned history the database is thrown away. Replays always get a
// new file.
var dbPool struct {
	sync.Mutex
	free []*pooledEntry
}

func pooledDB() (*DB, func(clean bool)) {
	dbPool.Lock()
	if n := len(dbPool.free); n > 0 {
		pd := dbPool.free[n-1]
		dbPool.free = dbPool.free[:n-1]
		dbPool.Unlock()
		return pd.d, func(clean bool) { pd.release(clean) }
	}
	dbPool.Unlock()
	d, cleanup := openFresh(false)
	pd := &pooledEntry{d, cleanup}
	return d, func(clean bool) { pd.release(clean) }
}

type pooledEntry struct {
	d       *DB
	cleanup func()
}

func (pd *pooledEntry) release(clean bool) {
	if clean && os.Getenv("VERIF_REPLAY") == "" {
		ok := true
		for _, q := range []string{"DELETE FROM RecordLabels", "DELETE FROM Records", "DELETE FROM Uploads"} {
			if _, err := pd.d.sql.Exec(q); err != nil {
				ok = false
			}
		}
		if ok {
			dbPool.Lock()
			dbPool.free = append(dbPool.free, pd)
			dbPool.Unlock()
			return
		}
	}
	pd.cleanup()
}

func c20RunHistOn(d *DB, m *c20Model, clkp *time.Time, hist []int) (key string, msg string, prune bool) {
	handles := []*Upload{}
	issued := map[string]bool{}
	// Whatever way this history ends (verdict, pruned, violation): uploads still open are ended here, so that
	// their transactions give their connections (and file descriptors) back before the database is released.
	defer func() {
		for i, u := range m.Ups {
			if u.State == "open" && i < len(handles) {
				handles[i].Abort()
			}
		}
	}()
	for i, op := range hist {
		last := i == len(hist)-1
		switch {
		case op < 3:
			m.News++
			m.Clock += []int{0, 1, -1}[op]
			*clkp = day0.AddDate(0, 0, m.Clock)
			backwards := m.Clock < m.MaxDay
			u, err := d.NewUpload(context.Background())
			if err != nil {
				if !backwards {
					return "", fmt.Sprintf("NewUpload failed although the clock never went backwards: %v", err), false
				}
				// the clock went back to a day that is not the latest in the table; a refusal reuses nothing
				continue
			}
			if e := checkIDForm(u.ID); e != "" {
				return "", e, false
			}
			if issued[u.ID] {
				return "", fmt.Sprintf("NewUpload returned %s, which an earlier NewUpload of this history already returned", u.ID), false
			}
			for _, o := range m.Ups {
				if o.ID[:8] == u.ID[:8] && idNum(o.ID) >= idNum(u.ID) {
					return "", fmt.Sprintf("NewUpload returned %s after %s had been created on the same day", u.ID, o.ID), false
				}
			}
			if last && u.ID[:8] != dayString(m.Clock) && !backwards {
				return "", fmt.Sprintf("NewUpload on %s returned %s", dayString(m.Clock), u.ID), false
			}
			issued[u.ID] = true
			if m.Clock > m.MaxDay {
				m.MaxDay = m.Clock
			}
			m.Ups = append(m.Ups, &mUpload{ID: u.ID, Day: m.Clock, State: "open"})
			handles = append(handles, u)
		default:
			h, k := (op-3)/4, (op-3)%4
			if h >= len(m.Ups) {
				// a NewUpload of the history was refused, so the handle does not exist
				return "", "", true
			}
			mu := m.Ups[h]
			switch k {
			case 0:
				if mu.State != "open" {
					return "", "", true
				}
				if err := handles[h].InsertRecord(c20Result(mu.ID, mu.Inserts)); err != nil {
					return "", fmt.Sprintf("InsertRecord on %s: %v", mu.ID, err), false
				}
				mu.Inserts++
			case 1:
				if mu.State != "open" {
					return "", "", true
				}
				if err := handles[h].Commit(); err != nil {
					return "", fmt.Sprintf("Commit of %s: %v", mu.ID, err), false
				}
				mu.State = "committed"
			case 2:
				if mu.State != "open" {
					return "", "", true
				}
				if err := handles[h].Abort(); err != nil {
					return "", fmt.Sprintf("Abort of %s: %v", mu.ID, err), false
				}
				mu.State = "aborted"
				mu.Inserts = 0
			case 3:
				if mu.State == "open" {
					return "", "", true
				}
				m.Replace++
				u, err := d.ReplaceUpload(mu.ID)
				if err != nil {
					return "", fmt.Sprintf("ReplaceUpload(%s): %v", mu.ID, err), false
				}
				if err := u.InsertRecord(c20Result(mu.ID, 100)); err != nil {
					return "", fmt.Sprintf("InsertRecord on replaced %s: %v", mu.ID, err), false
				}
				if err := u.Commit(); err != nil {
					return "", fmt.Sprintf("Commit of replaced %s: %v", mu.ID, err), false
				}
				mu.State = "committed"
				mu.Inserts = 1
			}
		}
	}
	// what can be queried: exactly the committed uploads, completely
	var ids []string
	for _, u := range m.Ups {
		ids = append(ids, u.ID)
	}
	listed, found, err := observe(d, ids)
	if err != nil {
		return "", err.Error(), false
	}
	total := 0
	for _, u := range m.Ups {
		wantRes, wantRec := 0, 0
		if u.State == "committed" {
			wantRes, wantRec = u.Inserts, (u.Inserts+1)/2
		}
		total += wantRes
		if found[u.ID] != wantRes {
			return "", fmt.Sprintf("upload %s (%s, %d results inserted): Query(upload:%s) returns %d results, want %d", u.ID, u.State, u.Inserts, u.ID, found[u.ID], wantRes), false
		}
		if got, ok := listed[u.ID]; (wantRec > 0) != ok || got != wantRec {
			return "", fmt.Sprintf("upload %s (%s, %d results in %d records): ListUploads reports %d records (listed=%v)", u.ID, u.State, u.Inserts, wantRec, got, ok), false
		}
		delete(listed, u.ID)
	}
	if len(listed) > 0 {
		return "", fmt.Sprintf("ListUploads lists uploads no NewUpload returned: %v", listed), false
	}
	if found["*"] != total {
		return "", fmt.Sprintf("Query(name:X) returns %d results, the committed uploads hold %d", found["*"], total), false
	}
	// canonical state: model + the real tables + the handles' private state
	var b strings.Builder
	fmt.Fprintf(&b, "clock=%d max=%d news=%d repl=%d\n", m.Clock, m.MaxDay, m.News, m.Replace)
	for i, u := range m.Ups {
		fmt.Fprintf(&b, "u%d %s %s %d", i, u.ID, u.State, u.Inserts)
		if u.State == "open" {
			hd := handles[i]
			fmt.Fprintf(&b, " rid=%d pr=%d pl=%d", hd.recordid, len(hd.insertRecordArgs), len(hd.insertLabelArgs))
		}
		b.WriteByte('\n')
	}
	b.WriteString(dumpTables(d))
	return b.String(), "", false
}

// applyShape advances only the fields valid() looks at, assuming every
// NewUpload succeeds (a refused one is detected during the real replay).
func (m *c20Model) applyShape(op int) {
	if op < 3 {
		m.News++
		m.Ups = append(m.Ups, &mUpload{State: "open"})
		return
	}
	u := m.Ups[(op-3)/4]
	switch (op - 3) % 4 {
	case 0:
		u.Inserts++
	case 1:
		u.State = "committed"
	case 2:
		u.State = "aborted"
	case 3:
		m.Replace++
		u.State = "committed"
	}
}

func dumpTables(d *DB) string {
	var b strings.Builder
	for _, q := range []string{
		"SELECT UploadID, Day, Seq FROM Uploads ORDER BY UploadID",
		"SELECT UploadID, RecordID, Content FROM Records ORDER BY UploadID, RecordID",
		"SELECT UploadID, RecordID, Name, Value FROM RecordLabels ORDER BY UploadID, RecordID, Name",
	} {
		rows, err := d.sql.Query(q)
		if err != nil {
			panic(err)
		}
		cols, _ := rows.Columns()
		for rows.Next() {
			vals := make([]sql.NullString, len(cols))
			ptrs := make([]any, len(cols))
			for i := range vals {
				ptrs[i] = &vals[i]
			}
			if err := rows.Scan(ptrs...); err != nil {
				panic(err)
			}
			for _, v := range vals {
				fmt.Fprintf(&b, "%q|", v.String)
			}
			b.WriteByte('\n')
		}
		rows.Close()
		b.WriteString("--\n")
	}
	return b.String()
}

func c20HistString(hist []int) string {
	var s []string
	for _, op := range hist {
		s = append(s, c20OpName(op))
	}
	return strings.Join(s, " → ")
}

func c20ReplayHist(raw json.RawMessage) string {
	var h c20Hist
	if err := json.Unmarshal(raw, &h); err != nil {
		return err.Error()
	}
	var msg string
	if p := mc.Catch(func() { _, msg, _ = c20RunHist(h.Ops) }); p != "" {
		return p
	}
	return msg
}

func c20Histories(c *mc.Check) {
	f := c.Family("id-histories", "breadth-first search over histories of the real storage/db API on a fresh file-backed sqlite database per history: NewUpload at the current clock, after the clock advanced a day, or after it went BACK a day (clock seam db.now), and per upload handle InsertRecord / Commit / Abort / ReplaceUpload+InsertRecord+Commit, with up to 4 uploads (any number of them open at once) and up to 3 results per upload; states are de-duplicated on the dump of all three tables plus the handles' private counters. Checked on every transition: a returned ID has the form YYYYMMDD.N with a real date, was never returned before in the history, and its N exceeds every N created earlier on that day; NewUpload only fails when the clock went backwards; and after every history ListUploads lists exactly the committed uploads with their record counts while Query(upload:ID) returns all results of a committed upload and none of an open or aborted one", c20ReplayHist)
	if c.Replaying() {
		return
	}
	depth := mc.Pick(c, 6, 14)
	f.Bounds["max_depth"] = depth
	f.Bounds["max_uploads"] = c20MaxUploads
	f.Bounds["max_results_per_upload"] = c20MaxInserts
	f.Bounds["operations"] = c20NOps
	sp := &mc.Space{
		NOps: c20NOps, MaxDepth: depth, Stop: c.TimeUp,
		Step: func(w int, hist []int) (string, string, bool) {
			var key, msg string
			var prune bool
			if p := mc.Catch(func() { key, msg, prune = c20RunHist(hist) }); p != "" {
				msg = p
			}
			return key, msg, prune
		},
		OnFail: func(hist []int, msg string) {
			sig := "history"
			if strings.Contains(msg, "NewUpload returned") {
				sig = "id-reuse-or-order"
			}
			c.Fail(f, sig, c20Hist{append([]int{}, hist...)}, c20HistString(hist)+": "+msg)
		},
	}
	sp.Run()
	f.SpaceStats(sp.States, sp.Transitions, sp.Depth, sp.Fixpoint)
	f.Count(sp.Transitions, sp.States)
	f.Outcome("new-state", sp.States)
	f.Outcome("merged-or-outside-domain", sp.Transitions-sp.States)
	if sp.Capped != "" {
		f.Capped(sp.Capped)
	}
	f.Sample(c20Hist{[]int{0, 3, 4, 1, 2}})
	f.Sample(c20Hist{[]int{0, 0, 5, 0, 11, 12}})
	f.Done()
}

// ---- long ladders and uploads that flush before they end ----

type c20Ladder struct {
	Kind string // ladder, large
	N    int
	End  string
}

func c20RunLadder(lc c20Ladder) string {
	g := gid()
	clk := day0
	clocks.Store(g, &clk)
	defer clocks.Delete(g)
	d, cleanup := openFresh(false)
	defer cleanup()
	if lc.Kind == "large" {
		return c20RunLarge(d, lc)
	}
	// lc.N uploads on each of three consecutive days, ended in rotation by
	// commit (1 result), abort, commit without results; then the clock goes back a day.
	type up struct {
		id      string
		results int
	}
	var all []up
	byDay := map[string]int{}
	newUp := func(expectOK bool) (string, *Upload) {
		u, err := d.NewUpload(context.Background())
		if err != nil {
			if expectOK {
				return fmt.Sprintf("NewUpload number %d failed although the clock never went backwards: %v", len(all)+1, err), nil
			}
			return "", nil
		}
		if e := checkIDForm(u.ID); e != "" {
			return e, nil
		}
		for _, o := range all {
			if o.id == u.ID {
				return fmt.Sprintf("NewUpload number %d returned %s again", len(all)+1, u.ID), nil
			}
		}
		if idNum(u.ID) <= byDay[u.ID[:8]] {
			return fmt.Sprintf("NewUpload returned %s after %s.%d had been created", u.ID, u.ID[:8], byDay[u.ID[:8]]), nil
		}
		byDay[u.ID[:8]] = idNum(u.ID)
		return "", u
	}
	for day := 0; day < 3; day++ {
		clk = day0.AddDate(0, 0, day)
		for i := 0; i < lc.N; i++ {
			msg, u := newUp(true)
			if msg != "" {
				return msg
			}
			if u.ID[:8] != dayString(day) {
				return fmt.Sprintf("NewUpload on %s returned %s", dayString(day), u.ID)
			}
			n := 0
			switch i % 3 {
			case 0:
				u.InsertRecord(c20Result(u.ID, 0))
				n = 1
				if err := u.Commit(); err != nil {
					return fmt.Sprintf("Commit of %s: %v", u.ID, err)
				}
			case 1:
				u.InsertRecord(c20Result(u.ID, 0))
				u.Abort()
			case 2:
				if err := u.Commit(); err != nil {
					return fmt.Sprintf("Commit of %s: %v", u.ID, err)
				}
			}
			all = append(all, up{u.ID, n})
		}
	}
	clk = day0.AddDate(0, 0, 1)
	if msg, u := newUp(false); msg != "" {
		return "after the clock went back a day: " + msg
	} else if u != nil {
		u.Abort()
		all = append(all, up{u.ID, 0})
	}
	var ids []string
	for _, u := range all {
		ids = append(ids, u.id)
	}
	listed, found, err := observe(d, ids)
	if err != nil {
		return err.Error()
	}
	for _, u := range all {
		if found[u.id] != u.results {
			return fmt.Sprintf("upload %s: Query returns %d results, want %d", u.id, found[u.id], u.results)
		}
		if got, ok := listed[u.id]; ok != (u.results > 0) || got != u.results {
			return fmt.Sprintf("upload %s with %d records: ListUploads reports %d (listed=%v)", u.id, u.results, got, ok)
		}
	}
	return ""
}

// c20RunLarge: an upload of N results with distinct labels (12 statement
// arguments each, so InsertRecord flushes to the database every ~82 results),
// ended by commit or abort, after one small committed upload.
func c20RunLarge(d *DB, lc c20Ladder) string {
	u0, err := d.NewUpload(context.Background())
	if err != nil {
		return err.Error()
	}
	u0.InsertRecord(c20Result(u0.ID, 0))
	if err := u0.Commit(); err != nil {
		return err.Error()
	}
	u, err := d.NewUpload(context.Background())
	if err != nil {
		return err.Error()
	}
	for i := 0; i < lc.N; i++ {
		if err := u.InsertRecord(c20Result(u.ID, 2*i)); err != nil {
			return fmt.Sprintf("InsertRecord %d: %v", i, err)
		}
	}
	check := func(when string, want int) string {
		listed, found, err := observe(d, []string{u0.ID, u.ID})
		if err != nil {
			return when + ": " + err.Error()
		}
		if found[u0.ID] != 1 || listed[u0.ID] != 1 {
			return fmt.Sprintf("%s: the earlier upload %s shows %d results in %d records", when, u0.ID, found[u0.ID], listed[u0.ID])
		}
		if found[u.ID] != want || listed[u.ID] != want {
			return fmt.Sprintf("%s: upload %s of %d results shows %d results in %d listed records, want %d", when, u.ID, lc.N, found[u.ID], listed[u.ID], want)
		}
		return ""
	}
	if m := check("while the upload is open", 0); m != "" {
		return m
	}
	want := 0
	if lc.End == "commit" {
		if err := u.Commit(); err != nil {
			return fmt.Sprintf("Commit: %v", err)
		}
		want = lc.N
	} else {
		if err := u.Abort(); err != nil {
			return fmt.Sprintf("Abort: %v", err)
		}
	}
	if m := check("after "+lc.End, want); m != "" {
		return m
	}
	u2, err := d.NewUpload(context.Background())
	if err != nil {
		return fmt.Sprintf("NewUpload after the large upload's %s: %v", lc.End, err)
	}
	defer u2.Abort()
	if u2.ID == u.ID || u2.ID == u0.ID || u2.ID[:8] == u.ID[:8] && idNum(u2.ID) <= idNum(u.ID) {
		return fmt.Sprintf("NewUpload after %s returned %s", u.ID, u2.ID)
	}
	return ""
}

func c20ReplayLadder(raw json.RawMessage) string {
	var lc c20Ladder
	if err := json.Unmarshal(raw, &lc); err != nil {
		return err.Error()
	}
	var msg string
	if p := mc.Catch(func() { msg = c20RunLadder(lc) }); p != "" {
		return p
	}
	return msg
}

func c20Ladders(c *mc.Check) {
	f := c.Family("id-ladders-and-flushing-uploads", "beyond the breadth-first bounds, on the real storage/db API: (a) N uploads on each of three consecutive days for every N in 1..130 (quick: 1..40, 100, 101), so that N passes 9→10 and 99→100, ended in rotation by commit / abort / commit-without-results, then one NewUpload after the clock went back a day: every ID well-formed, never seen before, larger than every earlier N of its day, NewUpload never refused while the clock is monotone, and exactly the committed results queryable and listed; (b) an upload of n results for every n in 1..200 (quick: 75..95 and 160..170) — InsertRecord flushes to the database every 82 results — ended by commit and by abort after one earlier committed upload: while it is open nothing of it is queryable, after abort nothing, after commit everything, the earlier upload untouched, and a following NewUpload gets a fresh larger ID", c20ReplayLadder)
	if c.Replaying() {
		return
	}
	var cases []c20Ladder
	for n := 1; n <= 130; n++ {
		if c.Thorough() || n <= 40 || n >= 100 && n <= 101 {
			cases = append(cases, c20Ladder{Kind: "ladder", N: n})
		}
	}
	for n := 1; n <= 200; n++ {
		if c.Thorough() || n >= 75 && n <= 95 || n >= 160 && n <= 170 {
			for _, end := range []string{"commit", "abort"} {
				cases = append(cases, c20Ladder{Kind: "large", N: n, End: end})
			}
		}
	}
	done := mc.ParRange(uint64(len(cases)), 1, c.TimeUp, func(w int, lo, hi uint64) {
		l := f.Local()
		for i := lo; i < hi; i++ {
			lc := cases[i]
			var msg string
			if p := mc.Catch(func() { msg = c20RunLadder(lc) }); p != "" {
				msg = p
			}
			l.Evals++
			l.Nontrivial++
			l.Outcome(lc.Kind + lc.End)
			if msg != "" {
				c.Fail(f, lc.Kind, lc, fmt.Sprintf("%+v: %s", lc, msg))
			}
		}
		l.Flush()
	})
	if done < uint64(len(cases)) {
		f.Capped(fmt.Sprintf("time cap: %d of %d cases", done, len(cases)))
	}
	f.Sample(c20Ladder{Kind: "ladder", N: 12})
	f.Sample(c20Ladder{Kind: "large", N: 90, End: "abort"})
	f.Done()
}

// ---- E3: statement interleavings of concurrent uploads ----

// The scheduling driver wraps go-sqlite3: every statement execution, cursor
// step, BEGIN, COMMIT and ROLLBACK is a scheduling point, and SQLITE_BUSY is a
// modelled wait: the caller is blocked until some other goroutine has
// completed a database call, then retries (what sqlite's busy handler does);
// when every unfinished worker is waiting the wait times out and the error is
// returned to the code under test.

type schedDriver struct{ inner *sqlite3.SQLiteDriver }

func (d *schedDriver) Open(dsn string) (driver.Conn, error) {
	c, err := d.inner.Open(dsn)
	if err != nil {
		return nil, err
	}
	return &schedConn{c.(*sqlite3.SQLiteConn)}, nil
}

var (
	dbEpoch   int
	dbWaiting int
	dbLive    int
	dbBusy    int // busy results seen in this execution
	dbTimeout int
)

const dbMaxRetry = 3

func isBusy(err error) bool {
	if e, ok := err.(sqlite3.Error); ok {
		return e.Code == sqlite3.ErrBusy || e.Code == sqlite3.ErrLocked
	}
	return false
}

func dbOp(op string, fn func() error) error {
	if !mc.Exploring() {
		return fn()
	}
	mc.Yield(op)
	for try := 0; ; try++ {
		err := fn()
		dbEpoch++
		if !isBusy(err) {
			return err
		}
		dbBusy++
		if try >= dbMaxRetry {
			dbTimeout++
			return err
		}
		e0 := dbEpoch
		dbWaiting++
		mc.Block(op+" (busy wait)", func() bool { return dbEpoch != e0 || dbWaiting >= dbLive })
		dbWaiting--
		if dbEpoch == e0 {
			dbTimeout++
			return err // everybody waits: the busy timeout expires
		}
	}
}

type schedConn struct{ c *sqlite3.SQLiteConn }

func (c *schedConn) Prepare(q string) (driver.Stmt, error) {
	return c.PrepareContext(context.Background(), q)
}
func (c *schedConn) PrepareContext(ctx context.Context, q string) (driver.Stmt, error) {
	st, err := c.c.PrepareContext(ctx, q)
	if err != nil {
		return nil, err
	}
	return &schedStmt{st.(*sqlite3.SQLiteStmt), q}, nil
}
func (c *schedConn) Close() error { return c.c.Close() }
func (c *schedConn) Begin() (driver.Tx, error) {
	return c.BeginTx(context.Background(), driver.TxOptions{})
}
func (c *schedConn) BeginTx(ctx context.Context, o driver.TxOptions) (driver.Tx, error) {
	var tx driver.Tx
	err := dbOp("BEGIN", func() (e error) { tx, e = c.c.BeginTx(ctx, o); return })
	if err != nil {
		return nil, err
	}
	return &schedTx{tx, c.c}, nil
}
func (c *schedConn) ExecContext(ctx context.Context, q string, a []driver.NamedValue) (driver.Result, error) {
	var r driver.Result
	err := dbOp(opName(q), func() (e error) { r, e = c.c.ExecContext(ctx, q, a); return })
	return r, err
}
func (c *schedConn) QueryContext(ctx context.Context, q string, a []driver.NamedValue) (driver.Rows, error) {
	r, err := c.c.QueryContext(ctx, q, a)
	if err != nil {
		return nil, err
	}
	return &schedRows{r, opName(q)}, nil
}

func opName(q string) string {
	f := strings.Fields(q)
	if len(f) > 3 {
		f = f[:3]
	}
	return strings.Join(f, " ")
}

type schedStmt struct {
	s *sqlite3.SQLiteStmt
	q string
}

func (s *schedStmt) Close() error  { return s.s.Close() }
func (s *schedStmt) NumInput() int { return s.s.NumInput() }
func (s *schedStmt) Exec(a []driver.Value) (driver.Result, error) {
	var r driver.Result
	err := dbOp(opName(s.q), func() (e error) { r, e = s.s.Exec(a); return })
	return r, err
}
func (s *schedStmt) Query(a []driver.Value) (driver.Rows, error) {
	r, err := s.s.Query(a)
	if err != nil {
		return nil, err
	}
	return &schedRows{r, opName(s.q)}, nil
}
func (s *schedStmt) ExecContext(ctx context.Context, a []driver.NamedValue) (driver.Result, error) {
	var r driver.Result
	err := dbOp(opName(s.q), func() (e error) { r, e = s.s.ExecContext(ctx, a); return })
	return r, err
}
func (s *schedStmt) QueryContext(ctx context.Context, a []driver.NamedValue) (driver.Rows, error) {
	r, err := s.s.QueryContext(ctx, a)
	if err != nil {
		return nil, err
	}
	return &schedRows{r, opName(s.q)}, nil
}

type schedRows struct {
	r  driver.Rows
	op string
}

func (r *schedRows) Columns() []string { return r.r.Columns() }
func (r *schedRows) Close() error      { return r.r.Close() }
func (r *schedRows) Next(dest []driver.Value) error {
	return dbOp("step "+r.op, func() error { return r.r.Next(dest) })
}

type schedTx struct {
	tx driver.Tx
	c  *sqlite3.SQLiteConn
}

// Commit is go-sqlite3's SQLiteTx.Commit with the busy wait inside: COMMIT is
// retried while busy, and when the wait times out the transaction is rolled
// back, exactly as the driver does after a busy COMMIT.
func (t *schedTx) Commit() error {
	if !mc.Exploring() {
		return t.tx.Commit()
	}
	err := dbOp("COMMIT", func() error { _, e := t.c.ExecContext(context.Background(), "COMMIT", nil); return e })
	if isBusy(err) {
		t.c.ExecContext(context.Background(), "ROLLBACK", nil)
		dbEpoch++
	}
	return err
}
func (t *schedTx) Rollback() error { return dbOp("ROLLBACK", t.tx.Rollback) }

// ---- scenarios ----

type c20Scenario struct {
	Name    string
	Pre     int        // committed uploads (one result each) before the workers start
	Workers [][]string // per worker: new, ins, commit, abort, peek
}

var c20Scenarios = []c20Scenario{
	{"2 uploaders (new, insert, commit) on an empty database", 0, [][]string{{"new", "ins", "commit"}, {"new", "ins", "commit"}}},
	{"uploader + creator of two uploads after one earlier upload", 1, [][]string{{"new", "ins", "ins", "commit"}, {"new", "abort", "new"}}},
	{"uploader (3 results) + reader peeking twice after one earlier upload", 1, [][]string{{"new", "ins", "ins", "ins", "commit"}, {"peek", "peek"}}},
	{"3 creators after one earlier upload", 1, [][]string{{"new", "abort"}, {"new", "abort"}, {"new", "ins", "commit"}}},
}

type c20Call struct {
	Worker    int
	Call, Ret int // logical clock at invocation and return
	ID        string
	Err       string
}

type c20Up struct {
	ID        string
	Inserts   int
	Committed bool
	Done      bool // commit or abort returned
	CommitErr string
}

type c20Exec struct {
	Calls []c20Call
	Ups   []*c20Up
	Peeks []map[string]int // each peek: upload id -> results seen by one query
	Msg   string           // violation found while running
	Final string
}

// c20Body runs one scenario once (under the scheduler or free-running).
func c20Body(sc c20Scenario, sched bool, x *c20Exec) {
	clk := day0
	sharedClock.Store(&clk)
	defer sharedClock.Store(nil)
	dbEpoch, dbWaiting, dbLive, dbBusy, dbTimeout = 0, 0, 0, 0, 0
	d, cleanup := openFresh(sched)
	defer cleanup()
	var mu sync.Mutex // free-running runs only; under the scheduler one goroutine runs at a time
	lock := func() {
		if !sched {
			mu.Lock()
		}
	}
	unlock := func() {
		if !sched {
			mu.Unlock()
		}
	}
	tick := 0
	var pre []string
	for i := 0; i < sc.Pre; i++ {
		u, err := d.NewUpload(context.Background())
		if err != nil {
			panic(err)
		}
		u.InsertRecord(c20Result(u.ID, 0))
		if err := u.Commit(); err != nil {
			panic(err)
		}
		pre = append(pre, u.ID)
		x.Ups = append(x.Ups, &c20Up{ID: u.ID, Inserts: 1, Committed: true, Done: true})
	}
	worker := func(w int, script []string) {
		var cur *Upload
		var rec *c20Up
		for _, op := range script {
			switch op {
			case "new":
				lock()
				tick++
				call := tick
				unlock()
				u, err := d.NewUpload(context.Background())
				lock()
				tick++
				cl := c20Call{Worker: w, Call: call, Ret: tick}
				if err != nil {
					cl.Err = err.Error()
					cur, rec = nil, nil
				} else {
					cl.ID = u.ID
					cur, rec = u, &c20Up{ID: u.ID}
					x.Ups = append(x.Ups, rec)
				}
				x.Calls = append(x.Calls, cl)
				unlock()
			case "ins":
				if cur != nil {
					if err := cur.InsertRecord(c20Result(rec.ID, rec.Inserts)); err != nil {
						panic(err)
					}
					lock()
					rec.Inserts++
					unlock()
				}
			case "commit":
				if cur != nil {
					err := cur.Commit()
					lock()
					if err != nil {
						// the caller's duty after a failed Commit
						rec.CommitErr = err.Error()
						unlock()
						cur.Abort()
						lock()
					} else {
						rec.Committed = true
					}
					rec.Done = true
					unlock()
					cur = nil
				}
			case "abort":
				if cur != nil {
					cur.Abort()
					lock()
					rec.Done = true
					unlock()
					cur = nil
				}
			case "peek":
				seen := map[string]int{}
				q := d.Query("name:X")
				for q.Next() {
					seen[q.Result().Labels["upload"]]++
				}
				err := q.Err()
				q.Close()
				if err == nil {
					lock()
					x.Peeks = append(x.Peeks, seen)
					unlock()
				}
			}
		}
		if cur != nil {
			cur.Abort()
			lock()
			rec.Done = true
			unlock()
		}
	}
	if sched {
		var wg mc.WaitGroup
		dbLive = len(sc.Workers)
		for w, script := range sc.Workers {
			w, script := w, script
			wg.Add(1)
			mc.Go(func() {
				defer func() { dbLive--; dbEpoch++; wg.Done() }()
				worker(w, script)
			})
		}
		wg.Wait()
	} else {
		var wg sync.WaitGroup
		for w, script := range sc.Workers {
			w, script := w, script
			wg.Add(1)
			go func() { defer wg.Done(); worker(w, script) }()
		}
		wg.Wait()
	}
	x.Msg = c20CheckExec(d, pre, x)
}

// c20CheckExec checks one finished execution.
func c20CheckExec(d *DB, pre []string, x *c20Exec) string {
	seen := map[string]bool{}
	for _, id := range pre {
		seen[id] = true
	}
	maxPre := 0
	for _, id := range pre {
		if n := idNum(id); n > maxPre {
			maxPre = n
		}
	}
	for _, cl := range x.Calls {
		if cl.Err != "" {
			continue
		}
		if e := checkIDForm(cl.ID); e != "" {
			return e
		}
		if seen[cl.ID] {
			return fmt.Sprintf("the ID %s was handed out twice (calls: %+v)", cl.ID, x.Calls)
		}
		seen[cl.ID] = true
		if idNum(cl.ID) <= maxPre {
			return fmt.Sprintf("the ID %s does not follow the earlier upload %v", cl.ID, pre)
		}
	}
	for _, a := range x.Calls {
		for _, b := range x.Calls {
			if a.Err == "" && b.Err == "" && a.Ret < b.Call && idNum(a.ID) >= idNum(b.ID) {
				return fmt.Sprintf("NewUpload returned %s before the call that returned %s was made (calls: %+v)", a.ID, b.ID, x.Calls)
			}
		}
	}
	var ids []string
	for _, u := range x.Ups {
		ids = append(ids, u.ID)
	}
	listed, found, err := observe(d, ids)
	if err != nil {
		return "after the workers finished: " + err.Error()
	}
	var fin []string
	for _, u := range x.Ups {
		wantRes, wantRec := 0, 0
		if u.Committed {
			wantRes, wantRec = u.Inserts, (u.Inserts+1)/2
		}
		if found[u.ID] != wantRes {
			return fmt.Sprintf("upload %s (committed=%v commitErr=%q, %d results inserted): Query(upload:%s) returns %d results", u.ID, u.Committed, u.CommitErr, u.Inserts, u.ID, found[u.ID])
		}
		if got, ok := listed[u.ID]; (wantRec > 0) != ok || got != wantRec {
			return fmt.Sprintf("upload %s (committed=%v, %d records): ListUploads reports %d (listed=%v)", u.ID, u.Committed, wantRec, got, ok)
		}
		delete(listed, u.ID)
		fin = append(fin, fmt.Sprintf("%s:%v:%d", u.ID, u.Committed, u.Inserts))
	}
	if len(listed) > 0 {
		return fmt.Sprintf("ListUploads lists uploads nobody was given: %v", listed)
	}
	// a concurrent reader sees each upload completely or not at all
	byID := map[string]*c20Up{}
	for _, u := range x.Ups {
		byID[u.ID] = u
	}
	for _, p := range x.Peeks {
		for id, n := range p {
			u := byID[id]
			if u == nil || !u.Committed || n != u.Inserts {
				return fmt.Sprintf("a concurrent query saw %d results of upload %s, which in the end was %+v", n, id, u)
			}
		}
	}
	sort.Strings(fin)
	x.Final = strings.Join(fin, " ")
	return ""
}

type c20SchedCase struct {
	Scenario int
	Choices  []int
}

func c20ReplaySched(raw json.RawMessage) string {
	var sc c20SchedCase
	if err := json.Unmarshal(raw, &sc); err != nil {
		return err.Error()
	}
	var x c20Exec
	ex := mc.Explore1(sc.Choices, 100000, func() { x = c20Exec{}; c20Body(c20Scenarios[sc.Scenario], true, &x) })
	if ex.Failure != "" {
		return ex.Failure
	}
	return x.Msg
}

func c20Interleavings(c *mc.Check) {
	f := c.Family("statement-interleavings", "the real NewUpload / InsertRecord / Commit / Abort / Query code run by 2–3 goroutines on one shared file-backed sqlite database under the controlled scheduler: every BEGIN, statement execution, cursor step, COMMIT and ROLLBACK issued through database/sql is a scheduling point (driver wrapper around go-sqlite3), SQLITE_BUSY is a modelled wait with retry and timeout; deviation-bounded depth-first search over all schedules. Checked on every execution: IDs handed out are well-formed, pairwise distinct, larger than the earlier upload's, and a NewUpload that returned before another was called has the smaller N; after the workers finish exactly the uploads whose Commit returned nil are listed and queryable, completely; a concurrent query sees each upload completely or not at all; no deadlock", c20ReplaySched)
	if c.Replaying() {
		return
	}
	bound := mc.Pick(c, 2, 5)
	f.Bounds["preemption_bound"] = bound
	f.Bounds["busy_retries"] = dbMaxRetry
	outcomes := map[string]bool{}
	var maxPoints int
	for si, sc := range c20Scenarios {
		// replay determinism of the root schedule
		var x1, x2 c20Exec
		e1 := mc.Explore1(nil, 100000, func() { x1 = c20Exec{}; c20Body(sc, true, &x1) })
		e2 := mc.Explore1(nil, 100000, func() { x2 = c20Exec{}; c20Body(sc, true, &x2) })
		if len(e1.Points) != len(e2.Points) || x1.Final != x2.Final || e1.Failure != e2.Failure {
			fmt.Printf("HARNESS-ERROR: the default schedule of scenario %q does not replay deterministically (%d vs %d decisions, %q vs %q)\n", sc.Name, len(e1.Points), len(e2.Points), x1.Final, x2.Final)
			os.Exit(2)
		}
		b := bound
		if len(sc.Workers) > 2 {
			b = mc.Pick(c, 1, 3)
		}
		var x c20Exec
		busy, timeouts, failedNew := int64(0), int64(0), int64(0)
		e := &mc.Explorer{Bound: b, Horizon: 100000, Stop: c.TimeUp,
			Body: func() { x = c20Exec{}; c20Body(sc, true, &x) },
			Check: func(ex *mc.Execution) string {
				if dbBusy > 0 {
					busy++
				}
				if dbTimeout > 0 {
					timeouts++
				}
				for _, cl := range x.Calls {
					if cl.Err != "" {
						failedNew++
						break
					}
				}
				outcomes[fmt.Sprintf("%d/%s", si, x.Final)] = true
				return x.Msg
			},
			OnFail: func(ch []int, ex *mc.Execution, msg string) {
				sig := "schedule"
				if strings.Contains(msg, "deadlock") {
					sig = "deadlock"
				}
				c.Fail(f, sig, c20SchedCase{si, ch}, fmt.Sprintf("scenario %q: %s", sc.Name, msg))
			}}
		e.Run()
		f.Count(e.Executions, e.Executions-e.ByCost[0])
		f.Outcome("executions-with-busy-wait", busy)
		f.Outcome("executions-with-busy-timeout", timeouts)
		f.Outcome("executions-with-refused-NewUpload", failedNew)
		for cost, n := range e.ByCost {
			f.Outcome(fmt.Sprintf("preemptions=%d", cost), n)
		}
		if e.MaxPoints > maxPoints {
			maxPoints = e.MaxPoints
		}
		f.SpaceStats(e.Executions, e.Decisions, e.MaxPoints, false)
		f.Bounds[fmt.Sprintf("scenario_%d", si)] = fmt.Sprintf("%s: bound %d, %d executions", sc.Name, b, e.Executions)
		if e.Capped {
			f.Capped(fmt.Sprintf("time cap in scenario %q", sc.Name))
			break
		}
	}
	f.Set("distinct_final_outcomes", len(outcomes))
	f.Set("max_decisions_per_execution", maxPoints)
	f.Sample(c20SchedCase{0, []int{0, 1}})
	f.Done()
}

// c20FreeRunning is the complementary pass: the same scenario bodies on real
// goroutines with sqlite's own busy handler, built with -race (the controlled
// scheduler's hand-offs are happens-before edges that would blind the
// detector). The oracle of the controlled pass is applied to every run.
func c20FreeRunning(c *mc.Check) {
	f := c.Family("free-running-race", "the scenario bodies of statement-interleavings on real goroutines (sqlite busy timeout 10 s) in a binary built with -race, each scenario repeated; the run fails on any data race report and on any violation of the same oracle; this pass is a sample, not an enumeration, and is only the race detector's vehicle", nil)
	runs := mc.Pick(c, 20, 100)
	f.Bounds["runs_per_scenario"] = runs
	for si, sc := range c20Scenarios {
		for r := 0; r < runs && !c.TimeUp(); r++ {
			var x c20Exec
			var msg string
			if p := mc.Catch(func() { c20Body(sc, false, &x); msg = x.Msg }); p != "" {
				msg = p
			}
			f.Count(1, 1)
			f.Outcome(fmt.Sprintf("%d/%s", si, x.Final), 1)
			if msg != "" {
				c.Fail(f, "free-running", c20SchedCase{si, nil}, fmt.Sprintf("scenario %q (free-running): %s", sc.Name, msg))
			}
		}
	}
	f.Capped("sampled schedules: this family only carries the race detector")
	f.Done()
}

func TestVerifC20(t *testing.T) {
	c := mc.NewCheck("C20")
	if os.Getenv("VERIF_RACE") != "" {
		c20FreeRunning(c)
		os.RemoveAll(scratchRoot)
		if code := c.Finish(); code != 0 {
			os.Exit(code)
		}
		return
	}
	c.Assume("sqlite (rollback-journal mode) is the database; interleavings are explored at the granularity of calls into the database driver, which is where sqlite takes and releases its locks; Go-level data races are outside this pass")
	c20Histories(c)
	c20Ladders(c)
	c20Interleavings(c)
	for _, pd := range dbPool.free {
		pd.cleanup()
	}
	os.RemoveAll(scratchRoot)
	if code := c.Finish(); code != 0 {
		os.Exit(code)
	}
}
