//go:build verif

package app

import (
	"encoding/json"
	"fmt"
	"os"
	"strings"
	"testing"

	mc "golang.org/x/perf/internal/verifmc"
	"golang.org/x/perf/storage/query"
)

// ---- C19 (front end): a label value quoted by the query builder is split back into the original word ----

func c19CheckQuote(s string) string {
	q := addToQuery("", s)
	words := query.SplitWords(q)
	if len(words) == 0 || words[0] != s {
		return fmt.Sprintf("addToQuery(\"\", %q) = %q, which splits into %q; the first word is not the original", s, q, words)
	}
	// appended to an existing query with a pipe, the word is still first
	q2 := addToQuery("k:v | x:y", s)
	if w2 := query.SplitWords(q2); len(w2) == 0 || w2[0] != s {
		return fmt.Sprintf("addToQuery(\"k:v | x:y\", %q) = %q, which splits into %q", s, q2, w2)
	}
	return ""
}

func TestVerifC19(t *testing.T) {
	c := mc.NewCheck("C19")
	syms := []string{"a", ":", " ", "\t", "\"", "\\", "b", "\u00a0", "\f"}
	maxLen := mc.Pick(c, 6, 7)
	replay := func(raw json.RawMessage) string {
		var s string
		json.Unmarshal(raw, &s)
		return c19CheckQuote(s)
	}
	f := c.Family("query-builder-quoting", fmt.Sprintf("every non-empty string of ≤%d symbols from %q as a label filter: SplitWords(addToQuery(q, s))[0] == s, for an empty and a non-empty existing query; non-trivial = strings that need quoting", maxLen, syms), replay)
	if !c.Replaying() {
		en := mc.NewStrings(syms, maxLen)
		mc.ParRange(en.Total(), 4096, c.TimeUp, func(w int, lo, hi uint64) {
			l := f.Local()
			var sym []int
			var buf []byte
			for i := max(lo, 1); i < hi; i++ {
				sym, buf = en.Render(i, sym, buf)
				s := string(buf)
				msg := ""
				if p := mc.Catch(func() { msg = c19CheckQuote(s) }); p != "" {
					msg = p
				}
				l.Evals++
				if strings.ContainsAny(s, " \t\"\\") {
					l.Nontrivial++
					l.Outcome("quoted")
				} else {
					l.Outcome("bare")
				}
				if msg != "" {
					c.Fail(f, "quote-roundtrip", s, msg)
				}
			}
			l.Flush()
		})
		f.Sample(`k:a "b\`)
		f.Done()
	}
	if code := c.Finish(); code != 0 {
		os.Exit(code)
	}
}
