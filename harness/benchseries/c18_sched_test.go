//go:build verif && verifsched

package benchseries

import (
	"encoding/json"
	"fmt"
	"os"
	"strconv"

	mc "golang.org/x/perf/internal/verifmc"
)

// ---- C18: every order in which Go may deliver the keys of a map ----
//
// This file is only part of the build in which benchseries has been rewritten
// by /verif/instr: every `for k, v := range m` over a map iterates
// verifmc.MapKeys(m), whose order the explorer decides.

func init() { c18SchedOnly = c18MapOrders }

type c18MapCase struct {
	Pool    int // 0: c18Pool[:9], 1: c18Pool2, 2: c18Pool3
	Dupe    int
	Choices []int
}

// c18Pool3: ONE benchmark feeds the series point, measured by an experiment with a baseline and by a later one
// without: nothing else can settle the point's baseline hash.
var c18Pool3 = []c18Res{
	{"B", t1, "baseline", "h2", s2, map[string]float64{"u1": 20}},
	{"B", t1, "experiment", "h2", s2, map[string]float64{"u1": 21}},
	{"B", t2, "experiment", "h2", s2, map[string]float64{"u1": 22}},
	{"A", t1, "experiment", "h1", s1, map[string]float64{"u1": 11}},
}

const t3 = "2020-03-01T00:00:00Z"

// c18Pool4: three experiments on one point; the middle one has no baseline; a second hash on the same benchmark.
var c18Pool4 = []c18Res{
	{"B", t1, "baseline", "h2", s2, map[string]float64{"u1": 20}},
	{"B", t1, "experiment", "h2", s2, map[string]float64{"u1": 21}},
	{"B", t2, "experiment", "h2", s2, map[string]float64{"u1": 22}},
	{"B", t3, "baseline", "h2", s2, map[string]float64{"u1": 30}},
	{"B", t3, "experiment", "h2", s2, map[string]float64{"u1": 33}},
	{"B", t2, "experiment", "h1", s1, map[string]float64{"u1": 12}},
}

// c18Pool5: two benchmarks, each measured with a baseline by the earlier experiment and without by the later one.
var c18Pool5 = []c18Res{
	{"A", t1, "baseline", "h1", s1, map[string]float64{"u1": 10}},
	{"A", t1, "experiment", "h1", s1, map[string]float64{"u1": 11}},
	{"A", t2, "experiment", "h1", s1, map[string]float64{"u1": 12}},
	{"B", t1, "baseline", "h1", s1, map[string]float64{"u1": 20}},
	{"B", t1, "experiment", "h1", s1, map[string]float64{"u1": 21}},
	{"B", t2, "experiment", "h1", s1, map[string]float64{"u1": 22}},
}

// c18Pool6: one benchmark measured in FOUR units: four comparison series are returned, in an order that must not
// depend on how the table map is walked.
var c18Pool6 = []c18Res{
	{"A", t1, "baseline", "h1", s1, map[string]float64{"u1": 10, "u2": 20, "u3": 30, "u4": 40}},
	{"A", t1, "experiment", "h1", s1, map[string]float64{"u1": 11, "u2": 22, "u3": 33, "u4": 44}},
}

func c18MapPool(i int) []c18Res {
	switch i {
	case 5:
		return c18Pool6
	case 0:
		return c18Pool[:9]
	case 1:
		return c18Pool2
	case 2:
		return c18Pool3
	case 3:
		return c18Pool4
	}
	return c18Pool5
}

func c18MapBody(pool []c18Res, dupe int) (canon, raw string) {
	b, err := NewBuilder(quietOptions())
	if err != nil {
		panic(err)
	}
	for _, r := range pool {
		b.Add(r.result())
	}
	canon, raw, err = c18Ask(b, dupe)
	if err != nil {
		panic(err)
	}
	// and once more on the same builder
	_, raw2, err := c18Ask(b, dupe)
	if err != nil {
		panic(err)
	}
	return canon, raw + "--- asked again ---\n" + raw2
}

func c18MapOrders(c *mc.Check) {
	replay := func(raw json.RawMessage) string {
		var cs c18MapCase
		json.Unmarshal(raw, &cs)
		pool := c18MapPool(cs.Pool)
		var def, got string
		mc.Explore1(nil, 1<<20, func() { _, def = c18MapBody(pool, cs.Dupe) })
		x := mc.Explore1(cs.Choices, 1<<20, func() { _, got = c18MapBody(pool, cs.Dupe) })
		if x.Failure != "" {
			return x.Failure
		}
		if got != def {
			return fmt.Sprintf("map keys delivered in the order %v give\n%s\nthe default order gives\n%s", cs.Choices, got, def)
		}
		return ""
	}
	f := c.Family("map-iteration-orders", "benchseries rewritten mechanically so that every range over a map asks the explorer for the order of the keys: six pools (one benchmark in four units — the ORDER of the returned series is compared too; 9 results incl. a later experiment without a baseline; 10 results with multi-sample cells, a point measured twice and two hashes sharing a baseline; 4 results in which a single benchmark feeds a point measured with and, later, without a baseline; three experiments on one point, the middle one without a baseline; two benchmarks each measured with a baseline first and without later) × {replace, combine}: one Builder filled in a fixed order and asked twice; deviation-bounded depth-first search over ALL orders in which the maps (tables, trials, tests per trial, residues, key sets) may be iterated, a deviation being any pick other than the first remaining key. Every execution's answers (samples, dates, hash pairs, bootstrap summaries) must equal the default order's, and match the set-semantics reference; non-trivial = executions with ≥1 deviation", replay)
	if c.Replaying() {
		return
	}
	shard, _ := strconv.Atoi(os.Getenv("VERIF_SHARD"))
	nshards, _ := strconv.Atoi(os.Getenv("VERIF_NSHARDS"))
	if nshards == 0 {
		nshards = 1
	}
	bound := mc.Pick(c, 4, 8)
	f.Bounds["deviation_bound"] = bound
	f.Bounds["shard"] = fmt.Sprintf("%d/%d", shard, nshards)
	maxPoints := 0
	for pi := 0; pi < 6; pi++ {
		pool := c18MapPool(pi)
		for _, dupe := range []int{DUPE_REPLACE, DUPE_COMBINE} {
			want := refSeries(pool, dupe)
			var canon0, def string
			x1 := mc.Explore1(nil, 1<<20, func() { canon0, def = c18MapBody(pool, dupe) })
			var def2 string
			x2 := mc.Explore1(nil, 1<<20, func() { _, def2 = c18MapBody(pool, dupe) })
			if x1.Failure != "" {
				// the code under test fails already under the default order
				c.Fail(f, "map-order", c18MapCase{pi, dupe, nil}, fmt.Sprintf("pool %d policy %d, default map order: %s", pi, dupe, x1.Failure))
				continue
			}
			if len(x1.Points) != len(x2.Points) || def != def2 {
				fmt.Printf("HARNESS-ERROR: the default map order of pool %d policy %d does not replay deterministically (%d vs %d decisions) %s\n", pi, dupe, len(x1.Points), len(x2.Points), x1.Failure)
				os.Exit(2)
			}
			if shard == 0 && maskMixed(canon0, want) != want {
				c.Fail(f, "reference", c18MapCase{pi, dupe, nil}, fmt.Sprintf("pool %d policy %d, default map order:\n%s\nexpected (set semantics):\n%s", pi, dupe, canon0, want))
			}
			var got string
			e := &mc.Explorer{Bound: bound, Horizon: 1 << 20, Shard: shard, NShards: nshards, Stop: c.TimeUp,
				Body: func() { _, got = c18MapBody(pool, dupe) },
				Check: func(x *mc.Execution) string {
					if got != def {
						return fmt.Sprintf("this order of map keys gives\n%s\nthe default order gives\n%s", got, def)
					}
					return ""
				},
				OnFail: func(ch []int, x *mc.Execution, msg string) {
					sig := "map-order"
					c.Fail(f, sig, c18MapCase{pi, dupe, ch}, fmt.Sprintf("pool %d policy %d: %s", pi, dupe, msg))
				}}
			e.Run()
			f.Count(e.Executions, e.Executions-e.ByCost[0])
			for cost, n := range e.ByCost {
				f.Outcome(fmt.Sprintf("deviations=%d", cost), n)
			}
			if e.MaxPoints > maxPoints {
				maxPoints = e.MaxPoints
			}
			f.SpaceStats(e.Executions, e.Decisions, e.MaxPoints, false)
			if e.Capped {
				f.Capped(fmt.Sprintf("time cap in pool %d policy %d", pi, dupe))
			}
		}
	}
	f.Set("max_decisions_per_execution", maxPoints)
	f.Sample(c18MapCase{1, 1, []int{0, 1}})
	f.Done()
}
