//go:build verif

package benchseries

import (
	"encoding/json"
	"fmt"
	"sort"
	"strings"

	"golang.org/x/perf/benchfmt"
	mc "golang.org/x/perf/internal/verifmc"
)

// ---- C18: several tables (a Table option naming a configuration key) ----
//
// With a Table option, results that agree in unit, benchmark, experiment and
// role but differ in the table key belong to different comparison series.
// The set-semantics reference is the one-table reference applied to each
// table's results separately.

type c18TRes struct {
	Tab string
	R   c18Res
}

var c18TablePool = []c18TRes{
	{"a", c18Res{"A", t1, "baseline", "h1", s1, map[string]float64{"u1": 10}}},
	{"a", c18Res{"A", t1, "experiment", "h1", s1, map[string]float64{"u1": 11}}},
	{"b", c18Res{"A", t1, "baseline", "h1", s1, map[string]float64{"u1": 20}}},
	{"b", c18Res{"A", t1, "experiment", "h1", s1, map[string]float64{"u1": 21}}},
	{"a", c18Res{"B", t1, "experiment", "h1", s1, map[string]float64{"u1": 31}}},
	{"b", c18Res{"B", t1, "baseline", "h1", s1, map[string]float64{"u1": 40}}},
	{"b", c18Res{"A", t1, "experiment", "h1", s1, map[string]float64{"u1": 22}}},
	{"a", c18Res{"B", t2, "experiment", "h2", s2, map[string]float64{"u1": 33}}},
}

func (r c18TRes) result() *benchfmt.Result {
	rd := benchfmt.NewReader(strings.NewReader("goos: "+r.Tab+"\n"+r.R.lines()), "pool")
	for rd.Scan() {
		if res, ok := rd.Result().(*benchfmt.Result); ok {
			return res.Clone()
		}
	}
	panic("no result")
}

func tableOptions() *BuilderOptions {
	o := quietOptions()
	o.Table = "goos"
	return o
}

// refSeriesTables applies the one-table reference per table value and names
// each block "<unit> <table value>", as AllComparisonSeries does.
func refSeriesTables(pool []c18TRes, dupe int) string {
	byTab := map[string][]c18Res{}
	for _, r := range pool {
		byTab[r.Tab] = append(byTab[r.Tab], r.R)
	}
	blocks := map[string]string{}
	for tab, sub := range byTab {
		cur := ""
		for _, line := range strings.SplitAfter(refSeries(sub, dupe), "\n") {
			if strings.HasPrefix(line, "unit \"") {
				rest := line[len("unit \""):]
				i := strings.IndexByte(rest, '"')
				cur = rest[:i] + " " + tab
				line = "unit \"" + cur + "\"" + rest[i+1:]
			}
			blocks[cur] += line
		}
	}
	var names []string
	for n := range blocks {
		names = append(names, n)
	}
	sort.Strings(names)
	var b strings.Builder
	for _, n := range names {
		b.WriteString(blocks[n])
	}
	return b.String()
}

// maskMixedBlocks applies maskMixed to each series (a block starting with a "unit" line) separately: whether a
// series mixes trials with and without a baseline is a property of that table alone.
func maskMixedBlocks(dump, ref string) string {
	split := func(s string) []string {
		var out []string
		for _, line := range strings.SplitAfter(s, "\n") {
			if strings.HasPrefix(line, "unit \"") || len(out) == 0 {
				out = append(out, "")
			}
			out[len(out)-1] += line
		}
		return out
	}
	db, rb := split(dump), split(ref)
	if len(db) != len(rb) {
		return dump
	}
	var b strings.Builder
	for i := range db {
		b.WriteString(maskMixed(db[i], rb[i]))
	}
	return b.String()
}

func c18BuildTables(pool []c18TRes, order []int, dupe int) (string, error) {
	b, err := NewBuilder(tableOptions())
	if err != nil {
		return "", err
	}
	for _, i := range order {
		b.Add(pool[i].result())
	}
	css, err := b.AllComparisonSeries(nil, dupe)
	if err != nil {
		return "", err
	}
	return dumpSeries(css), nil
}

type c18TCase struct {
	N     int
	Order []int
	Dupe  int
}

func c18Tables(c *mc.Check, n int) {
	pool := c18TablePool[:n]
	replay := func(raw json.RawMessage) string {
		var cs c18TCase
		json.Unmarshal(raw, &cs)
		p := c18TablePool[:cs.N]
		got, err := c18BuildTables(p, cs.Order, cs.Dupe)
		if err != nil {
			return err.Error()
		}
		if want := refSeriesTables(p, cs.Dupe); maskMixedBlocks(got, want) != want {
			return fmt.Sprintf("order %v policy %d:\n%s\nexpected (set semantics per table):\n%s", cs.Order, cs.Dupe, got, want)
		}
		return ""
	}
	f := c.Family("table-keys-x-insertion-orders", fmt.Sprintf("Table option \"goos\"; a pool of %d results over two table values a/b that agree in unit, benchmark, experiment and role across the tables (so only the table key tells them apart), a second sample in one cell, a benchmark present in one table only, a later experiment in one table: every one of the %d! insertion orders into a fresh Builder × {replace, combine}: the canonical dump of AllComparisonSeries equals the set-semantics reference applied to each table's results separately; non-trivial = non-identity orders", n, n), replay)
	if c.Replaying() {
		return
	}
	refs := map[int]string{DUPE_REPLACE: refSeriesTables(pool, DUPE_REPLACE), DUPE_COMBINE: refSeriesTables(pool, DUPE_COMBINE)}
	var orders [][]int
	mc.Permutations(n, func(perm []int) bool {
		orders = append(orders, append([]int{}, perm...))
		return true
	})
	done := mc.ParRange(uint64(len(orders)), 32, c.TimeUp, func(w int, lo, hi uint64) {
		l := f.Local()
		for i := lo; i < hi; i++ {
			for _, dupe := range []int{DUPE_REPLACE, DUPE_COMBINE} {
				var got string
				var err error
				if p := mc.Catch(func() { got, err = c18BuildTables(pool, orders[i], dupe) }); p != "" {
					got = p
				}
				l.Evals++
				if i > 0 {
					l.Nontrivial++
				}
				want := refs[dupe]
				if err != nil || maskMixedBlocks(got, want) != want {
					l.Outcome("differs")
					c.Fail(f, "table-insertion-order", c18TCase{n, orders[i], dupe}, fmt.Sprintf("order %v policy %d (err %v):\n%s\nexpected (set semantics per table):\n%s", orders[i], dupe, err, got, want))
				} else {
					l.Outcome("equals the reference")
				}
			}
		}
		l.Flush()
	})
	if done < uint64(len(orders)) {
		f.Capped(fmt.Sprintf("time cap: %d of %d orders", done, len(orders)))
	}
	f.Sample(c18TCase{n, []int{1, 3, 0, 2}, DUPE_REPLACE})
	f.Done()
}

// ---- experiment stamps in different spellings ----
//
// "The latest experiment wins" is about instants, not about the text of the
// stamps: the compact form sorts after every RFC 3339 stamp as a string, and
// stamps with different zone offsets do not sort chronologically either.

var c18StampPools = [][]c18Res{
	{ // older experiment written compactly, later one in RFC 3339
		{"A", "20200101T000000", "baseline", "h1", s1, map[string]float64{"u1": 10}},
		{"A", "20200101T000000", "experiment", "h1", s1, map[string]float64{"u1": 11}},
		{"A", "2020-02-01T00:00:00Z", "baseline", "h1", s1, map[string]float64{"u1": 20}},
		{"A", "2020-02-01T00:00:00Z", "experiment", "h1", s1, map[string]float64{"u1": 21}},
		{"B", "2020-02-01T00:00:00Z", "experiment", "h1", s1, map[string]float64{"u1": 31}},
	},
	{ // zone offsets: 23:00-05:00 on the 9th is later than 01:00+00:00 on the 10th
		{"A", "2022-01-10T01:00:00+00:00", "baseline", "h1", s1, map[string]float64{"u1": 10}},
		{"A", "2022-01-10T01:00:00+00:00", "experiment", "h1", s1, map[string]float64{"u1": 11}},
		{"A", "2022-01-09T23:00:00-05:00", "baseline", "h1", s1, map[string]float64{"u1": 20}},
		{"A", "2022-01-09T23:00:00-05:00", "experiment", "h1", s1, map[string]float64{"u1": 21}},
		{"B", "2022-01-10T01:00:00+00:00", "experiment", "h1", s1, map[string]float64{"u1": 31}},
	},
	{ // fractional seconds against whole seconds, later one compact
		{"A", "2021-06-01T12:00:00.5Z", "baseline", "h1", s1, map[string]float64{"u1": 10}},
		{"A", "2021-06-01T12:00:00.5Z", "experiment", "h1", s1, map[string]float64{"u1": 11}},
		{"A", "20210601T120001", "baseline", "h1", s1, map[string]float64{"u1": 20}},
		{"A", "20210601T120001", "experiment", "h1", s1, map[string]float64{"u1": 21}},
		{"A", "2021-06-01T12:00:00Z", "experiment", "h1", s1, map[string]float64{"u1": 5}},
	},
}

type c18SCase struct {
	Pool  int
	Order []int
	Dupe  int
}

func c18Stamps(c *mc.Check) {
	check := func(cs c18SCase) string {
		p := c18StampPools[cs.Pool]
		got, err := c18Build(p, cs.Order, cs.Dupe)
		if err != nil {
			return err.Error()
		}
		if want := refSeries(p, cs.Dupe); maskMixed(got, want) != want {
			return fmt.Sprintf("pool %d order %v policy %d:\n%s\nexpected (set semantics, experiments ordered by instant):\n%s", cs.Pool, cs.Order, cs.Dupe, got, want)
		}
		return ""
	}
	replay := func(raw json.RawMessage) string {
		var cs c18SCase
		json.Unmarshal(raw, &cs)
		var msg string
		if p := mc.Catch(func() { msg = check(cs) }); p != "" {
			return p
		}
		return msg
	}
	f := c.Family("experiment-stamp-spellings", fmt.Sprintf("%d pools of 5 results in which one point is measured by two or three experiments whose stamps do not sort as strings the way they sort in time (compact form against RFC 3339, different zone offsets, fractional against whole seconds): every one of the 5! insertion orders × {replace, combine}: the canonical dump equals the set-semantics reference, in which the latest experiment BY INSTANT wins; non-trivial = every order", len(c18StampPools)), replay)
	if c.Replaying() {
		return
	}
	var cases []c18SCase
	for pi := range c18StampPools {
		mc.Permutations(5, func(perm []int) bool {
			for _, d := range []int{DUPE_REPLACE, DUPE_COMBINE} {
				cases = append(cases, c18SCase{pi, append([]int{}, perm...), d})
			}
			return true
		})
	}
	mc.ParRange(uint64(len(cases)), 16, c.TimeUp, func(w int, lo, hi uint64) {
		l := f.Local()
		for i := lo; i < hi; i++ {
			var msg string
			if p := mc.Catch(func() { msg = check(cases[i]) }); p != "" {
				msg = p
			}
			l.Evals++
			l.Nontrivial++
			if msg != "" {
				l.Outcome("differs")
				c.Fail(f, "stamp-spelling", cases[i], msg)
			} else {
				l.Outcome(fmt.Sprintf("policy-%d-same", cases[i].Dupe))
			}
		}
		l.Flush()
	})
	f.Sample(c18SCase{0, []int{2, 3, 0, 1, 4}, DUPE_REPLACE})
	f.Done()
}
