//go:build verif

package benchseries

import (
	"encoding/json"
	"fmt"
	"sort"
	"strings"

	"golang.org/x/perf/benchfmt"
	mc "golang.org/x/perf/internal/verifmc"
)

// ---- C18: several tables (a Table option naming a configuration key) ----
//
// With a Table option, results that agree in unit, benchmark, experiment and
// role but differ in the table key belong to different comparison series.
// The set-semantics reference is the one-table reference applied to each
// table's results separately.

type c18TRes struct {
	Tab string
	R   c18Res
}

var c18TablePool = []c18TRes{
	{"a", c18Res{"A", t1, "baseline", "h1", s1, map[string]float64{"u1": 10}}},
	{"a", c18Res{"A", t1, "experiment", "h1", s1, map[string]float64{"u1": 11}}},
	{"b", c18Res{"A", t1, "baseline", "h1", s1, map[string]float64{"u1": 20}}},
	{"b", c18Res{"A", t1, "experiment", "h1", s1, map[string]float64{"u1": 21}}},
	{"a", c18Res{"B", t1, "experiment", "h1", s1, map[string]float64{"u1": 31}}},
	{"b", c18Res{"B", t1, "baseline", "h1", s1, map[string]float64{"u1": 40}}},
	{"b", c18Res{"A", t1, "experiment", "h1", s1, map[string]float64{"u1": 22}}},
	{"a", c18Res{"B", t2, "experiment", "h2", s2, map[string]float64{"u1": 33}}},
}

func (r c18TRes) result() *benchfmt.Result {
	rd := benchfmt.NewReader(strings.NewReader("goos: "+r.Tab+"\n"+r.R.lines()), "pool")
	for rd.Scan() {
		if res, ok := rd.Result().(*benchfmt.Result); ok {
			return res.Clone()
		}
	}
	panic("no result")
}

func tableOptions() *BuilderOptions {
	o := quietOptions()
	o.Table = "goos"
	return o
}

// refSeriesTables applies the one-table reference per table value and names
// each block "<unit> <table value>", as AllComparisonSeries does.
func refSeriesTables(pool []c18TRes, dupe int) string {
	byTab := map[string][]c18Res{}
	for _, r := range pool {
		byTab[r.Tab] = append(byTab[r.Tab], r.R)
	}
	blocks := map[string]string{}
	for tab, sub := range byTab {
		cur := ""
		for _, line := range strings.SplitAfter(refSeries(sub, dupe), "\n") {
			if strings.HasPrefix(line, "unit \"") {
				rest := line[len("unit \""):]
				i := strings.IndexByte(rest, '"')
				cur = rest[:i] + " " + tab
				line = "unit \"" + cur + "\"" + rest[i+1:]
			}
			blocks[cur] += line
		}
	}
	var names []string
	for n := range blocks {
		names = append(names, n)
	}
	sort.Strings(names)
	var b strings.Builder
	for _, n := range names {
		b.WriteString(blocks[n])
	}
	return b.String()
}

// maskMixedBlocks applies maskMixed to each series (a block starting with a "unit" line) separately: whether a
// series mixes trials with and without a baseline is a property of that table alone.
func maskMixedBlocks(dump, ref string) string {
	split := func(s string) []string {
		var out []string
		for _, line := range strings.SplitAfter(s, "\n") {
			if strings.HasPrefix(line, "unit \"") || len(out) == 0 {
				out = append(out, "")
			}
			out[len(out)-1] += line
		}
		return out
	}
	db, rb := split(dump), split(ref)
	if len(db) != len(rb) {
		return dump
	}
	var b strings.Builder
	for i := range db {
		b.WriteString(maskMixed(db[i], rb[i]))
	}
	return b.String()
}

func c18BuildTables(pool []c18TRes, order []int, dupe int) (string, error) {
	b, err := NewBuilder(tableOptions())
	if err != nil {
		return "", err
	}
	for _, i := range order {
		b.Add(pool[i].result())
	}
	css, err := b.AllComparisonSeries(nil, dupe)
	if err != nil {
		return "", err
	}
	return dumpSeries(css), nil
}

type c18TCase struct {
	N     int
	Order []int
	Dupe  int
}

func c18Tables(c *mc.Check, n int) {
	pool := c18TablePool[:n]
	replay := func(raw json.RawMessage) string {
		var cs c18TCase
		json.Unmarshal(raw, &cs)
		p := c18TablePool[:cs.N]
		got, err := c18BuildTables(p, cs.Order, cs.Dupe)
		if err != nil {
			return err.Error()
		}
		if want := refSeriesTables(p, cs.Dupe); maskMixedBlocks(got, want) != want {
			return fmt.Sprintf("order %v policy %d:\n%s\nexpected (set semantics per table):\n%s", cs.Order, cs.Dupe, got, want)
		}
		return ""
	}
	f := c.Family("table-keys-x-insertion-orders", fmt.Sprintf("Table option \"goos\"; a pool of %d results over two table values a/b that agree in unit, benchmark, experiment and role across the tables (so only the table key tells them apart), a second sample in one cell, a benchmark present in one table only, a later experiment in one table: every one of the %d! insertion orders into a fresh Builder × {replace, combine}: the canonical dump of AllComparisonSeries equals the set-semantics reference applied to each table's results separately; non-trivial = non-identity orders", n, n), replay)
	if c.Replaying() {
		return
	}
	refs := map[int]string{DUPE_REPLACE: refSeriesTables(pool, DUPE_REPLACE), DUPE_COMBINE: refSeriesTables(pool, DUPE_COMBINE)}
	var orders [][]int
	mc.Permutations(n, func(perm []int) bool {
		orders = append(orders, append([]int{}, perm...))
		return true
	})
	done := mc.ParRange(uint64(len(orders)), 32, c.TimeUp, func(w int, lo, hi uint64) {
		l := f.Local()
		for i := lo; i < hi; i++ {
			for _, dupe := range []int{DUPE_REPLACE, DUPE_COMBINE} {
				var got string
				var err error
				if p := mc.Catch(func() { got, err = c18BuildTables(pool, orders[i], dupe) }); p != "" {
					got = p
				}
				l.Evals++
				if i > 0 {
					l.Nontrivial++
				}
				want := refs[dupe]
				if err != nil || maskMixedBlocks(got, want) != want {
					l.Outcome("differs")
					c.Fail(f, "table-insertion-order", c18TCase{n, orders[i], dupe}, fmt.Sprintf("order %v policy %d (err %v):\n%s\nexpected (set semantics per table):\n%s", orders[i], dupe, err, got, want))
				} else {
					l.Outcome("equals the reference")
				}
			}
		}
		l.Flush()
	})
	if done < uint64(len(orders)) {
		f.Capped(fmt.Sprintf("time cap: %d of %d orders", done, len(orders)))
	}
	f.Sample(c18TCase{n, []int{1, 3, 0, 2}, DUPE_REPLACE})
	f.Done()
}
