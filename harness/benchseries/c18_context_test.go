//go:build verif

package benchseries

import (
	"encoding/json"
	"fmt"
	"math"

	mc "golang.org/x/perf/internal/verifmc"
)

// ---- C18: a point's bootstrap summary depends on that point's samples alone ----
//
// One AddSummaries call walks every point of a series with one bootstrap
// closure. "Reproducible for given samples" means the summary of a point is
// the same whatever other points share the series: mirrored samples
// (numerator of one = denominator of the other), identical samples, samples
// with equal sums, points of another benchmark and of another series stamp.

type c18Cell struct {
	Bench, Stamp int // benchmark B<Bench>, series stamp s1/s2
	Num, Den     []float64
}

type c18Ctx struct {
	Cells []c18Cell
	Conf  float64
	N     int
}

// ctxSummaries builds one Builder holding the cells idx of the context and
// returns the (low, centre, high) of each.
func ctxSummaries(cx c18Ctx, idx []int) (map[int][3]float64, string) {
	b, err := NewBuilder(quietOptions())
	if err != nil {
		return nil, err.Error()
	}
	stamps := []string{s1, s2}
	hashes := []string{"h1", "h2"}
	exps := []string{t1, t2} // one experiment (run stamp) per series stamp: baseline samples are shared within an experiment
	for _, i := range idx {
		cell := cx.Cells[i]
		bench := fmt.Sprintf("B%d", cell.Bench)
		for _, v := range cell.Den {
			b.Add(c18Res{bench, exps[cell.Stamp], "baseline", hashes[cell.Stamp], stamps[cell.Stamp], map[string]float64{"u1": v}}.result())
		}
		for _, v := range cell.Num {
			b.Add(c18Res{bench, exps[cell.Stamp], "experiment", hashes[cell.Stamp], stamps[cell.Stamp], map[string]float64{"u1": v}}.result())
		}
	}
	css, err := b.AllComparisonSeries(nil, DUPE_REPLACE)
	if err != nil {
		return nil, err.Error()
	}
	if len(css) != 1 {
		return nil, fmt.Sprintf("%d comparison series, want 1", len(css))
	}
	cs := css[0]
	cs.AddSummaries(cx.Conf, cx.N)
	out := map[int][3]float64{}
	for _, i := range idx {
		cell := cx.Cells[i]
		sum, ok := cs.SummaryAt(fmt.Sprintf("B%d", cell.Bench), normDate(stamps[cell.Stamp]))
		if !ok || !sum.Present {
			return nil, fmt.Sprintf("point %d has no summary", i)
		}
		out[i] = [3]float64{sum.Low, sum.Center, sum.High}
	}
	return out, ""
}

func c18CheckCtx(cx c18Ctx) string {
	all := make([]int, len(cx.Cells))
	for i := range all {
		all[i] = i
	}
	got, msg := ctxSummaries(cx, all)
	if msg != "" {
		return msg
	}
	for i, cell := range cx.Cells {
		alone, msg := ctxSummaries(cx, []int{i})
		if msg != "" {
			return msg
		}
		for k := 0; k < 3; k++ {
			if math.Float64bits(got[i][k]) != math.Float64bits(alone[i][k]) {
				return fmt.Sprintf("point %d (%v / %v) of a series holding %+v: summary (low, centre, high) = %v, but %v when it is the only point of the series (confidence %v, %d resamples)", i, cell.Num, cell.Den, cx.Cells, got[i], alone[i], cx.Conf, cx.N)
			}
		}
		minR, maxR := math.Inf(1), math.Inf(-1)
		for _, n := range cell.Num {
			for _, d := range cell.Den {
				minR, maxR = math.Min(minR, n/d), math.Max(maxR, n/d)
			}
		}
		for _, v := range got[i] {
			if v < minR*(1-1e-12) || v > maxR*(1+1e-12) || math.IsNaN(v) {
				return fmt.Sprintf("point %d (%v / %v) of a series holding %+v: summary %v leaves the attainable ratios [%v,%v]", i, cell.Num, cell.Den, cx.Cells, got[i], minR, maxR)
			}
		}
	}
	return ""
}

func c18Context(c *mc.Check, maxSet int) {
	replay := func(raw json.RawMessage) string {
		var cx c18Ctx
		if err := json.Unmarshal(raw, &cx); err != nil {
			return err.Error()
		}
		var msg string
		if p := mc.Catch(func() { msg = c18CheckCtx(cx) }); p != "" {
			return p
		}
		return msg
	}
	vals := []float64{1, 2, 4}
	var sets [][]float64
	for n := 1; n <= maxSet; n++ {
		mc.Multisets(len(vals), n, func(m []int) {
			s := make([]float64, n)
			for i, k := range m {
				s[i] = vals[k]
			}
			sets = append(sets, s)
		})
	}
	type nd struct{ num, den []float64 }
	var cells, small []nd
	for _, n := range sets {
		for _, d := range sets {
			cells = append(cells, nd{n, d})
		}
	}
	for _, n := range vals {
		for _, d := range vals {
			small = append(small, nd{[]float64{n}, []float64{d}})
		}
	}
	f := c.Family("summaries-in-context", fmt.Sprintf("one series holding several points, summarised by ONE AddSummaries call (one bootstrap closure for all points): every ordered pair of points from %d cells (numerator and denominator every multiset of ≤%d values from %v — so mirrored, identical and equal-sum samples all occur) placed as two series stamps of one benchmark and as one stamp of two benchmarks, and every ordered triple from the %d single-sample cells on (B0,s1) (B0,s2) (B1,s1): each point's (low, centre, high) is bit-identical to what it gets as the only point of the series, and lies within the ratios attainable from its own samples; non-trivial = every context", len(cells), maxSet, vals, len(small)), replay)
	if c.Replaying() {
		return
	}
	var jobs [][]c18Cell
	for _, a := range cells {
		for _, b := range cells {
			jobs = append(jobs, []c18Cell{{0, 0, a.num, a.den}, {0, 1, b.num, b.den}})
			jobs = append(jobs, []c18Cell{{0, 0, a.num, a.den}, {1, 0, b.num, b.den}})
		}
	}
	for _, a := range small {
		for _, b := range small {
			for _, d := range small {
				jobs = append(jobs, []c18Cell{{0, 0, a.num, a.den}, {0, 1, b.num, b.den}, {1, 0, d.num, d.den}})
			}
		}
	}
	f.Bounds["contexts"] = len(jobs)
	done := mc.ParRange(uint64(len(jobs)), 16, c.TimeUp, func(w int, lo, hi uint64) {
		l := f.Local()
		for i := lo; i < hi; i++ {
			cx := c18Ctx{Cells: jobs[i], Conf: 0.9, N: 20}
			var msg string
			if p := mc.Catch(func() { msg = c18CheckCtx(cx) }); p != "" {
				msg = p
			}
			l.Evals++
			l.Nontrivial++
			if msg != "" {
				l.Outcome("differs")
				c.Fail(f, "summary-in-context", cx, msg)
			} else {
				l.Outcome("same as alone")
			}
		}
		l.Flush()
	})
	if done < uint64(len(jobs)) {
		f.Capped(fmt.Sprintf("time cap: %d of %d contexts", done, len(jobs)))
	}
	f.Sample(c18Ctx{[]c18Cell{{0, 0, []float64{1, 2}, []float64{4}}, {1, 0, []float64{4}, []float64{1, 2}}}, 0.9, 20})
	f.Done()
}
