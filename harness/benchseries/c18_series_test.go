//go:build verif

package benchseries

import (
	"encoding/json"
	"fmt"
	"math"
	"os"
	"path/filepath"
	"regexp"
	"sort"
	"strings"
	"testing"
	"time"

	"golang.org/x/perf/benchfmt"
	mc "golang.org/x/perf/internal/verifmc"
)

// ---- C18: comparison series depend only on the result set; bootstrap summaries are sane ----

type c18Res struct {
	Bench  string
	Exp    string // runstamp
	Role   string // baseline | experiment
	Hash   string // experiment-commit
	Stamp  string // experiment-commit-time
	Values map[string]float64
}

const (
	t1 = "2020-01-01T00:00:00Z"
	t2 = "2020-02-01T00:00:00Z"
	s1 = "2019-12-01T00:00:00Z"
	s2 = "2019-12-15T00:00:00Z"
)

var c18Pool = []c18Res{
	{"A", t1, "baseline", "h1", s1, map[string]float64{"u1": 10, "u2": 100}},
	{"A", t1, "experiment", "h1", s1, map[string]float64{"u1": 11, "u2": 110}},
	{"A", t2, "baseline", "h1", s1, map[string]float64{"u1": 12}},
	{"A", t2, "experiment", "h1", s1, map[string]float64{"u1": 13}},
	{"B", t1, "baseline", "h2", s2, map[string]float64{"u1": 20}},
	{"B", t1, "experiment", "h2", s2, map[string]float64{"u1": 21}},
	{"A", t1, "experiment", "h2", s2, map[string]float64{"u1": 14}},
	{"A", t1, "baseline", "h1", s1, map[string]float64{"u1": 15}},
	{"B", t2, "experiment", "h2", s2, map[string]float64{"u1": 22}}, // a later experiment without a baseline
}

func (r c18Res) lines() string {
	var b strings.Builder
	fmt.Fprintf(&b, "runstamp: %s\ntoolchain: %s\nexperiment-commit: %s\nexperiment-commit-time: %s\nbaseline-commit: d1\n", r.Exp, r.Role, r.Hash, r.Stamp)
	fmt.Fprintf(&b, "Benchmark%s 1", r.Bench)
	units := []string{}
	for u := range r.Values {
		units = append(units, u)
	}
	sort.Strings(units)
	for _, u := range units {
		fmt.Fprintf(&b, " %v %s", r.Values[u], u)
	}
	b.WriteString("\n")
	return b.String()
}

func (r c18Res) result() *benchfmt.Result {
	rd := benchfmt.NewReader(strings.NewReader(r.lines()), "pool")
	for rd.Scan() {
		if res, ok := rd.Result().(*benchfmt.Result); ok {
			return res.Clone()
		}
	}
	panic("no result")
}

func quietOptions() *BuilderOptions {
	o := DefaultBuilderOptions()
	o.Warn = func(string, ...interface{}) {}
	return o
}

// maskMixed replaces, in a dump of the implementation's answer, the baseline
// hash of every series the reference marks with "?" (trials with and without
// a baseline) by "?".
func maskMixed(dump, ref string) string {
	for _, m := range mixedRE.FindAllStringSubmatch(ref, -1) {
		dump = strings.ReplaceAll(dump, m[1]+"/d1", m[1]+"/?")
		dump = strings.ReplaceAll(dump, m[1]+"/ ", m[1]+"/? ")
		dump = strings.ReplaceAll(dump, m[1]+"/]", m[1]+"/?]")
	}
	return dump
}

var mixedRE = regexp.MustCompile(`([^ \[\]]+=[^ /]+)/\?`)

// dumpSeries renders the comparison series canonically.
func dumpSeries(css []*ComparisonSeries) string {
	var b strings.Builder
	sorted := append([]*ComparisonSeries{}, css...)
	sort.Slice(sorted, func(i, j int) bool { return sorted[i].Unit < sorted[j].Unit })
	for _, cs := range sorted {
		fmt.Fprintf(&b, "unit %q benchmarks %q series %q\n", cs.Unit, cs.Benchmarks, cs.Series)
		var hp []string
		for s, h := range cs.HashPairs {
			hp = append(hp, fmt.Sprintf("%s=%s/%s", s, h.NumHash, h.DenHash))
		}
		sort.Strings(hp)
		fmt.Fprintf(&b, " hashpairs %v\n", hp)
		for _, bn := range cs.Benchmarks {
			for _, s := range cs.Series {
				c, ok := cs.ComparisonAt(bn, s)
				if !ok {
					continue
				}
				fmt.Fprintf(&b, " point %s %s date=%s num=%v den=%v\n", bn, s, c.Date, cellVals(c.Numerator), cellVals(c.Denominator))
			}
		}
	}
	return b.String()
}

func cellVals(c *Cell) string {
	if c == nil {
		return "<none>"
	}
	v := append([]float64{}, c.Values...)
	sort.Float64s(v)
	return fmt.Sprint(v)
}

func normDate(s string) string {
	n, err := NormalizeDateString(s)
	if err != nil {
		panic(err)
	}
	return n
}

// refSeries is the set-semantics reference.
func refSeries(pool []c18Res, dupeHow int) string {
	var b strings.Builder
	units := map[string]bool{}
	for _, r := range pool {
		for u := range r.Values {
			units[u] = true
		}
	}
	var us []string
	for u := range units {
		us = append(us, u)
	}
	sort.Strings(us)
	for _, u := range us {
		benches, sers := map[string]bool{}, map[string]bool{}
		hash := map[string]string{}
		withDen, withoutDen := map[string]bool{}, map[string]bool{}
		type trialKey struct{ bench, exp string }
		num := map[trialKey]map[string][]float64{} // per hash
		den := map[trialKey][]float64{}
		hasDen := map[trialKey]bool{}
		trials := map[trialKey]bool{}
		for _, r := range pool {
			v, ok := r.Values[u]
			if !ok {
				continue
			}
			tk := trialKey{r.Bench, r.Exp}
			trials[tk] = true
			benches[r.Bench] = true
			if r.Role == "baseline" {
				den[tk] = append(den[tk], v)
				hasDen[tk] = true
			} else {
				if num[tk] == nil {
					num[tk] = map[string][]float64{}
				}
				num[tk][r.Hash] = append(num[tk][r.Hash], v)
				sers[normDate(r.Stamp)] = true
				hash[normDate(r.Stamp)] = r.Hash
			}
		}
		if len(trials) == 0 {
			continue
		}
		bl, sl := keysOf(benches), keysOf(sers)
		fmt.Fprintf(&b, "unit %q benchmarks %q series %q\n", u, bl, sl)
		// the baseline hash of a series point is that of the trials measuring it
		for tk := range trials {
			for _, r := range pool {
				if _, ok := r.Values[u]; ok && r.Role != "baseline" && r.Bench == tk.bench && r.Exp == tk.exp {
					if hasDen[tk] {
						withDen[normDate(r.Stamp)] = true
					} else {
						withoutDen[normDate(r.Stamp)] = true
					}
				}
			}
		}
		var hp []string
		for s, h := range hash {
			switch {
			case withDen[s] && withoutDen[s]:
				// some trials of this series have a baseline and some have none:
				// decided by the map-order exploration, masked elsewhere
				hp = append(hp, fmt.Sprintf("%s=%s/?", s, h))
			case withDen[s]:
				hp = append(hp, fmt.Sprintf("%s=%s/d1", s, h))
			default:
				hp = append(hp, fmt.Sprintf("%s=%s/", s, h))
			}
		}
		sort.Strings(hp)
		fmt.Fprintf(&b, " hashpairs %v\n", hp)
		for _, bn := range bl {
			for _, s := range sl {
				var cands []trialKey
				for tk := range trials {
					if tk.bench == bn && num[tk][hash[s]] != nil {
						cands = append(cands, tk)
					}
				}
				if len(cands) == 0 {
					continue
				}
				sort.Slice(cands, func(i, j int) bool { return normDate(cands[i].exp) < normDate(cands[j].exp) })
				latest := cands[len(cands)-1]
				var nv, dv []float64
				anyDen := false
				if dupeHow == DUPE_REPLACE {
					nv, dv = num[latest][hash[s]], den[latest]
					anyDen = hasDen[latest]
				} else {
					for _, tk := range cands {
						nv = append(nv, num[tk][hash[s]]...)
						dv = append(dv, den[tk]...)
						anyDen = anyDen || hasDen[tk]
					}
				}
				nv, dv = append([]float64{}, nv...), append([]float64{}, dv...)
				sort.Float64s(nv)
				sort.Float64s(dv)
				ds := fmt.Sprint(dv)
				if !anyDen {
					ds = "<none>"
				}
				fmt.Fprintf(&b, " point %s %s date=%s num=%v den=%s\n", bn, s, normDate(latest.exp), nv, ds)
			}
		}
	}
	return b.String()
}

func keysOf(m map[string]bool) []string {
	var s []string
	for k := range m {
		s = append(s, k)
	}
	sort.Strings(s)
	return s
}

type c18Case struct {
	Pool  int
	Order []int
	Dupe  int
	Split []int
}

func c18Build(pool []c18Res, order []int, dupe int) (string, error) {
	b, err := NewBuilder(quietOptions())
	if err != nil {
		return "", err
	}
	for _, i := range order {
		b.Add(pool[i].result())
	}
	css, err := b.AllComparisonSeries(nil, dupe)
	if err != nil {
		return "", err
	}
	return dumpSeries(css), nil
}

func c18Orders(c *mc.Check, n int) {
	pool := c18Pool[:n]
	replay := func(raw json.RawMessage) string {
		var cs c18Case
		json.Unmarshal(raw, &cs)
		p := c18Pool[:cs.Pool]
		got, err := c18Build(p, cs.Order, cs.Dupe)
		if err != nil {
			return err.Error()
		}
		if want := refSeries(p, cs.Dupe); maskMixed(got, want) != want {
			return fmt.Sprintf("order %v policy %d:\n%s\nexpected (set semantics):\n%s", cs.Order, cs.Dupe, got, want)
		}
		return ""
	}
	f := c.Family("insertion-orders", fmt.Sprintf("a pool of %d results (2 units, benchmarks A/B, experiments t1<t2, series stamps s1/s2 with hashes h1/h2, both roles, a point measured by two experiments, two series points in one trial, two baseline samples in one trial): every one of the %d! insertion orders into a fresh Builder × {replace, combine}: the canonical dump of AllComparisonSeries (units, benchmarks, series, hash pairs, per point date and sorted numerator/denominator samples) equals the set-semantics reference (latest experiment wins / samples concatenated); non-trivial = non-identity orders", n, n), replay)
	if c.Replaying() {
		return
	}
	var orders [][]int
	mc.Permutations(n, func(p []int) bool { orders = append(orders, append([]int{}, p...)); return true })
	f.Bounds["pool"] = n
	f.Bounds["orders"] = len(orders)
	want := map[int]string{DUPE_REPLACE: refSeries(pool, DUPE_REPLACE), DUPE_COMBINE: refSeries(pool, DUPE_COMBINE)}
	done := mc.ParRange(uint64(len(orders)), 16, c.TimeUp, func(w int, lo, hi uint64) {
		l := f.Local()
		for i := lo; i < hi; i++ {
			for _, dupe := range []int{DUPE_REPLACE, DUPE_COMBINE} {
				var got string
				var err error
				if p := mc.Catch(func() { got, err = c18Build(pool, orders[i], dupe) }); p != "" {
					got = p
				}
				l.Evals++
				if i > 0 {
					l.Nontrivial++
				}
				if err != nil || maskMixed(got, want[dupe]) != want[dupe] {
					l.Outcome("differs")
					c.Fail(f, "insertion-order", c18Case{Pool: n, Order: orders[i], Dupe: dupe}, fmt.Sprintf("order %v policy %d (err %v):\n%s\nexpected (set semantics):\n%s", orders[i], dupe, err, got, want[dupe]))
				} else {
					l.Outcome(fmt.Sprintf("policy-%d-same", dupe))
				}
			}
		}
		l.Flush()
	})
	if done < uint64(len(orders)) {
		f.Capped("time cap")
	}
	f.Sample(c18Case{Pool: n, Order: orders[len(orders)/2], Dupe: 0})
	f.Done()
}

// c18Files: a sub-pool split across 1–3 files read in every order.
func c18Files(c *mc.Check) {
	sub := c18Pool[:4]
	f := c.Family("file-orders", "the first 4 results of the pool, in every order, split into 1, 2 or 3 files given in that order to AddFiles: same dump as the set-semantics reference; non-trivial = every case", nil)
	if c.Replaying() {
		return
	}
	dir, _ := os.MkdirTemp("", "verif-c18-")
	defer os.RemoveAll(dir)
	want := refSeries(sub, DUPE_REPLACE)
	mc.Permutations(4, func(p []int) bool {
		for _, split := range [][]int{{4}, {2, 2}, {1, 1, 2}, {3, 1}} {
			var paths []string
			k := 0
			for fi, n := range split {
				var b strings.Builder
				for j := 0; j < n; j++ {
					b.WriteString(sub[p[k]].lines())
					k++
				}
				path := filepath.Join(dir, fmt.Sprintf("f%d.txt", fi))
				os.WriteFile(path, []byte(b.String()), 0o644)
				paths = append(paths, path)
			}
			bld, _ := NewBuilder(quietOptions())
			err := bld.AddFiles(benchfmt.Files{Paths: paths})
			css, err2 := bld.AllComparisonSeries(nil, DUPE_REPLACE)
			got := dumpSeries(css)
			f.Count(1, 1)
			if err != nil || err2 != nil || got != want {
				f.Outcome("differs", 1)
				c.Fail(f, "file-order", c18Case{Pool: 4, Order: append([]int{}, p...), Split: split}, fmt.Sprintf("order %v split %v (errors %v %v):\n%s\nexpected:\n%s", p, split, err, err2, got, want))
			} else {
				f.Outcome("same", 1)
			}
		}
		return true
	})
	f.Sample(c18Case{Pool: 4, Order: []int{2, 0, 3, 1}, Split: []int{1, 1, 2}})
	f.Done()
}

// ---- bootstrap ----

type c18Boot struct {
	Num, Den []float64
	Conf     float64
	N        int
}

func c18CheckBoot(cs c18Boot) (msg, sig string) {
	mk := func() (float64, float64, float64) {
		c := &Comparison{Numerator: &Cell{Values: append([]float64{}, cs.Num...)}, Denominator: &Cell{Values: append([]float64{}, cs.Den...)}}
		return withBootstrap(cs.Conf, cs.N)(c)
	}
	c1, l1, h1 := mk()
	c2, l2, h2 := mk()
	if math.Float64bits(c1) != math.Float64bits(c2) || math.Float64bits(l1) != math.Float64bits(l2) || math.Float64bits(h1) != math.Float64bits(h2) {
		return fmt.Sprintf("bootstrap of %v/%v conf=%v N=%d is not reproducible: (%v,%v,%v) then (%v,%v,%v)", cs.Num, cs.Den, cs.Conf, cs.N, l1, c1, h1, l2, c2, h2), "bootstrap-reproducible"
	}
	minR, maxR := math.Inf(1), math.Inf(-1)
	zeroDen := false
	for _, n := range cs.Num {
		for _, d := range cs.Den {
			if d == 0 {
				zeroDen = true
				continue
			}
			minR, maxR = math.Min(minR, n/d), math.Max(maxR, n/d)
		}
	}
	if zeroDen {
		// a zero denominator has no quotient; the documented substitute keeps every summary a finite number, and the
		// ordering clause below applies as always
		minR, maxR = math.Inf(-1), math.Inf(1)
		for _, v := range []float64{l1, c1, h1} {
			if math.IsInf(v, 0) {
				return fmt.Sprintf("bootstrap of %v/%v conf=%v N=%d: (low %v, centre %v, high %v) is not finite", cs.Num, cs.Den, cs.Conf, cs.N, l1, c1, h1), "bootstrap-range"
			}
		}
	}
	for _, v := range []float64{l1, c1, h1} {
		if v < minR*(1-1e-12) || v > maxR*(1+1e-12) || math.IsNaN(v) {
			return fmt.Sprintf("bootstrap of %v/%v conf=%v N=%d: (low %v, centre %v, high %v) leaves the attainable ratios [%v,%v]", cs.Num, cs.Den, cs.Conf, cs.N, l1, c1, h1, minR, maxR), "bootstrap-range"
		}
	}
	if !(l1 <= c1 && c1 <= h1) {
		sig := "bootstrap-order"
		// low is taken at rank N·(1−c)/2 interpolating upwards, the centre is
		// the average of the two middle resamples: they cross when that rank
		// reaches the middle.
		if p := (1 - cs.Conf) / 2; math.Floor(float64(cs.N)*p) >= math.Ceil(float64(cs.N)/2)-1 {
			sig = "bootstrap-order-low-rank-reaches-middle"
		}
		// An interpolated bound between two EQUAL resampled ratios is
		// computed as r·(1−x)+r·x, which can differ from r in the last bit.
		if over := math.Max(l1-c1, c1-h1); over <= 4*math.Abs(c1)*(1.0/(1<<52)) {
			sig = "bootstrap-order-within-one-rounding"
		}
		return fmt.Sprintf("bootstrap of %v/%v conf=%v N=%d: low %v, centre %v, high %v are not in order", cs.Num, cs.Den, cs.Conf, cs.N, l1, c1, h1), sig
	}
	return "", ""
}

func c18Bootstrap(c *mc.Check, maxSize int) {
	replay := func(raw json.RawMessage) string {
		var cs c18Boot
		json.Unmarshal(raw, &cs)
		m, _ := c18CheckBoot(cs)
		return m
	}
	vals := []float64{1, 2, 3, 5, 8}
	confs := []float64{0.001, 0.05, 0.5, 0.8, 0.95, 0.99}
	ns := []int{1, 2, 10, 11, 100, 1000}
	f := c.Family("bootstrap", fmt.Sprintf("every pair of non-empty multisets of size ≤%d over %v as numerator and denominator (plus one pair of 100 values, and every pair of multisets of size ≤2 over {0, 5}: zero numerators and denominators) × confidence %v × resample counts %v: two independent computations agree bit for bit; low ≤ centre ≤ high; all three within [min ratio, max ratio] of the samples' values; non-trivial = pairs with ≥2 distinct ratios", maxSize, vals, confs, ns), replay)
	if c.Replaying() {
		return
	}
	var sets [][]float64
	for n := 1; n <= maxSize; n++ {
		mc.Multisets(len(vals), n, func(m []int) {
			s := make([]float64, n)
			for i, k := range m {
				s[i] = vals[k]
			}
			sets = append(sets, s)
		})
	}
	big1, big2 := make([]float64, 100), make([]float64, 100)
	for i := range big1 {
		big1[i] = 100 + float64(i%17)
		big2[i] = 90 + float64(i%13)
	}
	sets = append(sets, big1)
	// cells that hold zeros (allocs/op, B/op): every pair of multisets of size ≤2 over {0, 5}
	zsets := [][]float64{{0}, {5}, {0, 0}, {0, 5}, {5, 5}}
	for _, num := range zsets {
		for _, den := range zsets {
			for _, cf := range confs {
				for _, n := range ns {
					cs := c18Boot{num, den, cf, n}
					var msg, sig string
					if p := mc.Catch(func() { msg, sig = c18CheckBoot(cs) }); p != "" {
						msg, sig = p, "panic"
					}
					f.Count(1, 1)
					if msg != "" {
						f.Outcome("violation:"+sig, 1)
						c.Fail(f, sig, cs, msg)
					} else {
						f.Outcome("ok", 1)
					}
				}
			}
		}
	}
	mc.ParRange(uint64(len(sets)), 1, c.TimeUp, func(w int, lo, hi uint64) {
		l := f.Local()
		for i := lo; i < hi; i++ {
			for j, den := range sets {
				num := sets[i]
				if (len(num) == 100) != (len(den) == 100) {
					continue
				}
				if len(num) == 100 {
					den = big2
				}
				_ = j
				for _, cf := range confs {
					for _, n := range ns {
						if len(num) > 3 && n == 1000 && len(den) > 3 && len(num) < 100 {
							continue // keep the quick tier quick; covered for smaller samples
						}
						cs := c18Boot{num, den, cf, n}
						var msg, sig string
						if p := mc.Catch(func() { msg, sig = c18CheckBoot(cs) }); p != "" {
							msg, sig = p, "panic"
						}
						l.Evals++
						l.Nontrivial++
						if msg != "" {
							l.Outcome("violation:" + sig)
							c.Fail(f, sig, cs, msg)
						} else {
							l.Outcome("ok")
						}
					}
				}
			}
		}
		l.Flush()
	})
	f.Sample(c18Boot{[]float64{1, 2, 3, 5, 8}, []float64{2, 3}, 0.95, 100})
	f.Done()
}

// ---- dates ----

func c18Dates(c *mc.Check) {
	f := c.Family("dates", "a lattice of time stamps (years 0001/1999/2000/9999, month/day/hour boundaries, fractions none/.5/.05/.000000001/.999999999 and the same with trailing zeros (.500000 .50 .000 .0 .050000000), zones Z/+00:00/−07:00/+14:00, and the compact YYYYMMDDTHHMMSS form): equal instants ⇒ equal normalised strings; for all pairs, string order = time order; normalised strings parse back to the same instant; non-trivial = all pairs", nil)
	if c.Replaying() {
		return
	}
	type stamp struct {
		in   string
		norm string
		t    time.Time
	}
	var stamps []stamp
	for _, y := range []string{"0001", "1999", "2000", "2023", "9999"} {
		for _, md := range []string{"01-01", "02-28", "12-31", "06-15"} {
			for _, hm := range []string{"00:00:00", "23:59:59", "12:30:05"} {
				// other spellings of the same fractions (trailing zeros, a zero fraction) denote the same instants
				for _, fr := range []string{"", ".5", ".05", ".000000001", ".999999999", ".500000", ".50", ".000", ".0", ".050000000"} {
					for _, z := range []string{"Z", "+00:00", "-07:00", "+14:00"} {
						stamps = append(stamps, stamp{in: y + "-" + md + "T" + hm + fr + z})
					}
				}
				compact := y + strings.ReplaceAll(md, "-", "") + "T" + strings.ReplaceAll(hm, ":", "")
				stamps = append(stamps, stamp{in: compact})
			}
		}
	}
	var ok []stamp
	for _, s := range stamps {
		n, err := NormalizeDateString(s.in)
		if err != nil {
			f.Outcome("rejected", 1)
			continue
		}
		in := s.in
		if !strings.Contains(in, "-") {
			in = in[0:4] + "-" + in[4:6] + "-" + in[6:11] + ":" + in[11:13] + ":" + in[13:15] + "Z"
		}
		t, err := time.Parse(time.RFC3339Nano, in)
		if err != nil {
			continue
		}
		back, err := ParseNormalizedDateString(n)
		if err != nil || !back.Equal(t) {
			rsig := "date-roundtrip"
			if strings.HasPrefix(n, "10000-") {
				rsig = "date-order-utc-year-10000"
			}
			c.Fail(f, rsig, s.in, fmt.Sprintf("NormalizeDateString(%q) = %q, which parses back to %v (err %v), not %v", s.in, n, back, err, t))
		}
		ok = append(ok, stamp{s.in, n, t})
	}
	f.Bounds["stamps"] = len(ok)
	for i := range ok {
		for j := range ok {
			a, b := ok[i], ok[j]
			f.Count(1, 1)
			switch {
			case a.t.Equal(b.t) && a.norm != b.norm:
				c.Fail(f, "date-equal", []string{a.in, b.in}, fmt.Sprintf("%q and %q denote one instant but normalise to %q and %q", a.in, b.in, a.norm, b.norm))
			case a.t.Before(b.t) && !(a.norm < b.norm):
				f.Outcome("order-violation", 1)
				sig := "date-order"
				if strings.HasPrefix(a.norm, "10000-") || strings.HasPrefix(b.norm, "10000-") {
					sig = "date-order-utc-year-10000"
				}
				c.Fail(f, sig, []string{a.in, b.in}, fmt.Sprintf("%q is before %q but their normalised strings %q, %q do not sort that way", a.in, b.in, a.norm, b.norm))
			default:
				f.Outcome("ok", 1)
			}
		}
	}
	f.Sample("2000-02-28T23:59:59.5-07:00")
	f.Done()
}

// c18SchedOnly is set by the file that is only part of the instrumented build.
var c18SchedOnly func(c *mc.Check)

func TestVerifC18(t *testing.T) {
	c := mc.NewCheck("C18")
	c.Assume("set-semantics reference in the harness; pools keep hash ↔ series stamp bijective and experiments' normalised stamps distinct (the property defines no winner otherwise)")
	if c18SchedOnly != nil {
		// the instrumented build only explores map iteration orders
		c18SchedOnly(c)
		if code := c.Finish(); code != 0 {
			os.Exit(code)
		}
		return
	}
	c18Orders(c, mc.Pick(c, 8, 9))
	c18Histories(c, mc.Pick(c, 3, 4))
	c18Files(c)
	c18Tables(c, mc.Pick(c, 7, 8))
	c18Stamps(c)
	c18Bootstrap(c, mc.Pick(c, 4, 5))
	c18Context(c, mc.Pick(c, 2, 3))
	c18Dates(c)
	if code := c.Finish(); code != 0 {
		os.Exit(code)
	}
}
