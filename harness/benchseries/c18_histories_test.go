//go:build verif

package benchseries

import (
	"encoding/json"
	"fmt"
	"sort"
	"strings"

	mc "golang.org/x/perf/internal/verifmc"
)

// ---- C18: one Builder asked repeatedly while results keep arriving ----

// c18Pool2 has cells with several samples (slices with spare capacity), a
// point measured by two experiments, and two hashes sharing one baseline.
var c18Pool2 = []c18Res{
	{"A", t1, "baseline", "h1", s1, map[string]float64{"u1": 10}},
	{"A", t1, "baseline", "h1", s1, map[string]float64{"u1": 13}},
	{"A", t1, "baseline", "h1", s1, map[string]float64{"u1": 11}},
	{"A", t1, "experiment", "h1", s1, map[string]float64{"u1": 15}},
	{"A", t1, "experiment", "h1", s1, map[string]float64{"u1": 12}},
	{"A", t1, "experiment", "h1", s1, map[string]float64{"u1": 14}},
	{"A", t1, "experiment", "h2", s2, map[string]float64{"u1": 30}},
	{"A", t2, "baseline", "h1", s1, map[string]float64{"u1": 9}},
	{"A", t2, "experiment", "h1", s1, map[string]float64{"u1": 5}},
	{"A", t2, "experiment", "h2", s2, map[string]float64{"u1": 20}},
}

// dumpRaw renders the series with the samples in the order returned and with
// bootstrap summaries: everything a caller of AllComparisonSeries can see.
func dumpRaw(css []*ComparisonSeries) string {
	var b strings.Builder
	sorted := append([]*ComparisonSeries{}, css...)
	sort.Slice(sorted, func(i, j int) bool { return sorted[i].Unit < sorted[j].Unit })
	// the order in which the series are returned is part of what a caller sees
	b.WriteString("returned order:")
	for _, cs := range css {
		fmt.Fprintf(&b, " %q", cs.Unit)
	}
	b.WriteByte('\n')
	for _, cs := range sorted {
		cs.AddSummaries(0.9, 25)
		fmt.Fprintf(&b, "unit %q benchmarks %q series %q\n", cs.Unit, cs.Benchmarks, cs.Series)
		var hp []string
		for s, h := range cs.HashPairs {
			hp = append(hp, fmt.Sprintf("%s=%s/%s", s, h.NumHash, h.DenHash))
		}
		sort.Strings(hp)
		fmt.Fprintf(&b, " hashpairs %v\n", hp)
		for _, bn := range cs.Benchmarks {
			for _, s := range cs.Series {
				c, ok := cs.ComparisonAt(bn, s)
				if !ok {
					continue
				}
				fmt.Fprintf(&b, " point %s %s date=%s num=%v den=%v", bn, s, c.Date, rawVals(c.Numerator), rawVals(c.Denominator))
				if sum, ok := cs.SummaryAt(bn, s); ok && sum.Present {
					fmt.Fprintf(&b, " summary=%v/%v/%v", sum.Low, sum.Center, sum.High)
				}
				b.WriteByte('\n')
			}
		}
	}
	return b.String()
}

// rawVals: the property speaks of the measurements a point consists of, not of
// their order (the implementation sorts them only when both roles are
// present), so samples are compared as multisets; what the order does
// influence — the bootstrap summary — is compared as it is.
func rawVals(c *Cell) string { return cellVals(c) }

type c18Hist struct {
	Base int   // results of c18Pool2[:Base] added first, in order
	Ops  []int // < len(pool): Add(pool[op]); len(pool): ask replace; len(pool)+1: ask combine
}

func c18Ask(b *Builder, dupe int) (canon, raw string, err error) {
	css, err := b.AllComparisonSeries(nil, dupe)
	if err != nil {
		return "", "", err
	}
	return dumpSeries(css), dumpRaw(css), nil
}

// c18RunHist runs the history on one builder; every ask is compared with a
// fresh builder that was given the same results and never asked before, with a
// fresh builder given them in sorted order, and with the set-semantics reference.
func c18RunHist(h c18Hist) string {
	pool := c18Pool2
	b, err := NewBuilder(quietOptions())
	if err != nil {
		return err.Error()
	}
	var added []int
	for i := 0; i < h.Base; i++ {
		b.Add(pool[i].result())
		added = append(added, i)
	}
	for step, op := range h.Ops {
		if op < len(pool) {
			b.Add(pool[op].result())
			added = append(added, op)
			continue
		}
		dupe := op - len(pool)
		canon, raw, err := c18Ask(b, dupe)
		if err != nil {
			return fmt.Sprintf("step %d: %v", step, err)
		}
		fresh := func(order []int) (string, string) {
			fb, _ := NewBuilder(quietOptions())
			for _, i := range order {
				fb.Add(pool[i].result())
			}
			c2, r2, err := c18Ask(fb, dupe)
			if err != nil {
				return err.Error(), ""
			}
			return c2, r2
		}
		var sub []c18Res
		for _, i := range added {
			sub = append(sub, pool[i])
		}
		want := refSeries(sub, dupe)
		raw = maskMixed(raw, want)
		if maskMixed(canon, want) != want {
			return fmt.Sprintf("ask at step %d (policy %d) after adding %v:\n%s\nexpected (set semantics):\n%s", step, dupe, added, canon, want)
		}
		if _, r2 := fresh(added); raw != maskMixed(r2, want) {
			return fmt.Sprintf("ask at step %d (policy %d) after adding %v, on a builder that had been asked before:\n%s\na fresh builder given the same results in the same order:\n%s", step, dupe, added, raw, r2)
		}
		srt := append([]int{}, added...)
		sort.Ints(srt)
		if _, r3 := fresh(srt); raw != maskMixed(r3, want) {
			return fmt.Sprintf("ask at step %d (policy %d) after adding %v:\n%s\na fresh builder given the same results in sorted order:\n%s", step, dupe, added, raw, r3)
		}
	}
	return ""
}

func c18Histories(c *mc.Check, depth int) {
	replay := func(raw json.RawMessage) string {
		var h c18Hist
		json.Unmarshal(raw, &h)
		var msg string
		if p := mc.Catch(func() { msg = c18RunHist(h) }); p != "" {
			return p
		}
		return msg
	}
	f := c.Family("add-and-ask-histories", fmt.Sprintf("ONE Builder, starting from each prefix of a 10-result pool (cells with 3 samples in slices with spare capacity, a point measured by two experiments, two hashes sharing a baseline), then every sequence of ≤%d operations from {Add(result i) for each of the 10 results (repeats allowed), AllComparisonSeries(replace), AllComparisonSeries(combine)}: every answer — samples, dates, hash pairs and bootstrap summaries (confidence 0.9, 25 resamples) — equals the answer of a fresh builder given the same results in the same order and never asked before, and of one given them in sorted order, and matches the set-semantics reference; non-trivial = histories with ≥2 asks or an add after an ask", depth), replay)
	if c.Replaying() {
		return
	}
	nOps := len(c18Pool2) + 2
	f.Bounds["max_ops"] = depth
	f.Bounds["alphabet"] = nOps
	var cases []c18Hist
	for _, base := range []int{0, 6, 7, 8, len(c18Pool2)} {
		for n := 1; n <= depth; n++ {
			mc.Sequences(nOps, n, func(m []int) {
				// only histories that end with an ask say something
				if m[n-1] < len(c18Pool2) {
					return
				}
				cases = append(cases, c18Hist{base, append([]int{}, m...)})
			})
		}
	}
	f.Bounds["histories"] = len(cases)
	done := mc.ParRange(uint64(len(cases)), 32, c.TimeUp, func(w int, lo, hi uint64) {
		l := f.Local()
		for i := lo; i < hi; i++ {
			h := cases[i]
			var msg string
			if p := mc.Catch(func() { msg = c18RunHist(h) }); p != "" {
				msg = p
			}
			l.Evals++
			asks, addAfterAsk := 0, false
			for _, op := range h.Ops {
				if op >= len(c18Pool2) {
					asks++
				} else if asks > 0 {
					addAfterAsk = true
				}
			}
			if asks >= 2 || addAfterAsk {
				l.Nontrivial++
			}
			if msg != "" {
				l.Outcome("differs")
				c.Fail(f, "history", h, fmt.Sprintf("base %d ops %v: %s", h.Base, h.Ops, msg))
			} else {
				l.Outcome("same")
			}
		}
		l.Flush()
	})
	if done < uint64(len(cases)) {
		f.Capped(fmt.Sprintf("time cap: %d of %d histories", done, len(cases)))
	}
	f.Sample(c18Hist{6, []int{10, 7, 8, 11}})
	f.Done()
}
