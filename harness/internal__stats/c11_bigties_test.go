//go:build verif

package stats

import (
	"encoding/json"
	"fmt"
	"math"
	"sort"
	"strconv"
	"strings"

	mc "golang.org/x/perf/internal/verifmc"
)

// ---- C11: tie groups of ten or more values, and tie vectors that "look alike" ----
//
// The tied U distribution is computed from the tie vector (how many pooled
// values share each rank). Every tie vector of ≤3 groups with N ≤ 16 that has
// a group of ≥10 values, together with every vector whose counts read the
// same when written one after the other ([2 12] and [2 1 2], [11 3] and
// [1 1 3] and [1 13]), is evaluated in ONE process, forwards and then
// backwards, so that anything remembered from one vector is offered to its
// look-alikes; each answer is compared with the brute-force distribution.

type c11tCase struct {
	T  []int
	N1 int
}

func digitString(t []int) string {
	var b strings.Builder
	for _, x := range t {
		b.WriteString(strconv.Itoa(x))
	}
	return b.String()
}

func c11tVectors(maxN int) [][]int {
	var all [][]int
	var rec func(cur []int, left, parts int)
	rec = func(cur []int, left, parts int) {
		if len(cur) > 0 {
			all = append(all, append([]int{}, cur...))
		}
		if parts == 0 {
			return
		}
		for x := 1; x <= left; x++ {
			rec(append(cur, x), left-x, parts-1)
		}
	}
	rec(nil, maxN, 3)
	byDigits := map[string][][]int{}
	for _, t := range all {
		byDigits[digitString(t)] = append(byDigits[digitString(t)], t)
	}
	var out [][]int
	for _, group := range byDigits {
		big := false
		for _, t := range group {
			for _, x := range t {
				if x >= 10 {
					big = true
				}
			}
		}
		if !big {
			continue
		}
		for _, t := range group {
			if len(t) >= 2 { // one group = all values equal, which is an error case of the test, not a distribution
				out = append(out, t)
			}
		}
	}
	sort.Slice(out, func(i, j int) bool {
		if a, b := digitString(out[i]), digitString(out[j]); a != b {
			return a < b
		}
		return len(out[i]) < len(out[j])
	})
	return out
}

func c11tCheck(cs c11tCase) string {
	n := 0
	var pooled []float64
	for rank, cnt := range cs.T {
		for i := 0; i < cnt; i++ {
			pooled = append(pooled, float64(rank+1))
		}
		n += cnt
	}
	if cs.N1 >= n {
		return ""
	}
	counts, total := bruteDist(pooled, cs.N1)
	bd := &bruteD{counts, total}
	d := UDist{N1: cs.N1, N2: n - cs.N1, T: cs.T}
	sum := 0.0
	untied := true
	for _, x := range cs.T {
		untied = untied && x == 1
	}
	for tu := -2; tu <= 2*cs.N1*(n-cs.N1)+2; tu++ {
		if untied && tu%2 != 0 {
			continue // without ties U takes integer values only, and the distribution is documented on that lattice
		}
		u := float64(tu) / 2
		if got, want := d.PMF(u), bd.eq(tu); !(math.Abs(got-want) <= 1e-12) {
			return fmt.Sprintf("UDist{%d,%d,T=%v}.PMF(%v) = %v, exact %v", cs.N1, n-cs.N1, cs.T, u, got, want)
		}
		if got, want := d.CDF(u), bd.le(tu); !(math.Abs(got-want) <= 1e-12) {
			return fmt.Sprintf("UDist{%d,%d,T=%v}.CDF(%v) = %v, exact %v", cs.N1, n-cs.N1, cs.T, u, got, want)
		}
		sum += d.PMF(u)
	}
	if !(math.Abs(sum-1) <= 1e-12) {
		return fmt.Sprintf("UDist{%d,%d,T=%v}: PMF sums to %v", cs.N1, n-cs.N1, cs.T, sum)
	}
	return ""
}

func c11BigTies(c *mc.Check, maxN int) {
	replay := func(raw json.RawMessage) string {
		// the replay evaluates the whole family up to the failing case: the failure may need what an earlier
		// look-alike left behind
		var cs c11tCase
		if err := json.Unmarshal(raw, &cs); err != nil {
			return err.Error()
		}
		for _, t := range c11tVectors(maxN) {
			for n1 := 1; n1 <= 3; n1++ {
				m := c11tCheck(c11tCase{t, n1})
				if m != "" {
					return m
				}
			}
		}
		return ""
	}
	vecs := c11tVectors(maxN)
	f := c.Family("tie-groups-of-ten-or-more", fmt.Sprintf("every tie vector of 2–3 groups with N ≤ %d that has a group of ≥10 pooled values, together with every vector whose counts read the same when written one after the other ([2 12] and [2 1 2]; %d vectors) × first samples of 1–3 values, evaluated in one process forwards and then backwards: PMF and CDF at every half-step of U in and around the support against the brute-force distribution over all assignments, PMF summing to 1; non-trivial = every vector", maxN, len(vecs)), replay)
	if c.Replaying() {
		return
	}
	f.Bounds["max_pooled"] = maxN
	f.Bounds["tie_vectors"] = len(vecs)
	// sequential on purpose: what one vector leaves behind is offered to the next
	for pass := 0; pass < 2; pass++ {
		for i := range vecs {
			t := vecs[i]
			if pass == 1 {
				t = vecs[len(vecs)-1-i]
			}
			for n1 := 1; n1 <= 3; n1++ {
				cs := c11tCase{t, n1}
				var msg string
				if p := mc.Catch(func() { msg = c11tCheck(cs) }); p != "" {
					msg = p
				}
				f.Count(1, 1)
				if msg != "" {
					f.Outcome("differs", 1)
					c.Fail(f, "udist-big-ties", cs, msg)
				} else {
					f.Outcome("exact", 1)
				}
			}
		}
		if c.TimeUp() {
			f.Capped("time cap")
			break
		}
	}
	f.Sample(c11tCase{[]int{2, 12}, 2})
	f.Done()
}
