//go:build verif

package stats

import (
	"encoding/json"
	"fmt"
	"math"

	mc "golang.org/x/perf/internal/verifmc"
)

// ---- C12: objects that are asked many times ----
//
// InvCDF returns a function; callers (Rand, the bootstrap, confidence bounds)
// keep it and call it again and again. Whatever the k-th call answers must be
// what the first call of a fresh function answers for the same argument.

type c12ReuseCase struct {
	Nu    float64
	Calls int
}

var c12ReusePs = []float64{0.975, 0.5, 0.025, 0.9, 0.1, 0.999, 0.001, 0.75, 0.25, 0.6, 0.4, 0.99, 0.01, 0.95, 0.05, 0.52, 1e-6, 1 - 1e-6, 0.3, 0.7}

func c12ReuseRun(cs c12ReuseCase) string {
	d := TDist{cs.Nu}
	fresh := make([]float64, len(c12ReusePs))
	for i, p := range c12ReusePs {
		fresh[i] = InvCDF(d)(p)
		if back := d.CDF(fresh[i]); !(math.Abs(back-p) <= 1e-9) {
			return fmt.Sprintf("fresh InvCDF(TDist{%v})(%v) = %v, whose CDF is %v", cs.Nu, p, fresh[i], back)
		}
	}
	inv := InvCDF(d)
	for k := 0; k < cs.Calls; k++ {
		i := k % len(c12ReusePs)
		if got := inv(c12ReusePs[i]); got != fresh[i] && !(math.Abs(got-fresh[i]) <= 1e-12*(1+math.Abs(fresh[i]))) {
			return fmt.Sprintf("call %d of one InvCDF(TDist{%v}) function: inverse of %v is %v, a fresh function answers %v", k+1, cs.Nu, c12ReusePs[i], got, fresh[i])
		}
	}
	return ""
}

func c12Reuse(c *mc.Check) {
	replay := func(raw json.RawMessage) string {
		var cs c12ReuseCase
		if err := json.Unmarshal(raw, &cs); err != nil {
			return err.Error()
		}
		var msg string
		if p := mc.Catch(func() { msg = c12ReuseRun(cs) }); p != "" {
			return p
		}
		return msg
	}
	calls := mc.Pick(c, 5000, 70000)
	nus := []float64{1, 2, 2.5, 5, 9, 30, 100, 1e5}
	f := c.Family("functions-asked-many-times", fmt.Sprintf("for ν ∈ %v: ONE function returned by InvCDF(TDist{ν}) called %d times over a cycle of %d probabilities (a power of two and its neighbours are passed on the way: 1023, 1024, 1025, 4096, …): the k-th answer equals what the first call of a fresh function answers for the same probability (whose CDF is that probability to 1e-9); non-trivial = calls after the first cycle", nus, calls, len(c12ReusePs)), replay)
	if c.Replaying() {
		return
	}
	f.Bounds["calls_per_function"] = calls
	mc.ParRange(uint64(len(nus)), 1, c.TimeUp, func(w int, lo, hi uint64) {
		for i := lo; i < hi; i++ {
			cs := c12ReuseCase{nus[i], calls}
			var msg string
			if p := mc.Catch(func() { msg = c12ReuseRun(cs) }); p != "" {
				msg = p
			}
			f.Count(int64(calls), int64(calls-len(c12ReusePs)))
			f.Outcome(fmt.Sprintf("ok=%v", msg == ""), 1)
			if msg != "" {
				c.Fail(f, "inverse-reuse", cs, msg)
			}
		}
	})
	f.Sample(c12ReuseCase{5, 1100})
	f.Done()
}
