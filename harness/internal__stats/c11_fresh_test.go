//go:build verif

package stats

import (
	"fmt"
	"testing"

	mc "golang.org/x/perf/internal/verifmc"
)

// ---- C11: first calls of a fresh process (see mc.FirstCalls) ----

func uTest(x, y []float64, alt LocationHypothesis) string {
	r, err := MannWhitneyUTest(x, y, alt)
	if err != nil {
		return "error: " + err.Error()
	}
	return fmt.Sprintf("U=%v p=%v", r.U, r.P)
}

func seq(n int, from, step float64) []float64 {
	v := make([]float64, n)
	for i := range v {
		v[i] = from + float64(i)*step
	}
	return v
}

var c11Calls = []mc.Call{
	{"U([1 2 3],[4 5 6 7],differs)", func() string { return uTest([]float64{1, 2, 3}, []float64{4, 5, 6, 7}, LocationDiffers) }},
	{"U([4 5 6 7],[1 2 3],greater)", func() string { return uTest([]float64{4, 5, 6, 7}, []float64{1, 2, 3}, LocationGreater) }},
	{"U([1 1 2],[1 2 2 3],less)", func() string { return uTest([]float64{1, 1, 2}, []float64{1, 2, 2, 3}, LocationLess) }},
	{"U([1 1 2],[1 2 2 3],differs)", func() string { return uTest([]float64{1, 1, 2}, []float64{1, 2, 2, 3}, LocationDiffers) }},
	{"U(n=10,n=10,differs)", func() string { return uTest(seq(10, 1, 2), seq(10, 2, 2), LocationDiffers) }},
	{"U(n=51,n=51,differs)", func() string { return uTest(seq(51, 1, 2), seq(51, 20, 2), LocationDiffers) }},
	{"U(n=26 tied,n=26,greater)", func() string { return uTest(seq(26, 1, 0.5), seq(26, 1, 1), LocationGreater) }},
	{"U(all equal)", func() string { return uTest([]float64{1, 1}, []float64{1, 1}, LocationDiffers) }},
	{"UDist{5,7}.CDF(3), PMF(17)", func() string { d := UDist{N1: 5, N2: 7}; return fmt.Sprint(d.CDF(3), d.PMF(17), d.CDF(31)) }},
	{"UDist{3,4,T=[2 2 3]}.CDF(2.5)", func() string {
		d := UDist{N1: 3, N2: 4, T: []int{2, 2, 3}}
		return fmt.Sprint(d.CDF(2.5), d.PMF(6), d.CDF(12))
	}},
	{"UDist{2,2,T=[3 1]}.CDF(0)", func() string { d := UDist{N1: 2, N2: 2, T: []int{3, 1}}; return fmt.Sprint(d.CDF(0), d.PMF(1)) }},
}

func TestVerifC11Fresh(t *testing.T) {
	if !mc.FirstCallsChild(c11Calls, "VERIF_C11_CALLS") {
		t.Skip()
	}
}
