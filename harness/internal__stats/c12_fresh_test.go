//go:build verif

package stats

import (
	"fmt"
	"testing"

	mc "golang.org/x/perf/internal/verifmc"
)

// ---- C12: first calls of a fresh process (see mc.FirstCalls) ----

func tt(r *TTestResult, err error) string {
	if err != nil {
		return "error: " + err.Error()
	}
	return fmt.Sprintf("t=%v dof=%v p=%v", r.T, r.DoF, r.P)
}

var c12Calls = []mc.Call{
	{"TDist{5}.CDF(1.5)", func() string { return fmt.Sprint(TDist{5}.CDF(1.5), TDist{5}.CDF(-1.5)) }},
	{"TDist{1e5}.CDF(2)", func() string { return fmt.Sprint(TDist{1e5}.CDF(2)) }},
	{"TDist{2.5}.PDF(0.3)", func() string { return fmt.Sprint(TDist{2.5}.PDF(0.3)) }},
	{"InvCDF(TDist{7})(0.975)", func() string { return fmt.Sprint(InvCDF(TDist{7})(0.975)) }},
	{"StdNormal.CDF/InvCDF", func() string { return fmt.Sprint(StdNormal.CDF(1.25), StdNormal.InvCDF(0.01), StdNormal.PDF(0.5)) }},
	{"Welch", func() string {
		return tt(TwoSampleWelchTTest(Sample{Xs: []float64{1, 2, 3, 5}}, Sample{Xs: []float64{2, 4, 6, 9, 11}}, LocationDiffers))
	}},
	{"Pooled", func() string {
		return tt(TwoSampleTTest(Sample{Xs: []float64{1, 2, 3, 5}}, Sample{Xs: []float64{2, 4, 6, 9, 11}}, LocationLess))
	}},
	{"Paired", func() string {
		return tt(PairedTTest([]float64{1, 2, 3, 5}, []float64{2, 4, 6, 9}, 0, LocationGreater))
	}},
	{"OneSample", func() string { return tt(OneSampleTTest(Sample{Xs: []float64{1, 2, 3, 5}}, 2, LocationDiffers)) }},
	{"Mean/Variance/GeoMean/Bounds", func() string {
		x := []float64{3, 1e8, 1e-8, 0.3, 7}
		lo, hi := Bounds(x)
		return fmt.Sprint(Mean(x), Variance(x), StdDev(x), GeoMean(x), lo, hi)
	}},
	{"Percentile/IQR unsorted", func() string {
		s := Sample{Xs: []float64{9, 1, 4, 4, 7, 2}}
		return fmt.Sprint(s.Percentile(0.25), s.Percentile(0.5), s.Percentile(0.9), s.IQR())
	}},
	{"Percentile sorted", func() string {
		s := Sample{Xs: []float64{1, 2, 4, 4, 7, 9}, Sorted: true}
		return fmt.Sprint(s.Percentile(0), s.Percentile(1.0/3), s.Percentile(1))
	}},
}

func TestVerifC12Fresh(t *testing.T) {
	if !mc.FirstCallsChild(c12Calls, "VERIF_C12_CALLS") {
		t.Skip()
	}
}
