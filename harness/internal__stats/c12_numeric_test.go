//go:build verif

package stats

import (
	"encoding/json"
	"fmt"
	"math"
	"math/big"
	"os"
	"sort"
	"testing"

	mc "golang.org/x/perf/internal/verifmc"
)

// ---- C12: distributions, t-tests and descriptive statistics ----

func c12Nus() []float64 {
	var nus []float64
	for v := 1.0; v <= 30; v += 0.5 {
		nus = append(nus, v)
	}
	for v := 40.0; v <= 100; v += 10 {
		nus = append(nus, v)
	}
	nus = append(nus, 200, 500, 1e3, 1e4, 1e5, 1.0000001, 2.5e4, 99999.5, 3.3333)
	return nus
}

func c12Xs() []float64 {
	xs := []float64{0}
	for j := 0; j <= 24; j++ {
		xs = append(xs, math.Ldexp(1e-3, j))
	}
	for k := 1; k <= 400; k++ {
		xs = append(xs, float64(k)/8)
	}
	sort.Float64s(xs)
	return xs
}

// simpson integrates f over [a,b] with n (even) intervals.
func simpson(f func(float64) float64, a, b float64, n int) float64 {
	h := (b - a) / float64(n)
	s := f(a) + f(b)
	for i := 1; i < n; i++ {
		if i%2 == 1 {
			s += 4 * f(a+float64(i)*h)
		} else {
			s += 2 * f(a+float64(i)*h)
		}
	}
	return s * h / 3
}

type c12DistCase struct {
	Kind string
	Nu   float64
}

// c12CheckT checks the Student-t distribution for one ν over the x lattice.
func c12CheckT(nu float64) string {
	d := TDist{nu}
	xs := c12Xs()
	prev := 0.5
	prevX := 0.0
	inv := InvCDF(d)
	for _, x := range xs {
		f := d.CDF(x)
		if math.IsNaN(f) || f < 0 || f > 1 {
			return fmt.Sprintf("TDist{%v}.CDF(%v) = %v", nu, x, f)
		}
		if f < prev-1e-13 {
			return fmt.Sprintf("TDist{%v}.CDF not monotone: F(%v)=%v < F(%v)=%v", nu, x, f, prevX, prev)
		}
		g := d.CDF(-x)
		if !(math.Abs(g-(1-f)) <= 1e-12) {
			return fmt.Sprintf("TDist{%v}: F(-%v)=%v but 1-F(%v)=%v", nu, x, g, x, 1-f)
		}
		// closed forms for ν = 1, 2
		switch nu {
		case 1:
			if w := 0.5 + math.Atan(x)/math.Pi; !(math.Abs(f-w) <= 1e-12) {
				return fmt.Sprintf("TDist{1}.CDF(%v) = %v, Cauchy closed form %v", x, f, w)
			}
		case 2:
			if w := 0.5 + x/(2*math.Sqrt(2+x*x)); !(math.Abs(f-w) <= 1e-12) {
				return fmt.Sprintf("TDist{2}.CDF(%v) = %v, closed form %v", x, f, w)
			}
		}
		// numerical integration of the density on moderate x
		if x > 0 && x <= 50 {
			n := 2000
			if x > 10 {
				n = 20000
			}
			// !(… <= tol) rather than (… > tol): a density that is NaN (or an integral that is) must not pass
			if w := 0.5 + simpson(d.PDF, 0, x, n); !(math.Abs(f-w) <= 1e-7) {
				return fmt.Sprintf("TDist{%v}.CDF(%v) = %v, integral of the density %v", nu, x, f, w)
			}
		}
		if pdf := d.PDF(x); math.IsNaN(pdf) || pdf < 0 || math.IsInf(pdf, 0) {
			return fmt.Sprintf("TDist{%v}.PDF(%v) = %v", nu, x, pdf)
		}
		// inverse
		if pdf := d.PDF(x); pdf > 1e-6 && f < 1-1e-9 {
			xi := inv(f)
			// The inverse is judged in the domain of F (F(F⁻¹(p)) = p) and,
			// where F is well conditioned, in x up to the resolution of F
			// itself (its continued fraction stops at 3e-14 and its argument
			// ν/(ν+x²) rounds to 1 for x² < ν·2⁻⁵³).
			if back := d.CDF(xi); !(math.Abs(back-f) <= 1e-9) {
				return fmt.Sprintf("CDF(InvCDF(TDist{%v})(%v)) = %v", nu, f, back)
			}
			if !(math.Abs(xi-x) <= 1e-5*(1+math.Abs(x))+math.Sqrt(nu)*3e-8) {
				return fmt.Sprintf("InvCDF(TDist{%v})(CDF(%v)=%v) = %v", nu, x, f, xi)
			}
		}
		prev, prevX = f, x
		// beta symmetry on the arguments this evaluation used
		if x > 0 {
			bx, a, b := nu/(nu+x*x), nu/2, 0.5
			i1 := mathBetaInc(bx, a, b)
			i2 := mathBetaInc(1-bx, b, a)
			// 1e-12, plus the absolute resolution of exp(lgamma(a+b)-lgamma(a)-…)
			// for large parameters (lgamma(a) ≈ a·ln a is only known to one ulp).
			btol := 1e-12 + 8*ulp*a*math.Log(a+2)
			if math.IsNaN(i1) || math.IsNaN(i2) || !(math.Abs(i1-(1-i2)) <= btol) {
				return fmt.Sprintf("I_%v(%v,%v) = %v but 1 - I_%v(%v,%v) = %v", bx, a, b, i1, 1-bx, b, a, 1-i2)
			}
			if i1 < -1e-15 || i1 > 1+1e-15 {
				return fmt.Sprintf("I_%v(%v,%v) = %v outside [0,1]", bx, a, b, i1)
			}
		}
	}
	return ""
}

func c12CheckNormal(mu, sigma float64) string {
	d := NormalDist{mu, sigma}
	prev := 0.0
	for k := -320; k <= 320; k++ {
		z := float64(k) / 8
		x := mu + sigma*z
		f := d.CDF(x)
		if math.IsNaN(f) || f < 0 || f > 1 {
			return fmt.Sprintf("NormalDist{%v,%v}.CDF(%v) = %v", mu, sigma, x, f)
		}
		if f < prev {
			return fmt.Sprintf("NormalDist{%v,%v}.CDF not monotone at %v", mu, sigma, x)
		}
		prev = f
		g := d.CDF(mu - sigma*z)
		if !(math.Abs(g-(1-f)) <= 1e-15+1e-12*math.Min(f, g)) {
			return fmt.Sprintf("NormalDist{%v,%v}: F(mu-%vσ)=%v, 1-F(mu+%vσ)=%v", mu, sigma, z, g, z, 1-f)
		}
		if z > 0 && z <= 8 {
			if w := 0.5 + simpson(d.PDF, mu, x, 4000); !(math.Abs(f-w) <= 1e-9) {
				return fmt.Sprintf("NormalDist{%v,%v}.CDF(%v) = %v, integral of the density %v", mu, sigma, x, f, w)
			}
		}
		if f > 1e-300 && f < 1-1e-12 {
			xi := d.InvCDF(f)
			// conditioning: p is only known to one ulp, which moves x by ulp(p)/density
			tol := 1e-9*sigma*(1+math.Abs(z)) + 4*(math.Nextafter(f, 2)-f)/d.PDF(x)
			if !(math.Abs(xi-x) <= tol) {
				return fmt.Sprintf("NormalDist{%v,%v}.InvCDF(CDF(%v)=%v) = %v", mu, sigma, x, f, xi)
			}
		}
	}
	for _, p := range []float64{0, 1} {
		x := d.InvCDF(p)
		if !math.IsInf(x, int(2*p-1)) {
			return fmt.Sprintf("InvCDF(%v) = %v", p, x)
		}
	}
	for k := 1; k < 1000; k++ {
		p := float64(k) / 1000
		if got := d.CDF(d.InvCDF(p)); !(math.Abs(got-p) <= 1e-12) {
			return fmt.Sprintf("NormalDist{%v,%v}: CDF(InvCDF(%v)) = %v", mu, sigma, p, got)
		}
	}
	return ""
}

func c12Dists(c *mc.Check) {
	replay := func(raw json.RawMessage) string {
		var cs c12DistCase
		json.Unmarshal(raw, &cs)
		var msg string
		if p := mc.Catch(func() {
			if cs.Kind == "t" {
				msg = c12CheckT(cs.Nu)
			} else {
				msg = c12CheckNormal(0, cs.Nu)
			}
		}); p != "" {
			return p
		}
		return msg
	}
	nus := c12Nus()
	f := c.Family("distributions", fmt.Sprintf("Student-t for %d values of ν (1…30 by halves, 40…100, up to 1e5, non-integers) × %d x values (0, ±2^j·1e-3 for j≤24, ±k/8 for k≤400): no panic/NaN, range, monotone, F(−x)=1−F(x), closed forms for ν=1,2, composite Simpson integration of the density (1e-7), generic inverse, beta symmetry I_x(a,b)=1−I_{1−x}(b,a) on every argument used; normal distribution for 6 (μ,σ): the same plus the rational-approximation inverse; non-trivial = every (distribution, x) evaluation", len(nus), 2*len(c12Xs())-1), replay)
	if c.Replaying() {
		return
	}
	f.Bounds["nus"] = len(nus)
	mc.ParRange(uint64(len(nus)), 1, c.TimeUp, func(w int, lo, hi uint64) {
		for i := lo; i < hi; i++ {
			var msg string
			if p := mc.Catch(func() { msg = c12CheckT(nus[i]) }); p != "" {
				msg = p
			}
			n := int64(len(c12Xs()))
			f.Count(n, n)
			f.Outcome(fmt.Sprintf("t ok=%v", msg == ""), 1)
			if msg != "" {
				c.Fail(f, "tdist", c12DistCase{"t", nus[i]}, msg)
			}
		}
	})
	for _, ms := range [][2]float64{{0, 1}, {5, 2}, {-3, 0.01}, {1e6, 1e3}, {0, 1e-8}, {-1, 7}} {
		var msg string
		if p := mc.Catch(func() { msg = c12CheckNormal(ms[0], ms[1]) }); p != "" {
			msg = p
		}
		f.Count(641, 641)
		f.Outcome(fmt.Sprintf("normal ok=%v", msg == ""), 1)
		if msg != "" {
			c.Fail(f, "normaldist", c12DistCase{"normal", ms[1]}, msg)
		}
	}
	f.Sample(c12DistCase{"t", 7.5})
	f.Done()
}

// ---- t-tests ----

func ratOf(x float64) *big.Rat { return new(big.Rat).SetFloat64(x) }

func ratMean(xs []float64) *big.Rat {
	s := new(big.Rat)
	for _, x := range xs {
		s.Add(s, ratOf(x))
	}
	return s.Quo(s, big.NewRat(int64(len(xs)), 1))
}

func ratVar(xs []float64) *big.Rat {
	if len(xs) < 2 {
		return new(big.Rat)
	}
	m := ratMean(xs)
	s := new(big.Rat)
	for _, x := range xs {
		d := new(big.Rat).Sub(ratOf(x), m)
		s.Add(s, d.Mul(d, d))
	}
	return s.Quo(s, big.NewRat(int64(len(xs)-1), 1))
}

func ratF64(r *big.Rat) float64 { f, _ := r.Float64(); return f }

// tClose compares a t statistic with its exact value: 1e-11 relative plus the
// unavoidable cancellation error of a float64 difference of means, a few ulps
// of the data's scale divided by the standard error.
func tClose(got, want float64, xs1, xs2 []float64, se2 *big.Rat) bool {
	scale := 0.0
	for _, x := range append(append([]float64{}, xs1...), xs2...) {
		scale = math.Max(scale, math.Abs(x))
	}
	se := math.Sqrt(ratF64(se2))
	// The standard error itself is conditioned by scale/se as well.
	rel := 1e-11 + 64*ulp*scale/se
	return math.Abs(got-want) <= rel*math.Abs(want)+64*ulp*scale/se
}

func relClose(a, b, tol float64) bool {
	if a == b {
		return true
	}
	return math.Abs(a-b) <= tol*math.Max(math.Abs(a), math.Abs(b))
}

// checkTails verifies the p-value conventions of a t-test result against the
// t distribution of its own degrees of freedom.
func checkTails(name string, rs [3]*TTestResult) string {
	less, diff, greater := rs[0], rs[1], rs[2]
	if !(math.Abs(less.P+greater.P-1) <= 1e-12) {
		return fmt.Sprintf("%s: P_less + P_greater = %v", name, less.P+greater.P)
	}
	d := TDist{diff.DoF}
	if w := 2 * (1 - d.CDF(math.Abs(diff.T))); !(math.Abs(diff.P-w) <= 1e-12) {
		return fmt.Sprintf("%s: two-sided p = %v, twice the upper tail of |t| = %v", name, diff.P, w)
	}
	if w := d.CDF(less.T); !(math.Abs(less.P-w) <= 1e-12) {
		return fmt.Sprintf("%s: P_less = %v, CDF(t) = %v", name, less.P, w)
	}
	for _, r := range rs {
		if math.IsNaN(r.P) || r.P < -1e-15 || r.P > 1+1e-12 {
			return fmt.Sprintf("%s: p = %v", name, r.P)
		}
	}
	// closed forms of the tail for 1 and 2 degrees of freedom. Tolerance
	// 1e-8: the t distribution function is evaluated through I(ν/(ν+t²)),
	// whose argument loses the information in t² for |t| ≪ 1, so its absolute
	// accuracy near t=0 is about 3e-9·√ν rather than 1e-14.
	switch diff.DoF {
	case 1:
		if w := 0.5 + math.Atan(less.T)/math.Pi; !(math.Abs(less.P-w) <= 1e-8) {
			return fmt.Sprintf("%s: P_less = %v, closed form for 1 degree of freedom %v", name, less.P, w)
		}
	case 2:
		if w := 0.5 + less.T/(2*math.Sqrt(2+less.T*less.T)); !(math.Abs(less.P-w) <= 1e-8) {
			return fmt.Sprintf("%s: P_less = %v, closed form for 2 degrees of freedom %v", name, less.P, w)
		}
	}
	return ""
}

var alts = []LocationHypothesis{LocationLess, LocationDiffers, LocationGreater}

func c12CheckTTests(x1, x2 []float64) string {
	s1, s2 := Sample{Xs: x1}, Sample{Xs: x2}
	n1, n2 := int64(len(x1)), int64(len(x2))
	m1, m2, v1, v2 := ratMean(x1), ratMean(x2), ratVar(x1), ratVar(x2)
	dm := new(big.Rat).Sub(m1, m2)
	sign := float64(dm.Sign())
	zero := v1.Sign() == 0 && v2.Sign() == 0
	// Welch
	{
		var rs [3]*TTestResult
		var err error
		for i, a := range alts {
			rs[i], err = TwoSampleWelchTTest(s1, s2, a)
			if n1 <= 1 || n2 <= 1 {
				if err != ErrSampleSize {
					return fmt.Sprintf("Welch(%v,%v): undersized sample but err=%v", x1, x2, err)
				}
			} else if zero {
				if err != ErrZeroVariance {
					return fmt.Sprintf("Welch(%v,%v): zero variance but err=%v", x1, x2, err)
				}
			} else if err != nil {
				return fmt.Sprintf("Welch(%v,%v): %v", x1, x2, err)
			}
		}
		if err == nil {
			a := new(big.Rat).Quo(v1, big.NewRat(n1, 1))
			b := new(big.Rat).Quo(v2, big.NewRat(n2, 1))
			se2 := new(big.Rat).Add(a, b)
			t2 := new(big.Rat).Quo(new(big.Rat).Mul(dm, dm), se2)
			wantT := sign * math.Sqrt(ratF64(t2))
			num := new(big.Rat).Mul(se2, se2)
			den := new(big.Rat).Add(new(big.Rat).Quo(new(big.Rat).Mul(a, a), big.NewRat(n1-1, 1)), new(big.Rat).Quo(new(big.Rat).Mul(b, b), big.NewRat(n2-1, 1)))
			wantNu := ratF64(new(big.Rat).Quo(num, den))
			for _, r := range rs {
				if !tClose(r.T, wantT, x1, x2, se2) || !relClose(r.DoF, wantNu, 1e-9) || r.N1 != int(n1) || r.N2 != int(n2) {
					return fmt.Sprintf("Welch(%v,%v): t=%v ν=%v n=%d,%d; textbook t=%v ν=%v", x1, x2, r.T, r.DoF, r.N1, r.N2, wantT, wantNu)
				}
			}
			if m := checkTails(fmt.Sprintf("Welch(%v,%v)", x1, x2), rs); m != "" {
				return m
			}
		}
	}
	// pooled
	{
		var rs [3]*TTestResult
		var err error
		for i, a := range alts {
			rs[i], err = TwoSampleTTest(s1, s2, a)
		}
		// The pooled test needs n1+n2 > 2 degrees of freedom to be defined.
		if zero {
			if err != ErrZeroVariance {
				return fmt.Sprintf("pooled(%v,%v): zero variance but err=%v", x1, x2, err)
			}
		} else if err != nil {
			return fmt.Sprintf("pooled(%v,%v): %v", x1, x2, err)
		} else {
			dof := n1 + n2 - 2
			pv := new(big.Rat).Add(new(big.Rat).Mul(big.NewRat(n1-1, 1), v1), new(big.Rat).Mul(big.NewRat(n2-1, 1), v2))
			pv.Quo(pv, big.NewRat(dof, 1))
			se2 := new(big.Rat).Mul(pv, new(big.Rat).Add(big.NewRat(1, n1), big.NewRat(1, n2)))
			t2 := new(big.Rat).Quo(new(big.Rat).Mul(dm, dm), se2)
			wantT := sign * math.Sqrt(ratF64(t2))
			for _, r := range rs {
				if !tClose(r.T, wantT, x1, x2, se2) || r.DoF != float64(dof) {
					return fmt.Sprintf("pooled(%v,%v): t=%v ν=%v; textbook t=%v ν=%v", x1, x2, r.T, r.DoF, wantT, dof)
				}
			}
			if m := checkTails(fmt.Sprintf("pooled(%v,%v)", x1, x2), rs); m != "" {
				return m
			}
		}
	}
	// paired (equal lengths) and one-sample (on x1, against μ0 ∈ {0, 2})
	if len(x1) == len(x2) {
		diff := make([]float64, len(x1))
		dr := make([]*big.Rat, len(x1))
		for i := range x1 {
			diff[i] = x1[i] - x2[i]
			dr[i] = new(big.Rat).Sub(ratOf(x1[i]), ratOf(x2[i]))
		}
		for _, mu0 := range []float64{0, 0.5} {
			var rs [3]*TTestResult
			var err error
			for i, a := range alts {
				rs[i], err = PairedTTest(x1, x2, mu0, a)
			}
			vd := ratVar(diff) // the implementation works on float differences; the values are small integers or exactly representable
			if len(x1) <= 1 {
				if err != ErrSampleSize {
					return fmt.Sprintf("paired(%v,%v): undersized but err=%v", x1, x2, err)
				}
			} else if vd.Sign() == 0 {
				if err != ErrZeroVariance {
					return fmt.Sprintf("paired(%v,%v): zero variance of differences but err=%v", x1, x2, err)
				}
			} else if err != nil {
				return fmt.Sprintf("paired(%v,%v): %v", x1, x2, err)
			} else {
				md := ratMean(diff)
				num := new(big.Rat).Sub(md, ratOf(mu0))
				t2 := new(big.Rat).Mul(num, num)
				t2.Mul(t2, big.NewRat(n1, 1))
				t2.Quo(t2, vd)
				wantT := float64(num.Sign()) * math.Sqrt(ratF64(t2))
				se2 := new(big.Rat).Quo(vd, big.NewRat(n1, 1))
				for _, r := range rs {
					if !tClose(r.T, wantT, x1, x2, se2) || r.DoF != float64(n1-1) {
						return fmt.Sprintf("paired(%v,%v,μ0=%v): t=%v ν=%v; textbook t=%v ν=%d", x1, x2, mu0, r.T, r.DoF, wantT, n1-1)
					}
				}
				if m := checkTails(fmt.Sprintf("paired(%v,%v)", x1, x2), rs); m != "" {
					return m
				}
			}
		}
	}
	for _, mu0 := range []float64{0, 2} {
		var rs [3]*TTestResult
		var err error
		for i, a := range alts {
			rs[i], err = OneSampleTTest(s1, mu0, a)
		}
		if v1.Sign() == 0 {
			if err != ErrZeroVariance {
				return fmt.Sprintf("one-sample(%v): zero variance but err=%v", x1, err)
			}
			continue
		}
		if err != nil {
			return fmt.Sprintf("one-sample(%v): %v", x1, err)
		}
		num := new(big.Rat).Sub(m1, ratOf(mu0))
		t2 := new(big.Rat).Mul(num, num)
		t2.Mul(t2, big.NewRat(n1, 1))
		t2.Quo(t2, v1)
		wantT := float64(num.Sign()) * math.Sqrt(ratF64(t2))
		se2 := new(big.Rat).Quo(v1, big.NewRat(n1, 1))
		for _, r := range rs {
			if !tClose(r.T, wantT, x1, []float64{mu0}, se2) || r.DoF != float64(n1-1) {
				return fmt.Sprintf("one-sample(%v,μ0=%v): t=%v ν=%v; textbook t=%v ν=%d", x1, mu0, r.T, r.DoF, wantT, n1-1)
			}
		}
		if m := checkTails(fmt.Sprintf("one-sample(%v)", x1), rs); m != "" {
			return m
		}
	}
	return ""
}

type c12PairCase struct{ X1, X2 []float64 }

func c12TTests(c *mc.Check, maxN int) {
	vals := []float64{1, 2, 3, 5, 8, 1e6, 1e-6}
	replay := func(raw json.RawMessage) string {
		var cs c12PairCase
		json.Unmarshal(raw, &cs)
		var msg string
		if p := mc.Catch(func() { msg = c12CheckTTests(cs.X1, cs.X2) }); p != "" {
			return p
		}
		return msg
	}
	f := c.Family("t-tests", fmt.Sprintf("every pair of multisets of size 1…%d over %v, plus structured larger samples: Welch, pooled, paired and one-sample statistic and degrees of freedom against exact-rational textbook formulas (1e-11 relative), tails consistent (P_less+P_greater=1, two-sided = twice the upper tail of |t|, closed forms for 1 and 2 degrees of freedom), undersized/zero-variance inputs reported as the documented errors; non-trivial = pairs with non-zero variance", maxN, vals), replay)
	if c.Replaying() {
		return
	}
	var sets [][]float64
	for n := 1; n <= maxN; n++ {
		mc.Multisets(len(vals), n, func(m []int) {
			s := make([]float64, n)
			for i, k := range m {
				s[i] = vals[k]
			}
			sets = append(sets, s)
		})
	}
	// structured larger samples
	for _, n := range []int{10, 31, 100, 300} {
		a := make([]float64, n)
		b := make([]float64, n)
		for i := range a {
			a[i] = float64(i%7) + float64(i)/1024
			b[i] = float64((i*i)%11) * 1.5
		}
		sets = append(sets, a, b)
	}
	f.Bounds["samples"] = len(sets)
	mc.ParRange(uint64(len(sets)), 1, c.TimeUp, func(w int, lo, hi uint64) {
		l := f.Local()
		for i := lo; i < hi; i++ {
			for _, x2 := range sets {
				x1 := sets[i]
				var msg string
				if p := mc.Catch(func() { msg = c12CheckTTests(x1, x2) }); p != "" {
					msg = p
				}
				l.Evals++
				if Variance(x1) != 0 || Variance(x2) != 0 {
					l.Nontrivial++
					l.Outcome("tested")
				} else {
					l.Outcome("zero-variance")
				}
				if msg != "" {
					c.Fail(f, "ttest", c12PairCase{x1, x2}, msg)
				}
			}
		}
		l.Flush()
	})
	f.Sample(c12PairCase{[]float64{1, 2, 3}, []float64{2, 5, 8, 8}})
	f.Done()
}

// ---- descriptive statistics ----

// 1000000.1 and 0.3 have significands for which a weighted average
// (1-f)·x + f·x of two equal values does not return x.
var c12Vals = []float64{1, 1 + 1.0/(1<<40), 3, -2, 1e8, 1e-8, 1e15 + 1, 0, 1000000.1, 0.3}

const ulp = 1.0 / (1 << 52)

func c12CheckSample(xs []float64) string {
	n := float64(len(xs))
	scale := 0.0
	mn, mx := math.Inf(1), math.Inf(-1)
	for _, x := range xs {
		scale = math.Max(scale, math.Abs(x))
		mn, mx = math.Min(mn, x), math.Max(mx, x)
	}
	s := Sample{Xs: xs}
	gmn, gmx := s.Bounds()
	if gmn != mn || gmx != mx {
		return fmt.Sprintf("Bounds(%v) = %v,%v", xs, gmn, gmx)
	}
	if b0, b1 := Bounds(xs); b0 != mn || b1 != mx {
		return fmt.Sprintf("Bounds(%v) = %v,%v", xs, b0, b1)
	}
	wm := ratF64(ratMean(xs))
	if got := s.Mean(); !(math.Abs(got-wm) <= 4*(n+2)*ulp*scale) {
		return fmt.Sprintf("Mean(%v) = %v, exact %v", xs, got, wm)
	}
	if got := Mean(xs); got < mn-4*(n+2)*ulp*scale || got > mx+4*(n+2)*ulp*scale {
		return fmt.Sprintf("Mean(%v) = %v outside [min,max]", xs, got)
	}
	wv := ratF64(ratVar(xs))
	// (a variance too large for a float64 is +Inf on both sides: equal, though their difference is NaN; the
	// tolerance scale² may itself be +Inf, which then accepts any finite value — the mean and the bounds above are
	// what such samples are about)
	if got := s.Variance(); (got != wv && !(math.Abs(got-wv) <= 8*(n+2)*ulp*scale*scale)) || got < 0 {
		return fmt.Sprintf("Variance(%v) = %v, exact %v", xs, got, wv)
	}
	if got := s.StdDev(); got*got != wv && !(math.Abs(got*got-wv) <= 16*(n+2)*ulp*scale*scale) {
		return fmt.Sprintf("StdDev(%v)² = %v, exact variance %v", xs, got*got, wv)
	}
	// geometric mean
	pos := true
	for _, x := range xs {
		if x <= 0 {
			pos = false
		}
	}
	g := s.GeoMean()
	if !pos {
		if !math.IsNaN(g) {
			return fmt.Sprintf("GeoMean(%v) = %v for non-positive data", xs, g)
		}
	} else {
		sum := 0.0
		// log-domain reference with compensated summation in higher precision
		bs := new(big.Float).SetPrec(200)
		for _, x := range xs {
			bs.Add(bs, new(big.Float).SetPrec(200).SetFloat64(math.Log(x)))
			sum += math.Log(x)
		}
		ref, _ := new(big.Float).Quo(bs, new(big.Float).SetPrec(200).SetFloat64(n)).Float64()
		w := math.Exp(ref)
		if g < mn*(1-1e-13) || g > mx*(1+1e-13) || !relClose(g, w, 1e-12) {
			return fmt.Sprintf("GeoMean(%v) = %v, reference %v, min %v max %v", xs, g, w, mn, mx)
		}
	}
	// R8 percentiles against exact rationals
	sorted := append([]float64{}, xs...)
	sort.Float64s(sorted)
	sortedS := Sample{Xs: sorted, Sorted: true}
	prev := math.Inf(-1)
	for k := 0; k <= 64; k++ {
		p := float64(k) / 64
		got := s.Percentile(p)
		if g2 := sortedS.Percentile(p); g2 != got {
			return fmt.Sprintf("Percentile(%v) of %v: unsorted input gives %v, sorted input %v", p, xs, got, g2)
		}
		var want float64
		switch {
		case k == 0:
			want = mn
		case k == 64:
			want = mx
		default:
			N := big.NewRat(int64(len(xs)), 1)
			h := new(big.Rat).Add(N, big.NewRat(1, 3))
			h.Mul(h, big.NewRat(int64(k), 64))
			h.Add(h, big.NewRat(1, 3))
			fl := new(big.Int).Quo(h.Num(), h.Denom())
			ki := int(fl.Int64())
			frac := new(big.Rat).Sub(h, new(big.Rat).SetInt(fl))
			switch {
			case ki <= 0:
				want = sorted[0]
			case ki >= len(sorted):
				want = sorted[len(sorted)-1]
			default:
				d := new(big.Rat).Sub(ratOf(sorted[ki]), ratOf(sorted[ki-1]))
				d.Mul(d, frac)
				d.Add(d, ratOf(sorted[ki-1]))
				want = ratF64(d)
			}
		}
		if !(math.Abs(got-want) <= 8*(n+2)*ulp*scale) {
			return fmt.Sprintf("Percentile(%v) of %v = %v, exact R8 value %v", p, xs, got, want)
		}
		if got < mn || got > mx {
			return fmt.Sprintf("Percentile(%v) of %v = %v outside [%v,%v]", p, xs, got, mn, mx)
		}
		if got < prev-8*(n+2)*ulp*scale {
			return fmt.Sprintf("Percentile of %v not monotone in p at %v: %v after %v", xs, p, got, prev)
		}
		prev = got
	}
	if iqr := s.IQR(); !(math.Abs(iqr-(s.Percentile(0.75)-s.Percentile(0.25))) <= 0) {
		return fmt.Sprintf("IQR(%v) = %v", xs, iqr)
	}
	// a buffer that is asked, refilled in place and asked again (a reused read buffer, in-place rescaling): the
	// answers are those of the values it holds now
	buf := append([]float64{}, xs...)
	bs := Sample{Xs: buf}
	bs.Percentile(0.5)
	bs.Percentile(0.25)
	for i := range buf {
		buf[i] = xs[len(xs)-1-i]*1000 + float64(i)
	}
	fresh := Sample{Xs: append([]float64{}, buf...)}
	for _, p := range []float64{0.25, 0.5, 0.75, 0.1} {
		if got, want := bs.Percentile(p), fresh.Percentile(p); got != want && !(math.IsNaN(got) && math.IsNaN(want)) {
			return fmt.Sprintf("Percentile(%v) of a slice refilled in place with %v = %v, a fresh slice of the same values gives %v", p, buf, got, want)
		}
	}
	return ""
}

func c12Samples(c *mc.Check, maxLen int) {
	replay := func(raw json.RawMessage) string {
		var xs []float64
		json.Unmarshal(raw, &xs)
		var msg string
		if p := mc.Catch(func() { msg = c12CheckSample(xs) }); p != "" {
			return p
		}
		return msg
	}
	f := c.Family("descriptive", fmt.Sprintf("every ordered sequence of length 1…%d over %v, plus structured samples up to n=300: mean, variance, standard deviation, bounds against exact rationals (a few ulps of the data's scale), geometric mean within [min,max] and 1e-12 of a high-precision evaluation (NaN for non-positive data), R8 percentiles for p=k/64 against exact rationals, monotone in p, bounded, identical for sorted and unsorted input; non-trivial = sequences with ≥2 distinct values", maxLen, c12Vals), replay)
	if c.Replaying() {
		return
	}
	en := mc.NewStrings(make([]string, len(c12Vals)), maxLen)
	mc.ParRange(en.Total(), 256, c.TimeUp, func(w int, lo, hi uint64) {
		l := f.Local()
		var sym []int
		for i := max(lo, 1); i < hi; i++ {
			sym = en.Symbols(i, sym)
			xs := make([]float64, len(sym))
			distinct := map[float64]bool{}
			for j, k := range sym {
				xs[j] = c12Vals[k]
				distinct[xs[j]] = true
			}
			var msg string
			if p := mc.Catch(func() { msg = c12CheckSample(xs) }); p != "" {
				msg = p
			}
			l.Evals++
			if len(distinct) >= 2 {
				l.Nontrivial++
			}
			l.Outcome(fmt.Sprintf("n=%d", len(xs)))
			if msg != "" {
				c.Fail(f, "descriptive", xs, msg)
			}
		}
		l.Flush()
	})
	// kinds 4–7: many values of one small or large magnitude (sec/op-sized, 1e-7; and 1e7), alone, ascending
	// small-then-large, and interleaved: their running product leaves the normal float range (into the subnormals,
	// to zero, or to +Inf) although their geometric mean is unremarkable
	for _, n := range []int{7, 10, 33, 40, 45, 46, 47, 48, 50, 92, 100, 299, 300} {
		for _, kind := range []int{0, 1, 2, 3, 4, 5, 6, 7, 8, 9} {
			xs := make([]float64, n)
			for i := range xs {
				switch kind {
				case 0:
					xs[i] = float64(i + 1)
				case 1:
					xs[i] = float64(n-i) * 1.25
				case 2:
					xs[i] = 1e9 + float64((i*7919)%n)/3
				case 3:
					xs[i] = math.Ldexp(1, (i*37)%60-30)
				case 4:
					xs[i] = 1e-7 * (1 + float64(i%5)/8)
				case 5:
					xs[i] = 1e7 * (1 + float64(i%5)/8)
				case 6:
					if i < n/2 {
						xs[i] = 1e-7 * (1 + float64(i%3)/4)
					} else {
						xs[i] = 1e7 * (1 + float64(i%3)/4)
					}
				case 7:
					if i%2 == 0 {
						xs[i] = 1.5e-7
					} else {
						xs[i] = 2.5e7
					}
				case 8:
					// finite values near the top of the range: their SUM is not representable, their mean is
					xs[i] = 1e306 * (1 + float64(i%5)/8)
				case 9:
					xs[i] = 1.2e308
					if i%3 == 0 {
						xs[i] = 1e300
					}
				}
			}
			var msg string
			if p := mc.Catch(func() { msg = c12CheckSample(xs) }); p != "" {
				msg = p
			}
			f.Count(1, 1)
			f.Outcome("structured", 1)
			if msg != "" {
				c.Fail(f, "descriptive", xs, msg)
			}
		}
	}
	if m := Mean(nil); !math.IsNaN(m) {
		c.Fail(f, "descriptive", []float64{}, "Mean of empty sample is not NaN")
	}
	f.Sample([]float64{1, 1e15 + 1, -2, 0})
	f.Done()
}

func TestVerifC12(t *testing.T) {
	c := mc.NewCheck("C12")
	c.Assume("continuous domains: exhaustive over the stated finite lattices with the stated tolerances, not a statement about all reals")
	c12Dists(c)
	c12TTests(c, mc.Pick(c, 4, 5))
	c12Samples(c, mc.Pick(c, 5, 6))
	c12Reuse(c)
	mc.FirstCalls(c, c12Calls, "TestVerifC12Fresh", "VERIF_C12_CALLS")
	if code := c.Finish(); code != 0 {
		os.Exit(code)
	}
}
