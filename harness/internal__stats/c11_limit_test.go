//go:build verif

package stats

import (
	"encoding/json"
	"fmt"
	"math/big"
	"sort"
	"sync"

	mc "golang.org/x/perf/internal/verifmc"
)

// groupedDist returns the same counts as bruteDist, but enumerates the
// assignments grouped by how many members of every tie group go to sample 1:
// an explicit-state search over states (groups decided, members given to
// sample 1, 2U so far) in which each transition "a of the t members of this
// group go to sample 1" carries the weight C(t,a) of the assignments it merges.
// Two assignments merged into one state have the same 2U so far and the same
// futures, so the counts are exact (big integers). groupedDist is validated
// against bruteDist on every tie vector small enough for both.
func groupedDist(tv []int, n1 int) (map[int]*big.Int, *big.Int, int, int) {
	N := 0
	for _, t := range tv {
		N += t
	}
	n2 := N - n1
	maxTU := 2 * n1 * n2
	// dp[k][tu]
	dp := make([][]*big.Int, n1+1)
	dp[0] = make([]*big.Int, maxTU+1)
	dp[0][0] = big.NewInt(1)
	states, trans := 1, 0
	sofar := 0
	for _, t := range tv {
		nx := make([][]*big.Int, n1+1)
		for k := 0; k <= n1; k++ {
			for tu, w := range dp[k] {
				if w == nil {
					continue
				}
				for a := 0; a <= t && k+a <= n1; a++ {
					b := t - a
					if (sofar-k)+b > n2 {
						continue
					}
					// each of the a members beats every sample-2 value decided earlier and ties with b
					ntu := tu + 2*a*(sofar-k) + a*b
					add := w
					if a != 0 && a != t {
						add = new(big.Int).Mul(w, new(big.Int).Binomial(int64(t), int64(a)))
					}
					trans++
					if nx[k+a] == nil {
						nx[k+a] = make([]*big.Int, maxTU+1)
					}
					if nx[k+a][ntu] == nil {
						nx[k+a][ntu] = new(big.Int).Set(add)
						states++
					} else {
						nx[k+a][ntu].Add(nx[k+a][ntu], add)
					}
				}
			}
		}
		dp = nx
		sofar += t
	}
	counts := map[int]*big.Int{}
	total := new(big.Int)
	for tu, w := range dp[n1] {
		if w != nil && w.Sign() != 0 {
			counts[tu] = w
			total.Add(total, w)
		}
	}
	return counts, total, states, trans
}

// c11GroupedKey identifies a distribution: it depends only on n1 and the tie vector.
func c11GroupedKey(x1, x2 []float64) (string, []int) {
	tv := tieVector(x1, x2)
	return fmt.Sprint("g", len(x1), tv), tv
}

// cacheFor returns a distCache in which c11CheckPair0 finds the grouped
// distribution of (x1, x2); shared (read-only, may be nil) holds
// distributions computed earlier.
func c11CacheFor(x1, x2 []float64, shared map[string]*bruteD) *distCache {
	key, tv := c11GroupedKey(x1, x2)
	d := shared[key]
	if d == nil {
		counts, total, _, _ := groupedDist(tv, len(x1))
		d = &bruteD{counts, total}
	}
	pooled := append(append([]float64{}, x1...), x2...)
	sort.Float64s(pooled)
	return &distCache{map[string]*bruteD{fmt.Sprint(len(x1), pooled): d}}
}

type c11LimitCase struct {
	N1, N2 int
	K1, K2 string
	Shift  float64
}

func c11LimitGen(n int, kind string, shift float64) []float64 {
	x := make([]float64, n)
	for i := range x {
		switch kind {
		case "distinct":
			x[i] = float64(2*i) + shift
		case "spread":
			x[i] = float64(7*i%101) + shift/3
		case "ties":
			x[i] = float64(i/3) + shift
		case "heavy":
			x[i] = float64(i%2) + shift
		case "onetie":
			x[i] = float64(2*i) + shift
			if i == 1 {
				x[i] = x[0]
			}
		}
	}
	return x
}

func c11LimitRun(cs c11LimitCase, shared map[string]*bruteD) (string, string) {
	x1, x2 := c11LimitGen(cs.N1, cs.K1, cs.Shift), c11LimitGen(cs.N2, cs.K2, 0)
	return c11CheckPairSig(x1, x2, c11CacheFor(x1, x2, shared))
}

// c11Compositions calls fn with every tie vector (composition) of N.
func c11Compositions(N int, fn func(tv []int)) {
	var rec func(rest int, cur []int)
	rec = func(rest int, cur []int) {
		if rest == 0 {
			fn(cur)
			return
		}
		for t := 1; t <= rest; t++ {
			rec(rest-t, append(cur, t))
		}
	}
	rec(N, nil)
}

func c11GroupedVsBrute(tv []int, n1 int) string {
	var pooled []float64
	for i, t := range tv {
		for j := 0; j < t; j++ {
			pooled = append(pooled, float64(i))
		}
	}
	bc, bt := bruteDist(pooled, n1)
	gc, gt, _, _ := groupedDist(tv, n1)
	if bt.Cmp(gt) != 0 || len(bc) != len(gc) {
		return fmt.Sprintf("reference search disagrees with brute force on T=%v n1=%d: totals %v vs %v, support %d vs %d", tv, n1, gt, bt, len(gc), len(bc))
	}
	for k, v := range bc {
		if g, ok := gc[k]; !ok || g.Cmp(v) != 0 {
			return fmt.Sprintf("reference search disagrees with brute force on T=%v n1=%d at 2U=%d: %v vs %v", tv, n1, k, g, v)
		}
	}
	return ""
}

func c11Limit(c *mc.Check) {
	confN := mc.Pick(c, 11, 13)
	replay := func(raw json.RawMessage) string {
		var cs c11LimitCase
		if err := json.Unmarshal(raw, &cs); err != nil {
			return err.Error()
		}
		var msg string
		if p := mc.Catch(func() { msg, _ = c11LimitRun(cs, nil) }); p != "" {
			return p
		}
		return msg
	}
	f := c.Family("sizes-at-the-exact-limits", fmt.Sprintf("samples whose sizes sit exactly at and one below the documented limits of the exact method, against a sample at the limit or a small one — untied: n ∈ {49, 50} against {1, 2, 3, 49, 50}; tied: n ∈ {24, 25} against {1, 2, 3, 24, 25}; plus untied samples of 26 and 37 values (above the tied limit, within the untied one) — × sample shapes {all distinct, scattered, one tied pair, runs of three, two values} × shifts {0, 0.5, 1, 30}: the same oracle as sample-pairs (U by definition, one-sided p = exact tail, two-sided = min(1, 2·min), invariance under swapping), with the exact distribution obtained by an explicit-state search over (tie groups decided, members given to sample 1, 2U so far) carrying exact big-integer assignment counts; that search is first compared with the brute-force enumeration of all C(N,n1) assignments for every tie vector with N ≤ %d and every n1; non-trivial = cases with a sample exactly at its limit", confN), replay)
	if c.Replaying() {
		return
	}
	// (1) conformance of the grouped search with brute force
	type cj struct {
		tv []int
		n1 int
	}
	var cjs []cj
	for N := 2; N <= confN; N++ {
		c11Compositions(N, func(tv []int) {
			for n1 := 1; n1 < N; n1++ {
				cjs = append(cjs, cj{append([]int{}, tv...), n1})
			}
		})
	}
	f.Bounds["reference_conformance_cases"] = len(cjs)
	done := mc.ParRange(uint64(len(cjs)), 64, c.TimeUp, func(w int, lo, hi uint64) {
		l := f.Local()
		for i := lo; i < hi; i++ {
			msg := c11GroupedVsBrute(cjs[i].tv, cjs[i].n1)
			l.Evals++
			l.Outcome("reference=brute-force")
			if msg != "" {
				c.Fail(f, "reference-search", cjs[i], msg)
			}
		}
		l.Flush()
	})
	if done < uint64(len(cjs)) {
		f.Capped(fmt.Sprintf("time cap: %d of %d conformance cases", done, len(cjs)))
	}
	// (2) the cases at the limits
	var cases []c11LimitCase
	add := func(sizes, others []int, k1s, k2s []string) {
		for _, n1 := range sizes {
			for _, n2 := range others {
				for _, k1 := range k1s {
					for _, k2 := range k2s {
						for _, sh := range []float64{0, 0.5, 1, 30} {
							cases = append(cases, c11LimitCase{n1, n2, k1, k2, sh}, c11LimitCase{n2, n1, k2, k1, sh})
						}
					}
				}
			}
		}
	}
	untied := []string{"distinct", "spread"}
	tied := []string{"onetie", "ties", "heavy"}
	add([]int{49, 50}, []int{1, 2, 3, 49, 50}, untied, []string{"distinct"})
	add([]int{26, 37}, []int{2, 26}, untied, []string{"distinct"})
	add([]int{24, 25}, []int{1, 2, 3, 24, 25}, tied, []string{"distinct", "ties"})
	add([]int{24, 25}, []int{3, 25}, untied, []string{"onetie", "heavy"})
	f.Bounds["limit_cases"] = len(cases)
	// the distinct distributions, each computed once
	type dj struct {
		key string
		tv  []int
		n1  int
	}
	var djs []dj
	seen := map[string]bool{}
	for _, cs := range cases {
		x1, x2 := c11LimitGen(cs.N1, cs.K1, cs.Shift), c11LimitGen(cs.N2, cs.K2, 0)
		key, tv := c11GroupedKey(x1, x2)
		if !seen[key] {
			seen[key] = true
			djs = append(djs, dj{key, tv, cs.N1})
		}
	}
	sort.Slice(djs, func(i, j int) bool { return djs[i].n1*len(djs[i].tv) > djs[j].n1*len(djs[j].tv) })
	dists := make([]*bruteD, len(djs))
	var stMu sync.Mutex
	var states, trans int64
	mc.ParRange(uint64(len(djs)), 1, func() bool { return false }, func(w int, lo, hi uint64) {
		for i := lo; i < hi; i++ {
			counts, total, st, tr := groupedDist(djs[i].tv, djs[i].n1)
			dists[i] = &bruteD{counts, total}
			stMu.Lock()
			states += int64(st)
			trans += int64(tr)
			stMu.Unlock()
		}
	})
	shared := map[string]*bruteD{}
	for i, d := range djs {
		shared[d.key] = dists[i]
	}
	f.Bounds["reference_distributions"] = len(djs)
	f.SpaceStats(states, trans, 0, true)
	done = mc.ParRange(uint64(len(cases)), 4, c.TimeUp, func(w int, lo, hi uint64) {
		l := f.Local()
		for i := lo; i < hi; i++ {
			cs := cases[i]
			var msg, sig string
			if p := mc.Catch(func() { msg, sig = c11LimitRun(cs, shared) }); p != "" {
				msg, sig = p, "panic"
			}
			l.Evals++
			x1, x2 := c11LimitGen(cs.N1, cs.K1, cs.Shift), c11LimitGen(cs.N2, cs.K2, 0)
			ties := false
			for _, t := range tieVector(x1, x2) {
				if t > 1 {
					ties = true
				}
			}
			lim := MannWhitneyExactLimit
			if ties {
				lim = MannWhitneyTiesExactLimit
			}
			if cs.N1 == lim || cs.N2 == lim {
				l.Nontrivial++
			}
			if cs.N1 > lim || cs.N2 > lim {
				// not an exact-method case after all (a shape produced ties): nothing to compare
				l.Outcome("above-limit-skipped")
				continue
			}
			l.Outcome(fmt.Sprintf("ties=%v at-limit=%v", ties, cs.N1 == lim || cs.N2 == lim))
			if msg != "" {
				c.Fail(f, sig, cs, msg)
			}
		}
		l.Flush()
	})
	if done < uint64(len(cases)) {
		f.Capped(fmt.Sprintf("time cap: %d of %d cases", done, len(cases)))
	}
	f.Sample(c11LimitCase{50, 50, "distinct", "distinct", 1})
	f.Sample(c11LimitCase{25, 3, "ties", "distinct", 0.5})
	f.Done()
}
