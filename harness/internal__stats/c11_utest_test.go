//go:build verif

package stats

import (
	"encoding/json"
	"fmt"
	"math"
	"math/big"
	"os"
	"sort"
	"strings"
	"testing"

	mc "golang.org/x/perf/internal/verifmc"
)

// ---- C11: Mann-Whitney U statistics and p-values are exact for small samples ----

// twoU is twice the U statistic of sample a against b by the definition:
// pairs with a>b count 2, ties count 1.
func twoU(a, b []float64) int {
	u := 0
	for _, x := range a {
		for _, y := range b {
			if x > y {
				u += 2
			} else if x == y {
				u++
			}
		}
	}
	return u
}

// bruteDist returns counts[2U] over all C(n1+n2, n1) equally likely
// assignments of the pooled values to the two groups, and the total.
func bruteDist(pooled []float64, n1 int) (map[int]*big.Int, *big.Int) {
	n := len(pooled)
	counts := map[int]*big.Int{}
	total := new(big.Int)
	idx := make([]int, n1)
	var rec func(pos, start int)
	a := make([]float64, n1)
	b := make([]float64, 0, n-n1)
	rec = func(pos, start int) {
		if pos == n1 {
			b = b[:0]
			j := 0
			for i := 0; i < n; i++ {
				if j < n1 && idx[j] == i {
					a[j] = pooled[i]
					j++
				} else {
					b = append(b, pooled[i])
				}
			}
			u := twoU(a, b)
			if counts[u] == nil {
				counts[u] = new(big.Int)
			}
			counts[u].Add(counts[u], big.NewInt(1))
			total.Add(total, big.NewInt(1))
			return
		}
		for i := start; i <= n-(n1-pos); i++ {
			idx[pos] = i
			rec(pos+1, i+1)
		}
	}
	rec(0, 0)
	return counts, total
}

func ratF(num, den *big.Int) float64 {
	f, _ := new(big.Rat).SetFrac(num, den).Float64()
	return f
}

type distCache struct {
	m map[string]*bruteD
}

type bruteD struct {
	counts map[int]*big.Int
	total  *big.Int
}

func (d *bruteD) le(tu int) float64 {
	s := new(big.Int)
	for k, v := range d.counts {
		if k <= tu {
			s.Add(s, v)
		}
	}
	return ratF(s, d.total)
}

func (d *bruteD) ge(tu int) float64 {
	s := new(big.Int)
	for k, v := range d.counts {
		if k >= tu {
			s.Add(s, v)
		}
	}
	return ratF(s, d.total)
}

func (d *bruteD) eq(tu int) float64 {
	if v, ok := d.counts[tu]; ok {
		return ratF(v, d.total)
	}
	return 0
}

// symmetric reports whether the distribution is symmetric about its mean
// n1·n2/2 (always the case without ties; with ties only for symmetric tie
// vectors).
func (d *bruteD) symmetric(n1n2 int) bool {
	for k, v := range d.counts {
		o, ok := d.counts[2*n1n2-k]
		if !ok || o.Cmp(v) != 0 {
			return false
		}
	}
	return true
}

func (c *distCache) get(x1, x2 []float64) *bruteD {
	pooled := append(append([]float64{}, x1...), x2...)
	sort.Float64s(pooled)
	key := fmt.Sprint(len(x1), pooled)
	if d, ok := c.m[key]; ok {
		return d
	}
	counts, total := bruteDist(pooled, len(x1))
	d := &bruteD{counts, total}
	c.m[key] = d
	return d
}

const c11Tol = 1e-12

func closeTo(a, b float64) bool { return math.Abs(a-b) <= c11Tol }

// tieVector is the multiplicities of the distinct pooled values, ascending.
func tieVector(x1, x2 []float64) []int {
	pooled := append(append([]float64{}, x1...), x2...)
	sort.Float64s(pooled)
	var t []int
	for i := 0; i < len(pooled); {
		j := i
		for j < len(pooled) && pooled[j] == pooled[i] {
			j++
		}
		t = append(t, j-i)
		i = j
	}
	return t
}

// c11CheckPair returns a message and the signature of the failing clause.
// The signature "two-sided-asymmetric-ties" is used only when the failing
// clause is the two-sided p-value (or its invariance under swapping) AND the
// exact distribution is not symmetric about its mean.
func c11CheckPair(x1, x2 []float64, cache *distCache) string {
	m, _ := c11CheckPairSig(x1, x2, cache)
	return m
}

func c11CheckPairSig(x1, x2 []float64, cache *distCache) (string, string) {
	msg, clause := c11CheckPair0(x1, x2, cache)
	if msg == "" {
		return "", ""
	}
	if clause == "two-sided" && !cache.get(x1, x2).symmetric(len(x1)*len(x2)) {
		return msg, "two-sided-asymmetric-ties"
	}
	return msg, "utest-" + clause
}

func c11CheckPair0(x1, x2 []float64, cache *distCache) (string, string) {
	d := cache.get(x1, x2)
	tu := twoU(x1, x2)
	allEqual := len(tieVector(x1, x2)) == 1
	var ps [3]float64
	// A failure of the two-sided clause does not end the case: the one-sided
	// clauses are still checked and reported first.
	twoMsg := ""
	for ai, alt := range []LocationHypothesis{LocationLess, LocationDiffers, LocationGreater} {
		r, err := MannWhitneyUTest(x1, x2, alt)
		if allEqual {
			if err != ErrSamplesEqual {
				return fmt.Sprintf("U(%v,%v): all values equal but err=%v result=%v", x1, x2, err, r), "error-cases"
			}
			continue
		}
		if err != nil {
			return fmt.Sprintf("U(%v,%v,%v): unexpected error %v", x1, x2, alt, err), "error-cases"
		}
		if r.N1 != len(x1) || r.N2 != len(x2) {
			return fmt.Sprintf("U(%v,%v): sizes reported %d,%d", x1, x2, r.N1, r.N2), "sizes"
		}
		if r.U != float64(tu)/2 {
			return fmt.Sprintf("U(%v,%v) = %v, by definition %v", x1, x2, r.U, float64(tu)/2), "statistic"
		}
		less, greater := d.le(tu), d.ge(tu)
		var want float64
		switch alt {
		case LocationLess:
			want = less
		case LocationGreater:
			want = greater
		default:
			want = math.Min(1, 2*math.Min(less, greater))
		}
		ps[ai] = r.P
		var m string
		if !closeTo(r.P, want) {
			m = fmt.Sprintf("U-test(%v,%v,alt=%v): p=%v, exact permutation value %v (U=%v, P(U<=u)=%v, P(U>=u)=%v)", x1, x2, alt, r.P, want, r.U, less, greater)
		} else if r.P < -c11Tol || (alt == LocationDiffers && r.P < 0) || r.P > 1+c11Tol {
			// one-sided values are 1 - CDF(...) in floating point: an exact tail of 1/C(49,24) may come out as
			// -5e-15, which is the exact value within the tolerance used throughout; the two-sided value, which the
			// property places in [0,1], is held to the interval strictly
			m = fmt.Sprintf("U-test(%v,%v,%v): p=%v outside [0,1]", x1, x2, alt, r.P)
		}
		if m != "" {
			if alt != LocationDiffers {
				return m, altClause(alt)
			}
			twoMsg = m
		}
	}
	if allEqual {
		return "", ""
	}
	// Swapping the samples leaves the two-sided p unchanged and exchanges the tails.
	for ai, alt := range []LocationHypothesis{LocationGreater, LocationDiffers, LocationLess} {
		r, err := MannWhitneyUTest(x2, x1, alt)
		if err != nil {
			return fmt.Sprintf("swapped U(%v,%v): %v", x2, x1, err), "error-cases"
		}
		if !closeTo(r.P, ps[ai]) {
			m := fmt.Sprintf("U-test(%v,%v): swapping the samples changes p from %v to %v (alt %v)", x1, x2, ps[ai], r.P, alt)
			if alt != LocationDiffers {
				return m, altClause(alt)
			}
			if twoMsg == "" {
				twoMsg = m
			}
		}
	}
	if twoMsg != "" {
		return twoMsg, "two-sided"
	}
	return "", ""
}

func altClause(alt LocationHypothesis) string {
	if alt == LocationDiffers {
		return "two-sided"
	}
	return "one-sided"
}

// c11CheckDist compares UDist{n1,n2,T} pointwise with the brute-force
// distribution, including arguments outside the support and between steps.
func c11CheckDist(x1, x2 []float64, cache *distCache, untied bool) string {
	d := cache.get(x1, x2)
	n1, n2 := len(x1), len(x2)
	ud := UDist{N1: n1, N2: n2, T: tieVector(x1, x2)}
	if untied {
		ud.T = nil
	}
	sum := 0.0
	// The mass function lives on the distribution's own lattice: steps of 1
	// without ties, 0.5 with ties.
	// (UDist documents that U must be integral when there are no ties.)
	integerLattice := untied || !ud.hasTies()
	for tu := -2; tu <= 2*n1*n2+2; tu++ {
		if integerLattice && tu%2 != 0 {
			continue
		}
		u := float64(tu) / 2
		pmf := ud.PMF(u)
		if !closeTo(pmf, d.eq(tu)) {
			return fmt.Sprintf("UDist{%d,%d,%v}.PMF(%v) = %v, exact %v", n1, n2, ud.T, u, pmf, d.eq(tu))
		}
		sum += pmf
		cdf := ud.CDF(u)
		if !closeTo(cdf, d.le(tu)) {
			return fmt.Sprintf("UDist{%d,%d,%v}.CDF(%v) = %v, exact %v", n1, n2, ud.T, u, cdf, d.le(tu))
		}
		if !closeTo(cdf, math.Min(sum, 1)) && tu >= 0 {
			return fmt.Sprintf("UDist{%d,%d,%v}: CDF(%v)=%v but running PMF sum is %v", n1, n2, ud.T, u, cdf, sum)
		}
		// between steps the CDF is flat
		if c2 := ud.CDF(u + 0.2); !closeTo(c2, d.le(tu)) && tu >= 0 {
			return fmt.Sprintf("UDist{%d,%d,%v}.CDF(%v) = %v, exact %v", n1, n2, ud.T, u+0.2, c2, d.le(tu))
		}
	}
	if !closeTo(sum, 1) {
		return fmt.Sprintf("UDist{%d,%d,%v}: PMF sums to %v", n1, n2, ud.T, sum)
	}
	return ""
}

type c11Case struct {
	X1, X2 []float64
	Kind   string
}

func c11Replay(raw json.RawMessage) string {
	var cs c11Case
	if err := json.Unmarshal(raw, &cs); err != nil {
		return err.Error()
	}
	cache := &distCache{map[string]*bruteD{}}
	var msg string
	p := mc.Catch(func() {
		switch cs.Kind {
		case "dist":
			msg = c11CheckDist(cs.X1, cs.X2, cache, false)
		case "dist-untied":
			msg = c11CheckDist(cs.X1, cs.X2, cache, true)
		case "approx":
			msg = c11CheckApprox(cs.X1, cs.X2)
		case "switch":
			msg = c11CheckSwitch(cs.X1, cs.X2)
		default:
			msg = c11CheckPair(cs.X1, cs.X2, cache)
		}
	})
	if p != "" {
		return p
	}
	return msg
}

func multisetsOf(k, n int) [][]float64 {
	var out [][]float64
	mc.Multisets(k, n, func(m []int) {
		s := make([]float64, n)
		for i, v := range m {
			s[i] = float64(v + 1)
		}
		out = append(out, s)
	})
	return out
}

func c11Pairs(c *mc.Check, k, maxN int) {
	f := c.Family("sample-pairs", fmt.Sprintf("every pair of non-empty multisets over {1..%d} with n1+n2 ≤ %d × 3 alternatives: U against its definition, one-sided p-values against the exact distribution over all C(n1+n2,n1) assignments (exact rationals), two-sided = min(1, 2·min), invariance under swapping, all-equal → error; and for every pair the U distribution PMF/CDF pointwise against the brute-force distribution, incl. arguments outside the support and between steps, PMF summing to 1; non-trivial = pairs with ties", k, maxN), c11Replay)
	if c.Replaying() {
		return
	}
	f.Bounds["k"], f.Bounds["max_n1_plus_n2"] = k, maxN
	type job struct{ n1, n2 int }
	var jobs []job
	for n1 := 1; n1 < maxN; n1++ {
		for n2 := 1; n1+n2 <= maxN; n2++ {
			jobs = append(jobs, job{n1, n2})
		}
	}
	// largest first for load balance
	sort.Slice(jobs, func(i, j int) bool { return jobs[i].n1+jobs[i].n2 > jobs[j].n1+jobs[j].n2 })
	sets := map[int][][]float64{}
	for n := 1; n < maxN; n++ {
		sets[n] = multisetsOf(k, n)
	}
	type unit struct {
		j  job
		i1 int
	}
	var units []unit
	for _, j := range jobs {
		for i1 := range sets[j.n1] {
			units = append(units, unit{j, i1})
		}
	}
	done := mc.ParRange(uint64(len(units)), 1, c.TimeUp, func(w int, lo, hi uint64) {
		l := f.Local()
		cache := &distCache{map[string]*bruteD{}}
		for ui := lo; ui < hi; ui++ {
			u := units[ui]
			x1 := sets[u.j.n1][u.i1]
			for _, x2 := range sets[u.j.n2] {
				var msg, sig string
				kind := "pair"
				if p := mc.Catch(func() { msg, sig = c11CheckPairSig(x1, x2, cache) }); p != "" {
					msg, sig = p, "panic"
				}
				tv := tieVector(x1, x2)
				if (msg == "" || sig == "two-sided-asymmetric-ties") && len(tv) > 1 {
					if msg != "" {
						// recorded known finding; still check the distribution itself
						c.Fail(f, sig, c11Case{x1, x2, kind}, msg)
						msg = ""
					}
					sig = "udist"
					kind = "dist"
					if p := mc.Catch(func() { msg = c11CheckDist(x1, x2, cache, false) }); p != "" {
						msg = p
					}
				}
				l.Evals++
				ties := false
				for _, t := range tv {
					if t > 1 {
						ties = true
					}
				}
				if ties {
					l.Nontrivial++
				}
				l.Outcome(fmt.Sprintf("ranks=%d ties=%v", min(len(tv), 4), ties))
				if msg != "" {
					c.Fail(f, sig, c11Case{x1, x2, kind}, msg)
				}
			}
			if len(cache.m) > 4000 {
				cache.m = map[string]*bruteD{}
			}
		}
		l.Flush()
	})
	if done < uint64(len(units)) {
		f.Capped(fmt.Sprintf("time cap: %d of %d work units", done, len(units)))
	}
	f.Sample(c11Case{[]float64{1, 1}, []float64{1, 2}, "pair"})
	f.Sample(c11Case{[]float64{1, 3, 4}, []float64{2, 2, 4, 4}, "pair"})
	f.Done()
}

func c11Sig(tv []int) string {
	return fmt.Sprintf("utest-ranks-%d", len(tv))
}

func c11Untied(c *mc.Check, maxN int) {
	f := c.Family("untied-distribution", fmt.Sprintf("UDist without a tie vector for all n1,n2 ≤ %d: PMF/CDF at every integer in and around the support against the brute-force distribution; non-trivial = every (n1,n2)", maxN), c11Replay)
	if c.Replaying() {
		return
	}
	cache := &distCache{map[string]*bruteD{}}
	for n1 := 1; n1 <= maxN; n1++ {
		for n2 := 1; n2 <= maxN; n2++ {
			if n1+n2 > 14 {
				continue
			}
			var x1, x2 []float64
			for i := 0; i < n1; i++ {
				x1 = append(x1, float64(i+1))
			}
			for i := 0; i < n2; i++ {
				x2 = append(x2, float64(n1+i+1))
			}
			var msg string
			if p := mc.Catch(func() { msg = c11CheckDist(x1, x2, cache, true) }); p != "" {
				msg = p
			}
			f.Count(1, 1)
			f.Outcome(fmt.Sprintf("ok=%v", msg == ""), 1)
			if msg != "" {
				c.Fail(f, "udist-untied", c11Case{x1, x2, "dist-untied"}, msg)
			}
		}
	}
	f.Sample(c11Case{[]float64{1, 2}, []float64{3, 4, 5}, "dist-untied"})
	f.Done()
}

// normCDF is the standard normal distribution function.
func normCDF(z float64) float64 { return 0.5 * math.Erfc(-z/math.Sqrt2) }

// c11CheckApprox evaluates the tie- and continuity-corrected normal
// approximation independently.
func c11CheckApprox(x1, x2 []float64) string {
	n1, n2 := float64(len(x1)), float64(len(x2))
	N := n1 + n2
	u := float64(twoU(x1, x2)) / 2
	tsum := 0.0
	for _, t := range tieVector(x1, x2) {
		ft := float64(t)
		tsum += ft*ft*ft - ft
	}
	mu := n1 * n2 / 2
	sigma := math.Sqrt(n1 * n2 / 12 * ((N + 1) - tsum/(N*(N-1))))
	for _, alt := range []LocationHypothesis{LocationLess, LocationDiffers, LocationGreater} {
		r, err := MannWhitneyUTest(x1, x2, alt)
		if sigma == 0 {
			if err != ErrSamplesEqual {
				return fmt.Sprintf("all-equal large samples: err=%v", err)
			}
			continue
		}
		if err != nil {
			return fmt.Sprintf("approx path: unexpected error %v", err)
		}
		if r.U != u {
			return fmt.Sprintf("approx path: U=%v by definition %v", r.U, u)
		}
		var want float64
		switch alt {
		case LocationLess:
			want = normCDF((u - mu + 0.5) / sigma)
		case LocationGreater:
			want = 1 - normCDF((u-mu-0.5)/sigma)
		default:
			d := u - mu
			switch {
			case d > 0:
				d -= 0.5
			case d < 0:
				d += 0.5
			}
			z := d / sigma
			want = 2 * math.Min(normCDF(z), 1-normCDF(z))
		}
		if !(math.Abs(r.P-want) <= 1e-9) {
			return fmt.Sprintf("approx path n1=%d n2=%d alt=%v: p=%v, corrected normal approximation gives %v", len(x1), len(x2), alt, r.P, want)
		}
		if r.P < 0 || r.P > 1 {
			return fmt.Sprintf("approx path: p=%v outside [0,1]", r.P)
		}
	}
	return ""
}

// c11CheckSwitch: sanity of the exact path at sizes where brute force is out
// of reach: p in [0,1], two-sided symmetric under swapping and equal to
// min(1, 2·min(one-sided)).
func c11CheckSwitch(x1, x2 []float64) string {
	a, err := MannWhitneyUTest(x1, x2, LocationDiffers)
	b, err2 := MannWhitneyUTest(x2, x1, LocationDiffers)
	if err != nil || err2 != nil {
		return fmt.Sprintf("errors %v %v", err, err2)
	}
	n := len(x1)
	if a.P < 0 || a.P > 1 || !(math.Abs(a.P-b.P) <= 1e-9) {
		return fmt.Sprintf("n=%d: two-sided p=%v, swapped p=%v", n, a.P, b.P)
	}
	l, _ := MannWhitneyUTest(x1, x2, LocationLess)
	g, _ := MannWhitneyUTest(x1, x2, LocationGreater)
	for _, r := range []*MannWhitneyUTestResult{l, g} {
		if r.P < -1e-12 || r.P > 1+1e-12 || math.IsNaN(r.P) {
			return fmt.Sprintf("n=%d: one-sided p=%v outside [0,1]", n, r.P)
		}
	}
	if l.P+g.P < 1-1e-9 {
		return fmt.Sprintf("n=%d: P(U<=u)+P(U>=u) = %v < 1", n, l.P+g.P)
	}
	if !(math.Abs(math.Min(1, 2*math.Min(l.P, g.P))-a.P) <= 1e-9) {
		return fmt.Sprintf("n=%d: two-sided %v is not 2·min(%v,%v)", n, a.P, l.P, g.P)
	}
	return ""
}

func c11Approx(c *mc.Check) {
	f := c.Family("normal-approximation", "deterministic sample families (shifted blocks, interleavings, heavy ties, all equal) at sizes on both sides of the exact/approximate switch (untied 50/51, tied 25/26, mixed sizes): above the switch p equals the tie- and continuity-corrected normal approximation evaluated independently; at the switch the exact path is still used (p within [0,1], symmetric under swap); empty samples are errors; non-trivial = every case", c11Replay)
	if c.Replaying() {
		return
	}
	gen := func(n int, kind string, shift float64) []float64 {
		x := make([]float64, n)
		for i := range x {
			switch kind {
			case "distinct":
				x[i] = float64(2*i) + shift
			case "ties":
				x[i] = float64(i/3) + shift
			case "heavy":
				x[i] = float64(i%2) + shift
			case "equal":
				x[i] = 7
			case "inter":
				x[i] = float64(i*i%17) + shift + float64(i)/1000
			}
		}
		return x
	}
	type job struct{ x1, x2 []float64 }
	var jobs []job
	for _, n1 := range []int{1, 10, 25, 26, 50, 51, 60} {
		for _, n2 := range []int{1, 10, 25, 26, 50, 51, 55} {
			for _, k1 := range []string{"distinct", "ties", "heavy", "equal", "inter"} {
				for _, k2 := range []string{"distinct", "ties", "heavy", "equal"} {
					for _, shift := range []float64{0, 0.5, 1, 30} {
						x1, x2 := gen(n1, k1, shift), gen(n2, k2, 0)
						ties := false
						for _, t := range tieVector(x1, x2) {
							if t > 1 {
								ties = true
							}
						}
						lim := MannWhitneyExactLimit
						if ties {
							lim = MannWhitneyTiesExactLimit
						}
						if n1 <= lim && n2 <= lim {
							continue // exact path; covered elsewhere
						}
						jobs = append(jobs, job{x1, x2})
					}
				}
			}
		}
	}
	mc.ParRange(uint64(len(jobs)), 8, c.TimeUp, func(w int, lo, hi uint64) {
		for i := lo; i < hi; i++ {
			x1, x2 := jobs[i].x1, jobs[i].x2
			var msg string
			if p := mc.Catch(func() { msg = c11CheckApprox(x1, x2) }); p != "" {
				msg = p
			}
			f.Count(1, 1)
			f.Outcome(fmt.Sprintf("ok=%v", msg == ""), 1)
			if msg != "" {
				c.Fail(f, "utest-approx", c11Case{x1, x2, "approx"}, msg)
			}
		}
	})
	// At the switch: exact path still used; sanity only (brute force is out of reach).
	switchCases := []struct {
		n    int
		kind string
	}{{25, "ties"}, {50, "distinct"}, {25, "heavy"}, {15, "ties"}, {20, "heavy"}, {18, "ties"}}
	mc.ParRange(uint64(len(switchCases)), 1, c.TimeUp, func(w int, lo, hi uint64) {
		cs := switchCases[lo]
		x1, x2 := gen(cs.n, cs.kind, 0.5), gen(cs.n, cs.kind, 0)
		if cs.kind == "distinct" {
			x1 = gen(cs.n, cs.kind, 1)
		}
		var msg string
		if p := mc.Catch(func() { msg = c11CheckSwitch(x1, x2) }); p != "" {
			msg = p
		}
		f.Count(1, 1)
		f.Outcome("at-switch", 1)
		if msg != "" {
			c.Fail(f, "utest-switch", c11Case{x1, x2, "switch"}, msg)
		}
	})
	for _, pair := range [][2][]float64{{nil, {1}}, {{1}, nil}, {nil, nil}} {
		r, err := MannWhitneyUTest(pair[0], pair[1], LocationDiffers)
		f.Count(1, 1)
		if err != ErrSampleSize {
			c.Fail(f, "utest-empty", c11Case{pair[0], pair[1], "pair"}, fmt.Sprintf("empty sample: err=%v result=%v", err, r))
		}
	}
	f.Sample("n1=26 ties vs n2=26 distinct, shift 0.5")
	f.Done()
}

var _ = strings.Join

func TestVerifC11(t *testing.T) {
	c := mc.NewCheck("C11")
	c.Assume("brute-force enumeration of all assignments in exact rationals is the definition of the exact p-value")
	c11Pairs(c, mc.Pick(c, 5, 6), mc.Pick(c, 10, 12))
	c11Untied(c, mc.Pick(c, 7, 7))
	c11Approx(c)
	c11Limit(c)
	if !c.Sweep() {
		c11BigTies(c, mc.Pick(c, 16, 20))
	}
	mc.FirstCalls(c, c11Calls, "TestVerifC11Fresh", "VERIF_C11_CALLS")
	if code := c.Finish(); code != 0 {
		os.Exit(code)
	}
}
