//go:build verif

package main

import (
	"bytes"
	"encoding/json"
	"fmt"
	"math"
	"os"
	"path/filepath"
	"sort"
	"strconv"
	"strings"

	mc "golang.org/x/perf/internal/verifmc"
)

// ---- C16 part 3: the text and CSV renderings describe the same data ----

type txtCell struct {
	Center, CI, Delta, Cmp string
	Warn, CmpWarn          []string
}

type txtTable struct {
	KeyLines []string
	Unit     string
	Header   [][]string // per level: label of each column group
	Rows     []string
	Cells    map[[2]int]txtCell
	Geo      map[int]txtCell
	HasGeo   bool
}

const superDigitsStr = "⁰¹²³⁴⁵⁶⁷⁸⁹"

func isSuper(s string) bool {
	if s == "" {
		return false
	}
	for _, r := range s {
		if !strings.ContainsRune(superDigitsStr, r) {
			return false
		}
	}
	return true
}

func superValue(s string) int {
	n := 0
	digits := []rune(superDigitsStr)
	for _, r := range s {
		for d, x := range digits {
			if x == r {
				n = n*10 + d
			}
		}
	}
	return n
}

func barPositions(line []rune) []int {
	var out []int
	for i, r := range line {
		if r == '│' {
			out = append(out, i)
		}
	}
	return out
}

// parseGroup parses the text of one column group of a data row.
func parseGroup(s string, notes map[int]string) (txtCell, string) {
	var c txtCell
	toks := strings.Fields(s)
	i := 0
	if len(toks) == 0 {
		return c, ""
	}
	isDelta := func(t string) bool {
		return t == "~" || t == "?" || strings.HasSuffix(t, "%") && (t[0] == '+' || t[0] == '-' || t == "0.00%")
	}
	if !isDelta(toks[0]) && !isSuper(toks[0]) {
		c.Center = toks[0]
		i = 1
		if i < len(toks) && toks[i] == "±" {
			if i+1 >= len(toks) {
				return c, "dangling ±"
			}
			c.CI = toks[i+1]
			i += 2
		}
		for i < len(toks) && isSuper(toks[i]) {
			c.Warn = append(c.Warn, notes[superValue(toks[i])])
			i++
		}
	}
	if i < len(toks) && isDelta(toks[i]) {
		c.Delta = toks[i]
		i++
		if i < len(toks) && strings.HasPrefix(toks[i], "(") {
			j := i
			for j < len(toks) && !strings.HasSuffix(toks[j], ")") {
				j++
			}
			if j >= len(toks) {
				return c, "unterminated ( in " + s
			}
			c.Cmp = strings.Trim(strings.Join(toks[i:j+1], " "), "()")
			i = j + 1
		}
	}
	for i < len(toks) && isSuper(toks[i]) {
		c.CmpWarn = append(c.CmpWarn, notes[superValue(toks[i])])
		i++
	}
	if i != len(toks) {
		return c, fmt.Sprintf("cannot parse column text %q (stuck at %q)", s, toks[i])
	}
	return c, ""
}

// parseText parses benchstat's text output into tables, checking the layout
// contract on the way: header bars line up with the unit row's bars, every
// data row parses when cut at the unit row's bar offsets, no trailing blanks.
func parseText(out string) ([]txtTable, string) {
	var tables []txtTable
	blocks := strings.Split(strings.TrimSuffix(out, "\n"), "\n\n")
	var pendingKeys []string
	for _, blk := range blocks {
		if blk == "" {
			continue
		}
		lines := strings.Split(blk, "\n")
		t := txtTable{Cells: map[[2]int]txtCell{}, Geo: map[int]txtCell{}}
		t.KeyLines = pendingKeys
		pendingKeys = nil
		i := 0
		for i < len(lines) && !strings.ContainsRune(lines[i], '│') {
			if strings.HasPrefix(lines[i], " ") {
				return nil, fmt.Sprintf("unexpected line before the header: %q", lines[i])
			}
			t.KeyLines = append(t.KeyLines, lines[i])
			i++
		}
		if i == len(lines) {
			// only key lines in this block (cannot happen: keys precede a table)
			pendingKeys = t.KeyLines
			continue
		}
		var hdr [][]rune
		for i < len(lines) && strings.ContainsRune(lines[i], '│') {
			hdr = append(hdr, []rune(lines[i]))
			i++
		}
		unitRow := hdr[len(hdr)-1]
		bars := barPositions(unitRow)
		if len(bars) < 2 {
			return nil, fmt.Sprintf("unit row without column bars: %q", string(unitRow))
		}
		ncols := len(bars) - 1
		for c := 0; c < ncols; c++ {
			seg := strings.TrimSpace(string(unitRow[bars[c]+1 : bars[c+1]]))
			u := strings.Fields(seg)
			if len(u) == 0 {
				return nil, fmt.Sprintf("no unit over column %d in %q", c, string(unitRow))
			}
			if t.Unit == "" {
				t.Unit = u[0]
			} else if t.Unit != u[0] {
				return nil, fmt.Sprintf("different units over the columns of one table: %q", string(unitRow))
			}
			if c > 0 && !(len(u) == 3 && u[1] == "vs" && u[2] == "base") {
				return nil, fmt.Sprintf("column %d lacks the 'vs base' label: %q", c, seg)
			}
		}
		for _, h := range hdr[:len(hdr)-1] {
			hb := barPositions(h)
			labels := make([]string, ncols)
			covered := make([]int, ncols)
			for k := 0; k+1 < len(hb); k++ {
				p, q := hb[k], hb[k+1]
				// both ends must coincide with bars of the unit row
				ci, cj := -1, -1
				for c, b := range bars {
					if b == p {
						ci = c
					}
					if b == q {
						cj = c
					}
				}
				if ci < 0 || cj < 0 {
					return nil, fmt.Sprintf("header cell boundaries at %d,%d do not line up with the column bars %v:\n%s\n%s", p, q, bars, string(h), string(unitRow))
				}
				lab := strings.TrimSpace(string(h[p+1 : q]))
				for c := ci; c < cj; c++ {
					labels[c] = lab
					covered[c]++
				}
			}
			for c, n := range covered {
				if n != 1 {
					return nil, fmt.Sprintf("column %d is under %d header cells in %q", c, n, string(h))
				}
			}
			t.Header = append(t.Header, labels)
		}
		// footnotes first (they are needed to resolve superscripts)
		notes := map[int]string{}
		end := len(lines)
		for end > i {
			f := strings.SplitN(lines[end-1], " ", 2)
			if len(f) == 2 && isSuper(f[0]) {
				notes[superValue(f[0])] = f[1]
				end--
				continue
			}
			break
		}
		for n := 1; n <= len(notes); n++ {
			if _, ok := notes[n]; !ok {
				return nil, fmt.Sprintf("footnotes are not numbered 1..%d", len(notes))
			}
		}
		for ; i < end; i++ {
			ln := []rune(lines[i])
			if len(ln) > 0 && ln[len(ln)-1] == ' ' {
				return nil, fmt.Sprintf("line ends in blanks: %q", lines[i])
			}
			lab := strings.TrimRight(string(ln[:min(bars[0], len(ln))]), " ")
			if len(ln) > bars[0] && bars[0] > 0 && ln[bars[0]-1] != ' ' && len(lab) >= bars[0] {
				return nil, fmt.Sprintf("row label runs into the first column: %q", lines[i])
			}
			ri := len(t.Rows)
			isGeo := lab == "geomean" && i == end-1
			if !isGeo {
				t.Rows = append(t.Rows, lab)
			} else {
				t.HasGeo = true
			}
			for c := 0; c < ncols; c++ {
				lo, hi := bars[c], bars[c+1]
				if lo >= len(ln) {
					continue
				}
				seg := string(ln[lo:min(hi, len(ln))])
				cell, perr := parseGroup(seg, notes)
				if perr != "" {
					return nil, fmt.Sprintf("row %q column %d: %s\n%s\n%s", lab, c, perr, string(unitRow), lines[i])
				}
				if cell.Center == "" && cell.Delta == "" && len(cell.Warn)+len(cell.CmpWarn) == 0 {
					continue
				}
				if isGeo {
					t.Geo[c] = cell
				} else {
					t.Cells[[2]int{ri, c}] = cell
				}
			}
			if len(ln) > bars[ncols] {
				if extra := strings.TrimSpace(string(ln[bars[ncols]:])); extra != "" {
					return nil, fmt.Sprintf("text beyond the table's right edge: %q", lines[i])
				}
			}
		}
		tables = append(tables, t)
	}
	return tables, ""
}

var siFactor = map[string]float64{"T": 1e12, "G": 1e9, "M": 1e6, "k": 1e3, "": 1, "m": 1e-3, "µ": 1e-6, "n": 1e-9,
	"Ti": 1 << 40, "Gi": 1 << 30, "Mi": 1 << 20, "Ki": 1 << 10}

// scaledAgrees checks a scaled number of the text against the exact CSV value.
func scaledAgrees(txt string, exact float64) bool {
	j := 0
	for j < len(txt) && (txt[j] == '-' || txt[j] == '.' || (txt[j] >= '0' && txt[j] <= '9')) {
		j++
	}
	num, pre := txt[:j], txt[j:]
	f, ok := siFactor[pre]
	if !ok {
		return false
	}
	m, err := strconv.ParseFloat(num, 64)
	if err != nil {
		return false
	}
	dec := 0
	if k := strings.IndexByte(num, '.'); k >= 0 {
		dec = len(num) - k - 1
	}
	half := 0.5 * math.Pow(10, -float64(dec)) * f
	return math.Abs(m*f-exact) <= half*(1+1e-9)+math.Abs(exact)*1e-12
}

func sameSet(a, b []string) bool {
	x := normWarn(a)
	y := normWarn(b)
	sort.Strings(x)
	sort.Strings(y)
	return strings.Join(x, "\n") == strings.Join(y, "\n")
}

func c16Compare(dir string, sh dsShape, fl c14Flags) string {
	_, fileArgs := sh.write(dir)
	return c16CompareArgs(append(fl.args(), fileArgs...))
}

// c16CompareArgs runs benchstat with args (args[0:2] = -format csv) and again
// with the text format, and compares the two renderings.
func c16CompareArgs(args []string) string {
	var csvOut, csvErr, txtOut, txtErr bytes.Buffer
	if err := benchstat(&csvOut, &csvErr, args); err != nil {
		return "benchstat csv: " + err.Error()
	}
	targs := append([]string{}, args...)
	targs[1] = "text"
	if err := benchstat(&txtOut, &txtErr, targs); err != nil {
		return "benchstat text: " + err.Error()
	}
	ct, err := parseCSV(csvOut.Bytes())
	if err != nil {
		return "cannot parse CSV: " + err.Error()
	}
	warns := parseWarnings(csvErr.Bytes())
	tt, perr := parseText(txtOut.String())
	if perr != "" {
		return "text layout: " + perr + "\n--- text output ---\n" + txtOut.String()
	}
	if len(ct) != len(tt) {
		return fmt.Sprintf("text has %d tables, CSV %d\n%s", len(tt), len(ct), txtOut.String())
	}
	key := map[string]string{}
	for ti := range ct {
		c, t := ct[ti], tt[ti]
		for _, kl := range t.KeyLines {
			k, v, _ := strings.Cut(kl, ":")
			key[k] = strings.TrimPrefix(v, " ")
		}
		for k, v := range c.Key {
			if key[k] != v {
				return fmt.Sprintf("table %d: text says %s=%q, CSV says %q", ti, k, key[k], v)
			}
		}
		if c.Unit != t.Unit {
			return fmt.Sprintf("table %d: unit %q in text, %q in CSV", ti, t.Unit, c.Unit)
		}
		if len(t.Header) > 0 && len(t.Header[0]) != len(c.Cols) {
			return fmt.Sprintf("table %d: %d columns in text, %d in CSV", ti, len(t.Header[0]), len(c.Cols))
		}
		for ci, hv := range c.Cols {
			for lvl, v := range hv {
				if lvl >= len(t.Header) {
					return fmt.Sprintf("table %d: text has %d header levels, CSV %d", ti, len(t.Header), len(hv))
				}
				if t.Header[lvl][ci] != v {
					return fmt.Sprintf("table %d column %d level %d: header %q in text, %q in CSV\n%s", ti, ci, lvl, t.Header[lvl][ci], v, txtOut.String())
				}
			}
		}
		if strings.Join(t.Rows, "\x00") != strings.Join(c.Rows, "\x00") {
			return fmt.Sprintf("table %d: row labels %q in text, %q in CSV", ti, t.Rows, c.Rows)
		}
		if t.HasGeo != (len(t.Rows) > 1) {
			return fmt.Sprintf("table %d: %d rows, geomean row present=%v", ti, len(t.Rows), t.HasGeo)
		}
		for ri := range c.Rows {
			for ci := range c.Cols {
				cc, cok := c.Cells[[2]int{ri, ci}]
				tc, tok := t.Cells[[2]int{ri, ci}]
				if cok != tok {
					return fmt.Sprintf("table %d cell (%q, col %d): present in text=%v, in CSV=%v\n%s", ti, c.Rows[ri], ci, tok, cok, txtOut.String())
				}
				if !cok {
					continue
				}
				exact, err := strconv.ParseFloat(cc.Center, 64)
				if err != nil || !scaledAgrees(tc.Center, exact) {
					return fmt.Sprintf("table %d cell (%q, col %d): text %q, CSV %q", ti, c.Rows[ri], ci, tc.Center, cc.Center)
				}
				if tc.CI != cc.CI || tc.Delta != cc.Delta || tc.Cmp != cc.Cmp {
					return fmt.Sprintf("table %d cell (%q, col %d): text ±%q %q (%q), CSV ±%q %q (%q)", ti, c.Rows[ri], ci, tc.CI, tc.Delta, tc.Cmp, cc.CI, cc.Delta, cc.Cmp)
				}
				if !sameSet(tc.Warn, warns[cellRef(cc.Line, cc.Col)]) {
					return fmt.Sprintf("table %d cell (%q, col %d): warnings %q in text, %q in CSV", ti, c.Rows[ri], ci, tc.Warn, warns[cellRef(cc.Line, cc.Col)])
				}
				if ci > 0 && !sameSet(tc.CmpWarn, warns[cellRef(cc.Line, cc.Col+2)]) {
					return fmt.Sprintf("table %d cell (%q, col %d): comparison warnings %q in text, %q in CSV", ti, c.Rows[ri], ci, tc.CmpWarn, warns[cellRef(cc.Line, cc.Col+2)])
				}
			}
		}
		if t.HasGeo {
			for ci := range c.Cols {
				g, tg := c.Geo[ci], t.Geo[ci]
				if (g[0] == "") != (tg.Center == "") {
					return fmt.Sprintf("table %d geomean of column %d: text %q, CSV %q", ti, ci, tg.Center, g[0])
				}
				if g[0] != "" {
					exact, _ := strconv.ParseFloat(g[0], 64)
					if !scaledAgrees(tg.Center, exact) {
						return fmt.Sprintf("table %d geomean of column %d: text %q, CSV %q", ti, ci, tg.Center, g[0])
					}
				}
				if ci > 0 && g[1] != tg.Delta {
					return fmt.Sprintf("table %d ratio geomean of column %d: text %q, CSV %q", ti, ci, tg.Delta, g[1])
				}
				gref := cellRef(c.GeoLn, 1)
				if ci > 0 {
					gref = cellRef(c.GeoLn, 3+(ci-1)*4)
				}
				tw := append(append([]string{}, tg.Warn...), tg.CmpWarn...)
				if !sameSet(tw, warns[gref]) {
					return fmt.Sprintf("table %d geomean of column %d: warnings %q in text, %q in CSV", ti, ci, tw, warns[gref])
				}
			}
		}
	}
	return ""
}

// ---- column header trees through the real command ----

type c16TreeCase struct {
	Col  string
	Cols []int // column tuples, each a 3-bit number: bit i is the value (1 or 2) of field i
	Rows int
}

func c16TreeRun(dir string, cs c16TreeCase) string {
	var b strings.Builder
	for r := 0; r < cs.Rows; r++ {
		for rep := 0; rep < 2; rep++ {
			for _, t := range cs.Cols {
				fmt.Fprintf(&b, "Benchmark%c/a=%d/b=%d/c=%d 1 %d ns/op\n", 'X'+r, 1+t&1, 1+(t>>1)&1, 1+(t>>2)&1, 100*(r+1)+10*t+rep)
			}
		}
	}
	p := filepath.Join(dir, "tree.txt")
	if err := os.WriteFile(p, []byte(b.String()), 0o644); err != nil {
		return err.Error()
	}
	return c16CompareArgs([]string{"-format", "csv", "-row", ".name", "-col", cs.Col, p})
}

func c16Trees(c *mc.Check) {
	replay := func(raw json.RawMessage) string {
		var cs c16TreeCase
		if err := json.Unmarshal(raw, &cs); err != nil {
			return err.Error()
		}
		dir, _ := os.MkdirTemp("", "verif-c16t-")
		defer os.RemoveAll(dir)
		var msg string
		if p := mc.Catch(func() { msg = c16TreeRun(dir, cs) }); p != "" {
			return p
		}
		return msg
	}
	cols := []string{"/a,/b,/c", "/c,/a,/b", "/b,/c"}
	f := c.Family("header-trees-through-benchstat", fmt.Sprintf("every non-empty set of column tuples over three sub-name keys with two values each (255 sets: every shape of a three-level header tree with ≤2 children per node — chains, a branching node before / after / between others on every level) × column projections %q × 1–2 rows, written as a file in every first-appearance order that is a rotation of the sorted order, run through the real benchstat as text and as CSV: the text parses (every header cell boundary on a column bar, every column under exactly one header cell per level, no trailing blanks) and agrees with the CSV on header values per level, rows, cells, deltas and warnings; a panic in either rendering is a violation; non-trivial = sets with ≥3 columns", cols), replay)
	if c.Replaying() {
		return
	}
	var cases []c16TreeCase
	for set := 1; set < 256; set++ {
		var ts []int
		for t := 0; t < 8; t++ {
			if set&(1<<t) != 0 {
				ts = append(ts, t)
			}
		}
		for rot := 0; rot < len(ts); rot++ {
			if rot > 0 && !c.Thorough() && rot != len(ts)/2 {
				continue
			}
			r := append(append([]int{}, ts[rot:]...), ts[:rot]...)
			for _, col := range cols {
				for rows := 1; rows <= 2; rows++ {
					if rows == 2 && !c.Thorough() && set%5 != 0 {
						continue
					}
					cases = append(cases, c16TreeCase{col, r, rows})
				}
			}
		}
	}
	f.Bounds["cases"] = len(cases)
	dirs := make([]string, mc.Workers())
	for i := range dirs {
		dirs[i], _ = os.MkdirTemp("", "verif-c16t-")
		defer os.RemoveAll(dirs[i])
	}
	done := mc.ParRange(uint64(len(cases)), 8, c.TimeUp, func(w int, lo, hi uint64) {
		l := f.Local()
		for i := lo; i < hi; i++ {
			cs := cases[i]
			var msg string
			if p := mc.Catch(func() { msg = c16TreeRun(dirs[w], cs) }); p != "" {
				msg = p
			}
			l.Evals++
			if len(cs.Cols) >= 3 {
				l.Nontrivial++
			}
			l.Outcome(fmt.Sprintf("ok=%v", msg == ""))
			if msg != "" {
				sig := "text-vs-csv"
				if strings.HasPrefix(msg, "text layout:") {
					sig = "text-layout"
				}
				c.Fail(f, sig, cs, msg)
			}
		}
		l.Flush()
	})
	if done < uint64(len(cases)) {
		f.Capped(fmt.Sprintf("time cap: %d of %d cases", done, len(cases)))
	}
	f.Sample(c16TreeCase{"/a,/b,/c", []int{0, 4, 2}, 1})
	f.Done()
}

// ---- any number of warnings ----

type c16NotesCase struct {
	Rows  int // rows with a warning of their own each
	Files int
}

func c16NotesRun(dir string, cs c16NotesCase) string {
	var args []string
	for fi := 0; fi < cs.Files; fi++ {
		var b strings.Builder
		b.WriteString("Unit x/op assume=exact\n")
		for r := 0; r < cs.Rows; r++ {
			// an exact unit whose values differ: "exact distribution expected, but values range from A to B",
			// with A and B of this row only
			fmt.Fprintf(&b, "BenchmarkR%03d 1 %d x/op\nBenchmarkR%03d 1 %d x/op\n", r, 100+r+1000*fi, r, 200+r+1000*fi)
		}
		p := filepath.Join(dir, fmt.Sprintf("n%d.txt", fi))
		if err := os.WriteFile(p, []byte(b.String()), 0o644); err != nil {
			return err.Error()
		}
		args = append(args, p)
	}
	return c16CompareArgs(append([]string{"-format", "csv"}, args...))
}

func c16Notes(c *mc.Check) {
	replay := func(raw json.RawMessage) string {
		var cs c16NotesCase
		if err := json.Unmarshal(raw, &cs); err != nil {
			return err.Error()
		}
		dir, _ := os.MkdirTemp("", "verif-c16n-")
		defer os.RemoveAll(dir)
		var msg string
		if p := mc.Catch(func() { msg = c16NotesRun(dir, cs) }); p != "" {
			return p
		}
		return msg
	}
	maxRows := mc.Pick(c, 34, 130)
	f := c.Family("tables-with-many-footnotes", fmt.Sprintf("tables in which every row carries a warning of its own (a unit declared exact whose values differ: the message names the row's own range), for every number of rows from 1 to %d × 1–2 input files (the second file doubles the distinct messages), rendered as text and as CSV by the real benchstat: every footnote mark in the text resolves to a footnote, and each cell's resolved messages equal the CSV warnings of that cell; non-trivial = tables with ≥10 distinct footnotes (marks of several digits)", maxRows), replay)
	if c.Replaying() {
		return
	}
	dir, _ := os.MkdirTemp("", "verif-c16n-")
	defer os.RemoveAll(dir)
	for files := 1; files <= 2; files++ {
		for rows := 1; rows <= maxRows; rows++ {
			cs := c16NotesCase{rows, files}
			var msg string
			if p := mc.Catch(func() { msg = c16NotesRun(dir, cs) }); p != "" {
				msg = p
			}
			nt := int64(0)
			if rows*files >= 10 {
				nt = 1
			}
			f.Count(1, nt)
			f.Outcome(fmt.Sprintf("ok=%v", msg == ""), 1)
			if msg != "" {
				sig := "text-vs-csv"
				if strings.HasPrefix(msg, "text layout:") {
					sig = "text-layout"
				}
				c.Fail(f, sig, cs, msg)
			}
		}
	}
	f.Sample(c16NotesCase{12, 1})
	f.Done()
}

func c16TextVsCSV(c *mc.Check) {
	replay := func(raw json.RawMessage) string {
		var cs c14Case
		if err := json.Unmarshal(raw, &cs); err != nil {
			return err.Error()
		}
		dir, _ := os.MkdirTemp("", "verif-c16r-")
		defer os.RemoveAll(dir)
		var msg string
		if p := mc.Catch(func() { msg = c16Compare(dir, cs.Shape, cs.Flags) }); p != "" {
			return p
		}
		return msg
	}
	shapes := c14Shapes(false)
	if !c.Thorough() {
		shapes = shapes[:16]
	}
	var flags []c14Flags
	for _, f := range c14AllFlags() {
		if c.Thorough() || (f.Alpha == 0.05 && f.Confidence == 0.95) || (f.Alpha == 1 && f.Confidence == 0.5 && f.Filter == "*") {
			flags = append(flags, f)
		}
	}
	f := c.Family("text-vs-csv", fmt.Sprintf("%d dataset shapes × %d flag combinations, each rendered as text and as CSV by the real benchstat: the text is cut at the unit row's column bars (every header cell boundary must coincide with one, every column under exactly one header cell per level, no trailing blanks, every row parses) and compared with the CSV: same tables and key lines, unit, column headers per level, row labels, present cells, ± ranges, deltas, p/n strings, footnote-resolved warnings per cell, geomean row; every scaled number equals the CSV value to within half a unit of its last printed digit; non-trivial = tables with ≥2 columns", len(shapes), len(flags)), replay)
	if c.Replaying() {
		return
	}
	total := len(shapes) * len(flags)
	dirs := make([]string, mc.Workers())
	for i := range dirs {
		dirs[i], _ = os.MkdirTemp("", "verif-c16-")
		defer os.RemoveAll(dirs[i])
	}
	done := mc.ParRange(uint64(total), 16, c.TimeUp, func(w int, lo, hi uint64) {
		l := f.Local()
		for i := lo; i < hi; i++ {
			sh, fl := shapes[int(i)/len(flags)], flags[int(i)%len(flags)]
			var msg string
			if p := mc.Catch(func() { msg = c16Compare(dirs[w], sh, fl) }); p != "" {
				msg = p
			}
			l.Evals++
			if sh.Files > 1 || fl.Col != ".file" {
				l.Nontrivial++
			}
			l.Outcome(fmt.Sprintf("ok=%v", msg == ""))
			if msg != "" {
				sig := "text-vs-csv"
				if strings.HasPrefix(msg, "text layout:") {
					sig = "text-layout"
				}
				c.Fail(f, sig, c14Case{sh, fl}, msg)
			}
		}
		l.Flush()
	})
	if done < uint64(total) {
		f.Capped(fmt.Sprintf("time cap: %d of %d", done, total))
	}
	f.Sample(c14Case{shapes[2], flags[5]})
	f.Done()
}
