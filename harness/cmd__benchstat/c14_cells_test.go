//go:build verif

package main

import (
	"bytes"
	"encoding/json"
	"fmt"
	vref "golang.org/x/perf/internal/verifref"
	"math"
	"os"
	"sort"
	"strings"
	"testing"

	"golang.org/x/perf/benchmath"
	mc "golang.org/x/perf/internal/verifmc"
)

// ---- C14: benchstat puts each measurement in one cell and reports its true statistics ----

// filterKeep is the reference semantics of the four filters used.
func filterKeep(filter string, m measurement) bool {
	switch filter {
	case "*":
		return true
	case ".unit:ns/op":
		return m.Orig == "ns/op" || m.Unit == "ns/op"
	case "/k:1":
		return strings.Contains(m.Name, "/k=1")
	case "-.name:A":
		return m.Name != "A"
	}
	panic("unknown filter " + filter)
}

type expCellC14 struct {
	values  []float64
	residue map[string][][2]string // distinct residue tuples
	first   int                    // index of the first measurement (for column observation order)
}

type expTableC14 struct {
	key   [][2]string // table fields (without unit)
	unit  string
	rows  []string // labels, first-observation order
	cols  []string // labels
	colFV map[string][][2]string
	cells map[[2]string]*expCellC14 // (row label, col label)
}

func colOrderKey(fv [][2]string) string { return label(fv) }

// c14Expected builds the expected tables from the dataset description.
func c14Expected(ds dataset, args []string, fl c14Flags) (map[string]*expTableC14, []string) {
	ctx := newProjCtx(fl.Table, fl.Row, fl.Col, fl.Ignore)
	haveCfg, haveFull := false, false
	for _, e := range []string{fl.Table, fl.Row, fl.Col, fl.Ignore} {
		for _, k := range exprFields(e) {
			if k == ".config" {
				haveCfg = true
			}
			if k == ".fullname" {
				haveFull = true
			}
		}
	}
	tables := map[string]*expTableC14{}
	var order []string
	for i, m := range ds.measurements(args) {
		if !filterKeep(fl.Filter, m) {
			continue
		}
		tfv := ctx.fieldVals(fl.Table, m)
		tk := tupleKey(tfv) + "\x01" + m.Unit
		t := tables[tk]
		if t == nil {
			t = &expTableC14{key: tfv, unit: m.Unit, cells: map[[2]string]*expCellC14{}, colFV: map[string][][2]string{}}
			tables[tk] = t
			order = append(order, tk)
		}
		rl := label(ctx.fieldVals(fl.Row, m))
		cfv := ctx.fieldVals(fl.Col, m)
		cl := label(cfv)
		t.colFV[cl] = cfv
		ck := [2]string{rl, cl}
		c := t.cells[ck]
		if c == nil {
			c = &expCellC14{residue: map[string][][2]string{}, first: i}
			t.cells[ck] = c
			addOnce(&t.rows, rl)
			addOnce(&t.cols, cl)
		}
		c.values = append(c.values, m.Value)
		rv := ctx.residueVals(haveCfg, haveFull, m)
		c.residue[tupleKey(rv)] = rv
	}
	return tables, order
}

func addOnce(s *[]string, v string) {
	for _, x := range *s {
		if x == v {
			return
		}
	}
	*s = append(*s, v)
}

// varyingFields lists the residue fields that differ between the results of
// one cell, in residue field order (.config keys, then .fullname).
func varyingFields(res map[string][][2]string) []string {
	vals := map[string]map[string]bool{}
	var names []string
	n := 0
	for _, fv := range res {
		n++
		for _, kv := range fv {
			if vals[kv[0]] == nil {
				vals[kv[0]] = map[string]bool{}
				names = append(names, kv[0])
			}
			vals[kv[0]][kv[1]] = true
		}
	}
	var out []string
	for _, name := range names {
		present := 0
		for _, fv := range res {
			for _, kv := range fv {
				if kv[0] == name && kv[1] != "" {
					present++
				}
			}
		}
		if len(vals[name]) > 1 || (present != n && present != 0) {
			out = append(out, name)
		}
	}
	sort.Strings(out)
	return out
}

func c14Check(dir string, sh dsShape, fl c14Flags) string {
	ds, fileArgs := sh.write(dir)
	var out, errOut bytes.Buffer
	if err := benchstat(&out, &errOut, append(fl.args(), fileArgs...)); err != nil {
		return "benchstat: " + err.Error()
	}
	got, err := parseCSV(out.Bytes())
	if err != nil {
		return "cannot parse CSV output: " + err.Error() + "\n" + out.String()
	}
	warns := parseWarnings(errOut.Bytes())
	usedWarn := map[string]bool{}
	want, _ := c14Expected(ds, fileArgs, fl)
	// global first-observation order of column labels decides the baseline
	colFirst := map[string]int{}
	for _, t := range want {
		for ck, c := range t.cells {
			if f, ok := colFirst[ck[1]]; !ok || c.first < f {
				colFirst[ck[1]] = c.first
			}
		}
	}
	thr := &benchmath.Thresholds{CompareAlpha: fl.Alpha}
	matched := map[string]bool{}
	for _, gt := range got {
		// identify the expected table by key fields + unit
		var fv [][2]string
		for k, v := range gt.Key {
			fv = append(fv, [2]string{k, v})
		}
		tk := tupleKey(fv) + "\x01" + gt.Unit
		wt := want[tk]
		if wt == nil {
			return fmt.Sprintf("output has a table %v unit %s that no filtered measurement falls under", gt.Key, gt.Unit)
		}
		if matched[tk] {
			return fmt.Sprintf("table %v unit %s appears twice", gt.Key, gt.Unit)
		}
		matched[tk] = true
		var assumption benchmath.Assumption = benchmath.AssumeNothing
		if gt.Unit == "x/op" {
			assumption = benchmath.AssumeExact
		}
		// columns: labels from header values
		var gcols []string
		for _, hv := range gt.Cols {
			var parts []string
			for _, v := range hv {
				if v != "" {
					parts = append(parts, v)
				}
			}
			gcols = append(gcols, strings.Join(parts, " "))
		}
		if len(gcols) != len(wt.cols) || len(gt.Rows) != len(wt.rows) {
			return fmt.Sprintf("table %v %s: rows %q cols %q, want rows %q cols %q", gt.Key, gt.Unit, gt.Rows, gcols, wt.rows, wt.cols)
		}
		// baseline = first column in sorted (first-observation) order
		base := wt.cols[0]
		for _, cl := range wt.cols {
			if colFirst[cl] < colFirst[base] {
				base = cl
			}
		}
		if gcols[0] != base {
			return fmt.Sprintf("table %v %s: first column is %q, the first observed column value is %q", gt.Key, gt.Unit, gcols[0], base)
		}
		ncells := 0
		type colAgg struct {
			summaries, ratios []float64
			bad               bool
		}
		aggs := make([]colAgg, len(gcols))
		nBase := 0
		for ri, rl := range gt.Rows {
			if _, ok := wt.cells[[2]string{rl, base}]; ok {
				nBase++
			}
			for ci, cl := range gcols {
				gc, gok := gt.Cells[[2]int{ri, ci}]
				wc, wok := wt.cells[[2]string{rl, cl}]
				if gok != wok {
					return fmt.Sprintf("table %v %s: cell (%q,%q) present=%v, expected present=%v", gt.Key, gt.Unit, rl, cl, gok, wok)
				}
				if !wok {
					continue
				}
				ncells++
				sample := benchmath.NewSample(append([]float64{}, wc.values...), thr)
				sum := assumption.Summary(sample, fl.Confidence)
				if gc.Center != fmt.Sprint(sum.Center) || gc.CI != sum.PctRangeString() {
					return fmt.Sprintf("table %v %s cell (%q,%q): centre %s ±%s, expected %v ±%s from samples %v", gt.Key, gt.Unit, rl, cl, gc.Center, gc.CI, sum.Center, sum.PctRangeString(), wc.values)
				}
				aggs[ci].summaries = append(aggs[ci].summaries, sum.Center)
				var expWarn []string
				if vf := varyingFields(wc.residue); len(vf) > 0 {
					expWarn = append(expWarn, "benchmarks vary in "+strings.Join(vf, ", "))
				}
				for _, w := range sum.Warnings {
					expWarn = append(expWarn, w.Error())
				}
				ref := cellRef(gc.Line, gc.Col)
				usedWarn[ref] = true
				if !sameWarnings(warns[ref], expWarn) {
					return fmt.Sprintf("table %v %s cell (%q,%q) [%s]: warnings %q, expected %q", gt.Key, gt.Unit, rl, cl, ref, warns[ref], expWarn)
				}
				if cl != base {
					bc, ok := wt.cells[[2]string{rl, base}]
					if !ok {
						if gc.Delta != "" || gc.Cmp != "" {
							return fmt.Sprintf("table %v %s cell (%q,%q): comparison shown without a baseline cell", gt.Key, gt.Unit, rl, cl)
						}
						continue
					}
					bs := benchmath.NewSample(append([]float64{}, bc.values...), thr)
					bsum := assumption.Summary(bs, fl.Confidence)
					cmp := assumption.Compare(bs, sample)
					// the p-value also against a reference that does not go through benchmath: for the default
					// assumption and small samples without ties it is the exact permutation value of the U test
					if assumption == benchmath.AssumeNothing && len(bc.values)+len(wc.values) <= 12 && c14Untied(bc.values, wc.values) {
						if want := vref.ExactUTwoSided(bc.values, wc.values); !(math.Abs(cmp.P-want) <= 1e-9) || cmp.N1 != len(bc.values) || cmp.N2 != len(wc.values) {
							return fmt.Sprintf("table %v %s cell (%q,%q): the assumption's comparison gives p=%v n=%d+%d, the exact permutation value for base %v against %v is %v", gt.Key, gt.Unit, rl, cl, cmp.P, cmp.N1, cmp.N2, bc.values, wc.values, want)
						}
					}
					wd, wcmp := cmp.FormatDelta(bsum.Center, sum.Center), cmp.String()
					if gc.Delta != wd || gc.Cmp != wcmp {
						return fmt.Sprintf("table %v %s cell (%q,%q): delta %q %q, expected %q %q (base %v, samples %v)", gt.Key, gt.Unit, rl, cl, gc.Delta, gc.Cmp, wd, wcmp, bc.values, wc.values)
					}
					var cw []string
					for _, w := range cmp.Warnings {
						cw = append(cw, w.Error())
					}
					cref := cellRef(gc.Line, gc.Col+2)
					usedWarn[cref] = true
					if !sameWarnings(warns[cref], cw) {
						return fmt.Sprintf("table %v %s cell (%q,%q) [%s]: comparison warnings %q, expected %q", gt.Key, gt.Unit, rl, cl, cref, warns[cref], cw)
					}
					a, b := sum.Center, bsum.Center
					switch {
					case a == b:
						aggs[ci].ratios = append(aggs[ci].ratios, 1)
					case b == 0:
						aggs[ci].bad = true
						aggs[ci].ratios = append(aggs[ci].ratios, 0)
					default:
						aggs[ci].ratios = append(aggs[ci].ratios, a/b)
					}
				}
			}
		}
		if ncells != len(wt.cells) {
			return fmt.Sprintf("table %v %s: %d cells shown, %d expected", gt.Key, gt.Unit, ncells, len(wt.cells))
		}
		// geomean row
		for ci := range gcols {
			var ew []string
			g := gt.Geo[ci]
			if ci > 0 && nBase != len(aggs[ci].ratios) {
				ew = append(ew, "benchmark set differs from baseline; geomeans may not be comparable")
			}
			gm, ok := geomean(aggs[ci].summaries)
			if !ok {
				ew = append(ew, "summaries must be >0 to compute geomean")
				if g[0] != "" && ci == 0 {
					return fmt.Sprintf("table %v %s: geomean %q shown although a centre is not positive", gt.Key, gt.Unit, g[0])
				}
			} else if !closeStr(g[0], gm) {
				return fmt.Sprintf("table %v %s column %q: geomean %q, expected %v of centres %v", gt.Key, gt.Unit, gcols[ci], g[0], gm, aggs[ci].summaries)
			}
			if ci > 0 {
				switch {
				case aggs[ci].bad:
					if g[1] != "?" {
						return fmt.Sprintf("table %v %s column %q: ratio geomean %q, expected ? (a baseline centre is 0)", gt.Key, gt.Unit, gcols[ci], g[1])
					}
				default:
					rg, ok := geomean(aggs[ci].ratios)
					if !ok {
						ew = append(ew, "ratios must be >0 to compute geomean")
						if g[1] != "?" {
							return fmt.Sprintf("table %v %s column %q: ratio geomean %q, expected ?", gt.Key, gt.Unit, gcols[ci], g[1])
						}
					} else if w := fmt.Sprintf("%+.2f%%", (rg-1)*100); g[1] != w && !nearPct(g[1], (rg-1)*100) {
						return fmt.Sprintf("table %v %s column %q: ratio geomean %q, expected %s of ratios %v", gt.Key, gt.Unit, gcols[ci], g[1], w, aggs[ci].ratios)
					}
				}
			}
			gref := cellRef(gt.GeoLn, 1)
			if ci > 0 {
				gref = cellRef(gt.GeoLn, 3+(ci-1)*4)
			}
			usedWarn[gref] = true
			if !sameWarnings(warns[gref], ew) {
				return fmt.Sprintf("table %v %s geomean of column %q [%s]: warnings %q, expected %q", gt.Key, gt.Unit, gcols[ci], gref, warns[gref], ew)
			}
		}
	}
	if len(matched) != len(want) {
		return fmt.Sprintf("%d tables in the output, %d expected", len(matched), len(want))
	}
	for ref, msgs := range warns {
		if !usedWarn[ref] {
			return fmt.Sprintf("warning at %s that belongs to no cell: %q", ref, msgs)
		}
	}
	return ""
}

func geomean(xs []float64) (float64, bool) {
	if len(xs) == 0 {
		return 0, false
	}
	s := 0.0
	for _, x := range xs {
		if x <= 0 {
			return 0, false
		}
		s += math.Log(x)
	}
	return math.Exp(s / float64(len(xs))), true
}

func closeStr(s string, want float64) bool {
	var got float64
	if _, err := fmt.Sscan(s, &got); err != nil {
		return false
	}
	return math.Abs(got-want) <= 1e-12*math.Abs(want)
}

func nearPct(s string, want float64) bool {
	var got float64
	if _, err := fmt.Sscanf(s, "%f%%", &got); err != nil {
		return false
	}
	return math.Abs(got-want) <= 0.005000001
}

func sameWarnings(got, want []string) bool {
	g := normWarn(got)
	w := normWarn(want)
	sort.Strings(g)
	sort.Strings(w)
	return strings.Join(g, "\n") == strings.Join(w, "\n")
}

func c14Replay(raw json.RawMessage) string {
	var cs c14Case
	if err := json.Unmarshal(raw, &cs); err != nil {
		return err.Error()
	}
	dir, _ := os.MkdirTemp("", "verif-c14r-")
	defer os.RemoveAll(dir)
	var msg string
	if p := mc.Catch(func() { msg = c14Check(dir, cs.Shape, cs.Flags) }); p != "" {
		return p
	}
	return msg
}

func c14Run(c *mc.Check) {
	shapes := c14Shapes(c.Thorough())
	flags := c14AllFlags()
	f := c.Family("datasets-x-flags", fmt.Sprintf("%d dataset shapes from the grammar (1–3 input files incl. the same path twice and label=path, 1–2 configuration blocks per file with goos a/b or a note key varying inside a cell, 1–3 benchmarks A, B/k=1, B/k=2-4, units ns/op, B/op, x/op with assume=exact, 1/2/5 repetitions, shifted/equal/zero/negative values, a benchmark missing from one file) × the full product of %d flag combinations (-table {.config, goos, \"\"} × -row {.fullname, .name, /k} × -col {.file, goos, /k} × -ignore {\"\", note, goos, .fullname, .config} × -filter {*, .unit:ns/op, /k:1, -.name:A} × -alpha {0.05, 1} × -confidence {0.95, 0.5}), each run through the real benchstat entry point with CSV output: exactly the expected tables, rows, columns and cells; every cell's centre, interval, delta against the first observed column, p/n string and warnings equal benchmath applied to exactly the expected samples; geomean row and its warnings; 'benchmarks vary in' on exactly the cells merging results that differ in a residue key, naming exactly those keys; non-trivial = runs with ≥2 columns", len(shapes), len(flags)), c14Replay)
	if c.Replaying() {
		return
	}
	f.Bounds["shapes"] = len(shapes)
	f.Bounds["flag_combinations"] = len(flags)
	type job struct{ si, fi int }
	total := len(shapes) * len(flags)
	dirs := make([]string, mc.Workers())
	for i := range dirs {
		dirs[i], _ = os.MkdirTemp("", "verif-c14-")
		defer os.RemoveAll(dirs[i])
	}
	done := mc.ParRange(uint64(total), 16, c.TimeUp, func(w int, lo, hi uint64) {
		l := f.Local()
		for i := lo; i < hi; i++ {
			sh, fl := shapes[int(i)/len(flags)], flags[int(i)%len(flags)]
			var msg string
			if p := mc.Catch(func() { msg = c14Check(dirs[w], sh, fl) }); p != "" {
				msg = p
			}
			l.Evals++
			if sh.Files > 1 || fl.Col != ".file" {
				l.Nontrivial++
			}
			l.Outcome(fmt.Sprintf("files=%d ok=%v", sh.Files, msg == ""))
			if msg != "" {
				c.Fail(f, "benchstat-cells", c14Case{sh, fl}, msg)
			}
		}
		l.Flush()
	})
	if done < uint64(total) {
		f.Capped(fmt.Sprintf("time cap: %d of %d runs", done, total))
	}
	f.Sample(c14Case{shapes[2], flags[37]})
	f.Done()
}

// c14Collide: projections of several fields over values that concatenate equally.
func c14Collide(c *mc.Check) {
	shapes := []dsShape{
		{Files: 2, Blocks: "collide", Benches: 3, Units: "ns", Reps: 2, Pattern: "shifted", Collide: true},
		{Files: 1, Blocks: "collide", Benches: 3, Units: "ns+B", Reps: 5, Pattern: "shifted", Collide: true},
		{Files: 2, Blocks: "collide", Benches: 3, Units: "ns", Reps: 1, Pattern: "equal", Collide: true, Missing: true},
	}
	var flags []c14Flags
	for _, table := range []string{".config", "goos,note", ""} {
		for _, row := range []string{".name,/k", ".fullname", "/k,.name"} {
			for _, col := range []string{".file", "goos,note", "note,goos", ".name,/k"} {
				if row == col {
					continue
				}
				for _, ign := range []string{"", "note"} {
					flags = append(flags, c14Flags{table, row, col, ign, "*", 0.05, 0.95})
				}
			}
		}
	}
	f := c.Family("colliding-keys", fmt.Sprintf("%d dataset shapes whose benchmark names and configuration values differ but concatenate to the same bytes ((.name,/k) = (B,11) and (B1,1); (goos,note) = (ab,c) and (a,bc)) × %d flag combinations with projections of SEVERAL fields in -table, -row and -col: the same cell-for-cell oracle as datasets-x-flags — distinct key tuples are distinct tables, rows and columns; non-trivial = every run", len(shapes), len(flags)), c14Replay)
	if c.Replaying() {
		return
	}
	total := len(shapes) * len(flags)
	dirs := make([]string, mc.Workers())
	for i := range dirs {
		dirs[i], _ = os.MkdirTemp("", "verif-c14c-")
		defer os.RemoveAll(dirs[i])
	}
	mc.ParRange(uint64(total), 4, c.TimeUp, func(w int, lo, hi uint64) {
		l := f.Local()
		for i := lo; i < hi; i++ {
			sh, fl := shapes[int(i)/len(flags)], flags[int(i)%len(flags)]
			var msg string
			if p := mc.Catch(func() { msg = c14Check(dirs[w], sh, fl) }); p != "" {
				msg = p
			}
			l.Evals++
			l.Nontrivial++
			l.Outcome(fmt.Sprintf("ok=%v", msg == ""))
			if msg != "" {
				c.Fail(f, "benchstat-cells", c14Case{sh, fl}, msg)
			}
		}
		l.Flush()
	})
	f.Sample(c14Case{shapes[0], flags[3]})
	f.Done()
}

func TestVerifC14(t *testing.T) {
	c := mc.NewCheck("C14")
	c.Assume("cell statistics are benchmath (checked by C13) applied to the samples the oracle derives from the dataset description; key extraction follows the models checked by C05/C08")
	c14Run(c)
	c14Collide(c)
	if code := c.Finish(); code != 0 {
		os.Exit(code)
	}
}

// c14Untied reports whether all pooled values are distinct.
func c14Untied(a, b []float64) bool {
	seen := map[float64]bool{}
	for _, v := range append(append([]float64{}, a...), b...) {
		if seen[v] {
			return false
		}
		seen[v] = true
	}
	return true
}
