//go:build verif

package main

import (
	"bytes"
	"encoding/json"
	"fmt"
	"os"
	"os/exec"
	"path/filepath"
	"strconv"
	"strings"
	"testing"

	mc "golang.org/x/perf/internal/verifmc"
)

// ---- C15: the output of a run is a function of its arguments and files alone ----
//
// benchstat's entry point is run many times in ONE process with different
// argument vectors. Whatever ran before, a run must print exactly the bytes a
// FRESH process prints for the same arguments (the reference of every vector
// is produced by re-executing this test binary once per vector).

var c15aFiles = map[string]string{
	// A: 5 vs 5 clearly shifted samples (p = 0.008); B: overlapping (p ≈ 0.2); C only in old
	"old.txt": "goos: linux\nnote: x\n" +
		"BenchmarkA/k=1-4 1 100 ns/op 10 B/op\nBenchmarkA/k=1-4 1 101 ns/op 10 B/op\nBenchmarkA/k=1-4 1 102 ns/op 10 B/op\nBenchmarkA/k=1-4 1 103 ns/op 10 B/op\nBenchmarkA/k=1-4 1 104 ns/op 10 B/op\n" +
		"BenchmarkB 1 200 ns/op\nBenchmarkB 1 220 ns/op\nBenchmarkB 1 240 ns/op\nBenchmarkB 1 260 ns/op\n" +
		"note: y\nBenchmarkC 1 7 ns/op\nBenchmarkB 1 210 ns/op\n",
	"new.txt": "goos: linux\nnote: x\n" +
		"BenchmarkA/k=1-4 1 110 ns/op 10 B/op\nBenchmarkA/k=1-4 1 111 ns/op 12 B/op\nBenchmarkA/k=1-4 1 112 ns/op 10 B/op\nBenchmarkA/k=1-4 1 113 ns/op 10 B/op\nBenchmarkA/k=1-4 1 114 ns/op 10 B/op\n" +
		"BenchmarkB 1 230 ns/op\nBenchmarkB 1 250 ns/op\nBenchmarkB 1 255 ns/op\nBenchmarkB 1 270 ns/op\n",
}

// Argument vectors, simplest first. Every flag of the command occurs with a
// non-default value in at least one vector, and the defaults in the first.
var c15aVectors = [][]string{
	{},
	{"-format", "csv"},
	{"-alpha", "0.001"},
	{"-alpha", "1"},
	{"-confidence", "0.5"},
	{"-filter", ".unit:ns/op"},
	{"-row", ".name", "-col", ".file,/k"},
	{"-table", "goos", "-ignore", "note"},
	{"-alpha", "0.5", "-format", "csv", "-confidence", "0.99"},
	{"-filter", "-.name:B", "-row", ".fullname", "-table", ".config"},
}

func c15aRun(dir string, vi int) string {
	var out, errOut bytes.Buffer
	args := append(append([]string{}, c15aVectors[vi]...), filepath.Join(dir, "old.txt"), filepath.Join(dir, "new.txt"))
	err := benchstat(&out, &errOut, args)
	s := out.String() + "\x00" + errOut.String()
	if err != nil {
		s += "\x00error: " + err.Error()
	}
	return strings.ReplaceAll(s, dir, "<dir>")
}

func c15aWrite() string {
	dir, err := os.MkdirTemp("", "verif-c15a-")
	if err != nil {
		panic(err)
	}
	for n, t := range c15aFiles {
		os.WriteFile(filepath.Join(dir, n), []byte(t), 0o644)
	}
	return dir
}

// TestVerifC15Fresh is the body of the fresh process: one vector, output to stdout.
func TestVerifC15Fresh(t *testing.T) {
	v := os.Getenv("VERIF_C15_VECTOR")
	if v == "" {
		t.Skip()
	}
	vi, _ := strconv.Atoi(v)
	os.Stdout.WriteString("<<<" + c15aRun(os.Getenv("VERIF_C15_DIR"), vi) + ">>>")
}

func c15aFresh(dir string, vi int) (string, error) {
	cmd := exec.Command(os.Args[0], "-test.run", "^TestVerifC15Fresh$", "-test.count", "1")
	cmd.Env = append(os.Environ(), "VERIF_C15_VECTOR="+strconv.Itoa(vi), "VERIF_C15_DIR="+dir)
	out, err := cmd.Output()
	if err != nil {
		return "", fmt.Errorf("fresh process for vector %d: %v", vi, err)
	}
	s := string(out)
	i, j := strings.Index(s, "<<<"), strings.LastIndex(s, ">>>")
	if i < 0 || j < i {
		return "", fmt.Errorf("fresh process for vector %d printed no output", vi)
	}
	return s[i+3 : j], nil
}

type c15aCase struct {
	History []int // vectors run one after the other in one process
}

func c15aCheck(dir string, refs []string, hist []int) string {
	for step, vi := range hist {
		got := c15aRun(dir, vi)
		if got != refs[vi] {
			i := 0
			for i < len(got) && i < len(refs[vi]) && got[i] == refs[vi][i] {
				i++
			}
			lo := max(0, i-80)
			return fmt.Sprintf("run %d of the history %v (arguments %q, after %q in the same process) differs from what a fresh process prints for the same arguments, at byte %d:\n fresh: …%q\n here:  …%q", step+1, hist, c15aVectors[vi], histArgs(hist[:step]), i, refs[vi][lo:min(len(refs[vi]), i+80)], got[lo:min(len(got), i+80)])
		}
	}
	return ""
}

func histArgs(h []int) [][]string {
	var out [][]string
	for _, vi := range h {
		out = append(out, c15aVectors[vi])
	}
	return out
}

func c15aHistories(c *mc.Check, depth int) {
	dir := c15aWrite()
	defer os.RemoveAll(dir)
	var refs []string
	replay := func(raw json.RawMessage) string {
		var cs c15aCase
		if err := json.Unmarshal(raw, &cs); err != nil {
			return err.Error()
		}
		var msg string
		if p := mc.Catch(func() { msg = c15aCheck(dir, refs, cs.History) }); p != "" {
			return p
		}
		return msg
	}
	f := c.Family("argument-histories", fmt.Sprintf("every sequence of ≤%d runs of the real benchstat entry point in ONE process, each run with one of %d argument vectors (defaults; csv; -alpha 0.001 / 1 / 0.5; -confidence; -filter; -row/-col; -table/-ignore; combinations) on the same two files (a significant, an insignificant and a one-sided benchmark, a key varying inside a cell): every run prints exactly the bytes (stdout and stderr) that a FRESH process prints for the same arguments — the reference of each vector comes from re-executing the test binary once per vector; non-trivial = histories of ≥2 runs", depth, len(c15aVectors)), replay)
	for vi := range c15aVectors {
		r, err := c15aFresh(dir, vi)
		if err != nil {
			fmt.Println("HARNESS-ERROR:", err)
			os.Exit(2)
		}
		refs = append(refs, r)
	}
	if c.Replaying() {
		return
	}
	f.Bounds["max_runs"] = depth
	f.Bounds["argument_vectors"] = len(c15aVectors)
	distinct := map[string]bool{}
	for _, r := range refs {
		distinct[r] = true
	}
	f.Bounds["distinct_reference_outputs"] = len(distinct)
	// sequential by necessity: the state under test is process-wide
	for n := 1; n <= depth && !c.TimeUp(); n++ {
		mc.Sequences(len(c15aVectors), n, func(m []int) {
			hist := append([]int{}, m...)
			var msg string
			if p := mc.Catch(func() { msg = c15aCheck(dir, refs, hist) }); p != "" {
				msg = p
			}
			nt := int64(0)
			if n >= 2 {
				nt = 1
			}
			f.Count(1, nt)
			if msg != "" {
				f.Outcome("differs from a fresh process", 1)
				c.Fail(f, "argument-history", c15aCase{hist}, msg)
			} else {
				f.Outcome(fmt.Sprintf("length %d: every run as in a fresh process", n), 1)
			}
		})
	}
	f.Sample(c15aCase{[]int{2, 0}})
	f.Done()
}

func TestVerifC15(t *testing.T) {
	c := mc.NewCheck("C15")
	c15aHistories(c, mc.Pick(c, 3, 4))
	if code := c.Finish(); code != 0 {
		os.Exit(code)
	}
}
