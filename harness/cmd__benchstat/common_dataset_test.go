//go:build verif

package main

import (
	"bytes"
	"encoding/csv"
	"fmt"
	"os"
	"path/filepath"
	"sort"
	"strings"

	ref "golang.org/x/perf/internal/verifref"
)

// ---- dataset descriptions shared by C14 and C16 ----

// A dsLine is one benchmark line of a dataset description.
type dsLine struct {
	Name  string
	Units []string  // written units
	Vals  []float64 // one value per unit
}

type dsBlock struct {
	Cfg   [][2]string // file configuration in effect for the block
	Lines []dsLine
}

type dsFile struct {
	Path   string // file name inside the scratch dir
	Label  string // non-empty: passed as label=path
	Blocks []dsBlock
}

type dataset struct {
	Files    []dsFile
	UnitMeta []string // unit metadata lines, written at the top of the first file
}

// A dsShape parametrises the dataset grammar.
type dsShape struct {
	Files   int    // 1, 2, 3; 3 = third argument repeats the first path
	Labeled bool   // second file given as label=path
	Blocks  string // "a", "ab" (goos a then goos b), "notes" (goos a note x, goos a note y), "note-dropped" / "note-late" / "two-dropped" (keys present in some blocks and absent in others)
	Benches int    // 1..3 of A, B/k=1, B/k=2-4
	Units   string // "ns", "ns+B", "ns+x" (x/op with assume=exact), "ns+alt" (second unit alternates between lines), "ns|sec" / "sec|ns" (one file writes ns/op, the other sec/op), "ns+Bnew" (the first benchmark reports B/op in the second file only)
	Reps    int
	// RepsNew: repetitions in the files after the first, if they differ from Reps (cells of unequal sizes)
	RepsNew int    `json:",omitempty"`
	Pattern string // "shifted", "equal", "zero", "negative"
	Missing bool   // the last benchmark is missing from the second file
	// MissingFirst: the first benchmark is missing from the first file, so a
	// row exists that has no baseline cell.
	MissingFirst bool
	// Collide: benchmark names and configuration values whose fields differ but concatenate to the same bytes
	// ((.name,/k) = (B,11) and (B1,1); (goos,note) = (ab,c) and (a,bc)), for projections of several fields
	Collide bool
}

var dsBenchNames = []string{"A", "B/k=1", "B/k=2-4"}
var dsCollideNames = []string{"A", "B/k=11", "B1/k=1"}

func (s dsShape) build() dataset {
	var ds dataset
	units := map[string][]string{"ns": {"ns/op"}, "ns+B": {"ns/op", "B/op"}, "ns+x": {"ns/op", "x/op"}, "ns+alt": {"ns/op", "B/op"}, "ns|sec": {"ns/op"}, "sec|ns": {"ns/op"}, "ns+Bnew": {"ns/op", "B/op"}}[s.Units]
	if s.Units == "ns+x" {
		ds.UnitMeta = []string{"Unit x/op assume=exact"}
	}
	nfiles := s.Files
	if nfiles == 3 {
		nfiles = 2
	}
	for fi := 0; fi < nfiles; fi++ {
		f := dsFile{Path: fmt.Sprintf("f%d.txt", fi)}
		if fi == 1 && s.Labeled {
			f.Label = "new"
		}
		var cfgs [][][2]string
		switch s.Blocks {
		case "a":
			cfgs = [][][2]string{{{"goos", "a"}}}
		case "ab":
			cfgs = [][][2]string{{{"goos", "a"}}, {{"goos", "b"}}}
		case "notes":
			cfgs = [][][2]string{{{"goos", "a"}, {"note", "x"}}, {{"goos", "a"}, {"note", "y"}}}
		case "note-dropped":
			// a key present on the first results and absent (deleted by an empty-valued line) later
			cfgs = [][][2]string{{{"goos", "a"}, {"note", "x"}}, {{"goos", "a"}}}
		case "note-late":
			cfgs = [][][2]string{{{"goos", "a"}}, {{"goos", "a"}, {"note", "y"}}}
		case "two-dropped":
			cfgs = [][][2]string{{{"goos", "a"}, {"note", "x"}, {"tag", "t"}}, {{"goos", "a"}}, {{"goos", "a"}, {"tag", "t"}}}
		case "collide":
			cfgs = [][][2]string{{{"goos", "ab"}, {"note", "c"}}, {{"goos", "a"}, {"note", "bc"}}}
		}
		for bi, cfg := range cfgs {
			blk := dsBlock{Cfg: cfg}
			reps := s.Reps
			if fi > 0 && s.RepsNew > 0 {
				reps = s.RepsNew
			}
			for rep := 0; rep < reps; rep++ {
				for ni := 0; ni < s.Benches; ni++ {
					if s.Missing && fi == 1 && ni == s.Benches-1 && s.Benches > 1 {
						continue
					}
					if s.MissingFirst && fi == 0 && ni == 0 && s.Benches > 1 && s.Files > 1 {
						continue
					}
					ln := dsLine{Name: dsBenchNames[ni], Units: units}
					// one metric under two spellings: one file writes ns/op, the other writes the base unit sec/op
					inSec := (s.Units == "ns|sec" && fi == 1) || (s.Units == "sec|ns" && fi == 0)
					if inSec {
						ln.Units = []string{"sec/op"}
					}
					if s.Units == "ns+Bnew" && ni == 0 && fi == 0 {
						// the first benchmark reports the second unit in the new file only: in that unit's table its
						// row has no baseline cell, while the other benchmarks' rows do (and in the first unit's
						// table its row has one)
						ln.Units = []string{"ns/op"}
					}
					if s.Collide {
						ln.Name = dsCollideNames[ni]
					}
					if s.Units == "ns+alt" && rep%2 == 1 {
						// consecutive lines of one benchmark whose later units differ
						ln.Units = []string{"ns/op", "allocs/op"}
					}
					for ui := range units {
						base := float64(100 * (ni + 1) * (ui + 1))
						var v float64
						switch s.Pattern {
						case "shifted":
							v = base*(1+0.25*float64(fi)) + float64(rep) + 10*float64(bi)
						case "equal":
							v = base
						case "zero":
							v = 0
							if ni > 0 {
								v = base + float64(fi)
							}
						case "negative":
							v = -base - float64(rep) - 5*float64(fi)
						}
						if units[ui] == "x/op" {
							v = base + float64(fi) // exact: the same in every repetition
						}
						if inSec {
							v *= 1e-9
						}
						ln.Vals = append(ln.Vals, v)
					}
					blk.Lines = append(blk.Lines, ln)
				}
			}
			f.Blocks = append(f.Blocks, blk)
		}
		ds.Files = append(ds.Files, f)
	}
	return ds
}

// write writes the files and returns the command-line arguments for them.
func (s dsShape) write(dir string) (dataset, []string) {
	ds := s.build()
	var args []string
	for fi, f := range ds.Files {
		var b strings.Builder
		if fi == 0 {
			for _, u := range ds.UnitMeta {
				b.WriteString(u + "\n")
			}
		}
		cur := map[string]string{}
		for _, blk := range f.Blocks {
			want := map[string]string{}
			for _, kv := range blk.Cfg {
				want[kv[0]] = kv[1]
			}
			for k := range cur {
				if _, ok := want[k]; !ok {
					fmt.Fprintf(&b, "%s:\n", k)
					delete(cur, k)
				}
			}
			for _, kv := range blk.Cfg {
				if cur[kv[0]] != kv[1] {
					fmt.Fprintf(&b, "%s: %s\n", kv[0], kv[1])
					cur[kv[0]] = kv[1]
				}
			}
			for _, ln := range blk.Lines {
				fmt.Fprintf(&b, "Benchmark%s 1", ln.Name)
				for i, u := range ln.Units {
					fmt.Fprintf(&b, " %v %s", ln.Vals[i], u)
				}
				b.WriteString("\n")
			}
		}
		p := filepath.Join(dir, f.Path)
		os.WriteFile(p, []byte(b.String()), 0o644)
		if f.Label != "" {
			args = append(args, f.Label+"="+p)
		} else {
			args = append(args, p)
		}
	}
	if s.Files == 3 {
		args = append(args, filepath.Join(dir, ds.Files[0].Path))
	}
	return ds, args
}

// A measurement is one value of the dataset with everything keys can see.
type measurement struct {
	File  string // .file label
	Cfg   [][2]string
	Name  string
	Unit  string // base unit
	Orig  string // written unit
	Value float64
}

// measurements lists the dataset's measurements in input order, with the
// .file labels the documented rules assign to the given arguments.
func (ds dataset) measurements(args []string) []measurement {
	count := map[string]int{}
	for _, a := range args {
		if !strings.Contains(a, "=") {
			count[a]++
		}
	}
	seen := map[string]int{}
	var out []measurement
	for _, a := range args {
		label, path := a, a
		if i := strings.Index(a, "="); i >= 0 {
			label, path = a[:i], a[i+1:]
		} else if count[a] > 1 {
			label = fmt.Sprintf("%s#%d", a, seen[a])
			seen[a]++
		}
		var f *dsFile
		for i := range ds.Files {
			if strings.HasSuffix(path, "/"+ds.Files[i].Path) {
				f = &ds.Files[i]
			}
		}
		for _, blk := range f.Blocks {
			for _, ln := range blk.Lines {
				for i, u := range ln.Units {
					v := ref.MakeVal(ln.Vals[i], u)
					out = append(out, measurement{File: label, Cfg: blk.Cfg, Name: ln.Name, Unit: v.Unit, Orig: u, Value: v.Value})
				}
			}
		}
	}
	return out
}

func (m measurement) cfg(key string) string {
	if key == ".file" {
		return m.File
	}
	for _, kv := range m.Cfg {
		if kv[0] == key {
			return kv[1]
		}
	}
	return ""
}

// exprFields splits a projection expression into its keys.
func exprFields(expr string) []string {
	var out []string
	for _, p := range strings.FieldsFunc(expr, func(r rune) bool { return r == ',' || r == ' ' }) {
		if i := strings.IndexByte(p, '@'); i >= 0 {
			p = p[:i]
		}
		out = append(out, p)
	}
	return out
}

type projCtx struct {
	cfgKeys  map[string]bool
	nameKeys []string
}

func newProjCtx(exprs ...string) projCtx {
	c := projCtx{cfgKeys: map[string]bool{}}
	for _, e := range exprs {
		for _, k := range exprFields(e) {
			switch {
			case k == ".config" || k == ".fullname":
			case k == ".name" || strings.HasPrefix(k, "/"):
				c.nameKeys = append(c.nameKeys, k)
			default:
				c.cfgKeys[k] = true
			}
		}
	}
	return c
}

// fieldVals returns the (field name, value) pairs of a projection on a
// measurement, in field order; .config expands to its non-excluded file keys
// sorted by name (the order is irrelevant for the set comparisons made here).
func (c projCtx) fieldVals(expr string, m measurement) [][2]string {
	var out [][2]string
	for _, k := range exprFields(expr) {
		switch {
		case k == ".config":
			var kv [][2]string
			for _, e := range m.Cfg {
				if !c.cfgKeys[e[0]] {
					kv = append(kv, e)
				}
			}
			sort.Slice(kv, func(i, j int) bool { return kv[i][0] < kv[j][0] })
			out = append(out, kv...)
		case k == ".fullname":
			out = append(out, [2]string{k, ref.NameWithout(m.Name, c.nameKeys)})
		case k == ".name" || strings.HasPrefix(k, "/"):
			out = append(out, [2]string{k, ref.NameKey(m.Name, k)})
		default:
			out = append(out, [2]string{k, m.cfg(k)})
		}
	}
	return out
}

func tupleKey(fv [][2]string) string {
	var parts []string
	for _, kv := range fv {
		if kv[1] != "" {
			parts = append(parts, kv[0]+"="+kv[1])
		}
	}
	sort.Strings(parts)
	return strings.Join(parts, "\x00")
}

// label is Key.StringValues: the non-empty values joined by blanks.
func label(fv [][2]string) string {
	var parts []string
	for _, kv := range fv {
		if kv[1] != "" {
			parts = append(parts, kv[1])
		}
	}
	return strings.Join(parts, " ")
}

// residueDiff returns the residue fields in which two measurements differ.
func (c projCtx) residueVals(haveCfg, haveFull bool, m measurement) [][2]string {
	var out [][2]string
	if !haveCfg {
		out = append(out, c.fieldVals(".config", m)...)
	}
	if !haveFull {
		out = append(out, c.fieldVals(".fullname", m)...)
	}
	return out
}

type c14Flags struct {
	Table, Row, Col, Ignore, Filter string
	Alpha, Confidence               float64
}

func (f c14Flags) args() []string {
	return []string{"-format", "csv", "-table", f.Table, "-row", f.Row, "-col", f.Col, "-ignore", f.Ignore, "-filter", f.Filter,
		"-alpha", fmt.Sprint(f.Alpha), "-confidence", fmt.Sprint(f.Confidence)}
}

type c14Case struct {
	Shape dsShape
	Flags c14Flags
}

// normWarn sorts the key names of a "benchmarks vary in" warning: the property
// fixes which keys are named, not their order.
func normWarn(ws []string) []string {
	out := make([]string, len(ws))
	for i, w := range ws {
		if rest, ok := strings.CutPrefix(w, "benchmarks vary in "); ok {
			names := strings.Split(rest, ", ")
			sort.Strings(names)
			w = "benchmarks vary in " + strings.Join(names, ", ")
		}
		out[i] = w
	}
	return out
}

func c14Shapes(thorough bool) []dsShape {
	quick := []dsShape{
		{Files: 1, Blocks: "a", Benches: 1, Units: "ns", Reps: 1, Pattern: "shifted"},
		{Files: 2, Blocks: "a", Benches: 2, Units: "ns", Reps: 5, Pattern: "shifted"},
		{Files: 2, Blocks: "ab", Benches: 3, Units: "ns+B", Reps: 2, Pattern: "shifted"},
		{Files: 2, Blocks: "notes", Benches: 2, Units: "ns", Reps: 2, Pattern: "shifted"},
		{Files: 3, Blocks: "a", Benches: 2, Units: "ns+x", Reps: 2, Pattern: "equal"},
		{Files: 2, Labeled: true, Blocks: "ab", Benches: 3, Units: "ns", Reps: 5, Pattern: "shifted", Missing: true},
		{Files: 2, Blocks: "a", Benches: 3, Units: "ns+B", Reps: 2, Pattern: "zero"},
		{Files: 2, Blocks: "notes", Benches: 3, Units: "ns+x", Reps: 5, Pattern: "negative", Missing: true},
		{Files: 1, Blocks: "ab", Benches: 3, Units: "ns+B", Reps: 5, Pattern: "shifted"},
		{Files: 3, Labeled: true, Blocks: "notes", Benches: 1, Units: "ns", Reps: 1, Pattern: "equal"},
		{Files: 2, Blocks: "ab", Benches: 2, Units: "ns+x", Reps: 1, Pattern: "negative"},
		{Files: 1, Blocks: "notes", Benches: 3, Units: "ns", Reps: 2, Pattern: "zero"},
		{Files: 2, Blocks: "a", Benches: 3, Units: "ns", Reps: 5, Pattern: "shifted", MissingFirst: true},
		{Files: 2, Blocks: "ab", Benches: 2, Units: "ns+B", Reps: 2, Pattern: "shifted", Missing: true, MissingFirst: true},
		{Files: 2, Blocks: "a", Benches: 1, Units: "ns+alt", Reps: 5, Pattern: "shifted"},
		{Files: 1, Blocks: "notes", Benches: 1, Units: "ns+alt", Reps: 2, Pattern: "equal"},
		{Files: 2, Blocks: "a", Benches: 2, Units: "ns|sec", Reps: 5, Pattern: "shifted"},
		{Files: 2, Blocks: "ab", Benches: 2, Units: "sec|ns", Reps: 2, Pattern: "shifted"},
		{Files: 2, Blocks: "a", Benches: 2, Units: "ns+Bnew", Reps: 5, Pattern: "shifted"},
		{Files: 2, Blocks: "ab", Benches: 3, Units: "ns+Bnew", Reps: 2, Pattern: "shifted"},
		{Files: 2, Blocks: "a", Benches: 2, Units: "ns", Reps: 5, RepsNew: 3, Pattern: "shifted"},
		{Files: 2, Blocks: "ab", Benches: 3, Units: "ns+B", Reps: 2, RepsNew: 5, Pattern: "shifted"},
		{Files: 3, Blocks: "a", Benches: 1, Units: "ns", Reps: 4, RepsNew: 7, Pattern: "negative"},
		{Files: 2, Blocks: "note-dropped", Benches: 2, Units: "ns", Reps: 2, Pattern: "shifted"},
		{Files: 1, Blocks: "note-late", Benches: 2, Units: "ns+B", Reps: 2, Pattern: "shifted"},
		{Files: 2, Blocks: "two-dropped", Benches: 1, Units: "ns", Reps: 5, Pattern: "shifted"},
		{Files: 3, Labeled: true, Blocks: "note-dropped", Benches: 3, Units: "ns+x", Reps: 1, Pattern: "equal", Missing: true},
	}
	var all []dsShape
	for _, files := range []int{1, 2, 3} {
		for _, labeled := range []bool{false, true} {
			if labeled && files == 1 {
				continue
			}
			for _, blocks := range []string{"a", "ab", "notes", "note-dropped", "note-late", "two-dropped"} {
				for _, benches := range []int{1, 3} {
					for _, units := range []string{"ns", "ns+B", "ns+x"} {
						for _, reps := range []int{1, 5} {
							for _, pat := range []string{"shifted", "equal", "zero", "negative"} {
								for _, missing := range []bool{false, true} {
									if missing && (files == 1 || benches == 1) {
										continue
									}
									if (reps == 1) != (pat == "equal" || pat == "zero") && units != "ns" {
										continue
									}
									all = append(all, dsShape{Files: files, Labeled: labeled, Blocks: blocks, Benches: benches, Units: units, Reps: reps, Pattern: pat, Missing: missing, MissingFirst: missing && reps == 5})
								}
							}
						}
					}
				}
			}
		}
	}
	if !thorough {
		// quick: the hand-picked shapes plus every 6th shape of the grammar
		for i := 0; i < len(all); i += 6 {
			quick = append(quick, all[i])
		}
		return quick
	}
	return append(quick, all...)
}

func c14AllFlags() []c14Flags {
	var out []c14Flags
	for _, table := range []string{".config", "goos", ""} {
		for _, row := range []string{".fullname", ".name", "/k"} {
			for _, col := range []string{".file", "goos", "/k"} {
				for _, ign := range []string{"", "note", "goos", ".fullname", ".config"} {
					for _, flt := range []string{"*", ".unit:ns/op", "/k:1", "-.name:A"} {
						for _, alpha := range []float64{0.05, 1} {
							for _, conf := range []float64{0.95, 0.5} {
								out = append(out, c14Flags{table, row, col, ign, flt, alpha, conf})
							}
						}
					}
				}
			}
		}
	}
	return out
}

// ---- CSV output parser ----

type csvCell struct {
	Center, CI, Delta, Cmp string
	Line, Col              int // 1-based CSV record number and 0-based column of the centre
}

type csvTable struct {
	Key   map[string]string // table key lines in effect (field -> value)
	Unit  string
	Cols  [][]string // per column: header values, one per column field
	Rows  []string
	Cells map[[2]int]csvCell // (row index, col index)
	Geo   map[int][2]string  // col -> (summary, ratio)
	GeoLn int
}

func parseCSV(out []byte) ([]csvTable, error) {
	r := csv.NewReader(bytes.NewReader(out))
	r.FieldsPerRecord = -1
	// The reader skips the empty lines between tables, but warnings refer to
	// physical lines, so record each record's line.
	var recs [][]string
	var lines []int
	for {
		rec, err := r.Read()
		if err != nil {
			if err.Error() == "EOF" {
				break
			}
			return nil, err
		}
		ln, _ := r.FieldPos(0)
		recs = append(recs, rec)
		lines = append(lines, ln)
	}
	var tables []csvTable
	key := map[string]string{}
	startCol := func(exp int) int {
		if exp == 0 {
			return 1
		}
		return 1 + 2 + (exp-1)*4
	}
	colOf := func(idx int) int {
		if idx == 1 {
			return 0
		}
		if idx >= 3 && (idx-3)%4 == 0 {
			return (idx-3)/4 + 1
		}
		return -1
	}
	i := 0
	for i < len(recs) {
		rec := recs[i]
		if len(rec) == 1 {
			if rec[0] != "" {
				k, v, ok := strings.Cut(rec[0], ": ")
				if !ok {
					k, v, ok = strings.Cut(rec[0], ":")
					if !ok {
						return nil, fmt.Errorf("line %d: unexpected single cell %q", i+1, rec[0])
					}
				}
				key[k] = v
			}
			i++
			continue
		}
		t := csvTable{Key: map[string]string{}, Cells: map[[2]int]csvCell{}, Geo: map[int][2]string{}}
		for k, v := range key {
			t.Key[k] = v
		}
		// column header rows until the unit row
		var hdr [][]string
		for i < len(recs) && !(len(recs[i]) >= 3 && recs[i][2] == "CI" && recs[i][0] == "") {
			if len(recs[i]) < 2 || recs[i][0] != "" {
				return nil, fmt.Errorf("line %d: expected a column header row, got %q", i+1, recs[i])
			}
			hdr = append(hdr, recs[i])
			i++
		}
		if i >= len(recs) {
			return nil, fmt.Errorf("table without unit row")
		}
		unitRow := recs[i]
		t.Unit = unitRow[1]
		ncols := 0
		for idx := range unitRow {
			if c := colOf(idx); c >= 0 && unitRow[idx] == t.Unit {
				ncols = c + 1
			}
		}
		for c := 0; c < ncols; c++ {
			var vals []string
			for _, h := range hdr {
				v := ""
				if startCol(c) < len(h) {
					v = h[startCol(c)]
				}
				vals = append(vals, v)
			}
			t.Cols = append(t.Cols, vals)
		}
		i++
		for i < len(recs) && len(recs[i]) > 1 || (i < len(recs) && len(recs[i]) == 1 && recs[i][0] == "geomean") {
			rec := recs[i]
			if rec[0] == "geomean" {
				t.GeoLn = lines[i]
				for c := 0; c < ncols; c++ {
					var g [2]string
					if sc := startCol(c); sc < len(rec) {
						g[0] = rec[sc]
					}
					if c > 0 {
						if sc := startCol(c) + 2; sc < len(rec) {
							g[1] = rec[sc]
						}
					}
					t.Geo[c] = g
				}
				i++
				break
			}
			ri := len(t.Rows)
			t.Rows = append(t.Rows, rec[0])
			for c := 0; c < ncols; c++ {
				sc := startCol(c)
				if sc >= len(rec) || rec[sc] == "" {
					continue
				}
				cell := csvCell{Center: rec[sc], Line: lines[i], Col: sc}
				if sc+1 < len(rec) {
					cell.CI = rec[sc+1]
				}
				if c > 0 {
					if sc+2 < len(rec) {
						cell.Delta = rec[sc+2]
					}
					if sc+3 < len(rec) {
						cell.Cmp = rec[sc+3]
					}
				}
				t.Cells[[2]int{ri, c}] = cell
			}
			i++
		}
		tables = append(tables, t)
	}
	return tables, nil
}

// parseWarnings parses the CSV warning stream: "B5: message".
func parseWarnings(errOut []byte) map[string][]string {
	out := map[string][]string{}
	for _, l := range strings.Split(strings.TrimSpace(string(errOut)), "\n") {
		if l == "" {
			continue
		}
		ref, msg, ok := strings.Cut(l, ": ")
		if !ok {
			out["?"] = append(out["?"], l)
			continue
		}
		out[ref] = append(out[ref], msg)
	}
	return out
}

// cellRef is the spreadsheet label of the cell in the 0-based column col of
// the 1-based line: A…Z, AA, AB, … (bijective base 26).
func cellRef(line, col int) string {
	name := ""
	for n := col + 1; n > 0; n = (n - 1) / 26 {
		name = string(rune('A'+(n-1)%26)) + name
	}
	return fmt.Sprintf("%s%d", name, line)
}
