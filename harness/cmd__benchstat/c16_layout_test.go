//go:build verif

package main

import (
	"bytes"
	"encoding/json"
	"fmt"
	"os"
	"sort"
	"strings"
	"testing"
	"unicode/utf8"

	"golang.org/x/perf/benchfmt"
	"golang.org/x/perf/benchproc"
	"golang.org/x/perf/cmd/benchstat/internal/texttab"
	mc "golang.org/x/perf/internal/verifmc"
)

// ---- C16: text tables are laid out without loss and agree with the CSV rendering ----

type ttCell struct {
	Row, Col, Span int
	Width          int    // rune width of the content; 0 = empty value
	Align          string // L, C, R
	Margin         string // "d" default, or an explicit left margin
	Token          string // filled in by build
}

type ttSpec struct {
	Cells  []ttCell
	Shrink []bool
}

// ttToken returns a unique content of the given rune width for cell i; widths
// ≥ 2 contain a multi-byte rune.
func ttToken(i, w int) string {
	if w == 0 {
		return ""
	}
	id := string(rune('A' + i%26))
	if w == 1 {
		return id
	}
	s := id + "µ"
	for utf8.RuneCountInString(s) < w {
		s += strings.ToLower(id)
	}
	return s
}

func (s *ttSpec) render() (string, error) {
	var t texttab.Table
	row := -1
	for i := range s.Cells {
		c := &s.Cells[i]
		c.Token = ttToken(i, c.Width)
		for row < c.Row {
			t.Row()
			row++
		}
		t.Col(c.Col)
		var opts []texttab.CellOption
		switch c.Align {
		case "C":
			opts = append(opts, texttab.Center)
		case "R":
			opts = append(opts, texttab.Right)
		}
		if c.Margin != "d" {
			opts = append(opts, texttab.LeftMargin(c.Margin))
		}
		t.Span(c.Span, c.Token, opts...)
	}
	for i, sh := range s.Shrink {
		if sh {
			t.SetShrink(i, true)
		}
	}
	var b bytes.Buffer
	err := t.Format(&b)
	return b.String(), err
}

func runeIndex(line, tok string) int {
	i := strings.Index(line, tok)
	if i < 0 {
		return -1
	}
	return utf8.RuneCountInString(line[:i])
}

// checkLayout verifies the layout contract on the rendered text.
func (s *ttSpec) checkLayout(out string) string {
	lines := strings.Split(strings.TrimSuffix(out, "\n"), "\n")
	// no line ends in blanks
	for i, l := range lines {
		if strings.TrimRight(l, " ") != l {
			return fmt.Sprintf("line %d ends in blanks: %q", i, l)
		}
	}
	type placed struct {
		c          ttCell
		start, end int // rune offsets of the content
	}
	var cells []placed
	// rows may be skipped entirely in the output only if all their cells are empty
	lineOf := map[int]int{}
	next := 0
	rows := map[int]bool{}
	for _, c := range s.Cells {
		if c.Width > 0 || strings.TrimSpace(c.Margin) != "" && c.Margin != "d" {
			rows[c.Row] = true
		}
	}
	maxRow := -1
	for _, c := range s.Cells {
		if c.Row > maxRow {
			maxRow = c.Row
		}
	}
	lastPrinted := -1
	for r := 0; r <= maxRow; r++ {
		if rows[r] {
			lastPrinted = r
		}
	}
	// Each row up to the last printed one occupies one line.
	for r := 0; r <= lastPrinted; r++ {
		lineOf[r] = next
		next++
	}
	if len(lines) != next && !(next == 0 && out == "") && !(next == 0 && len(lines) == 1 && lines[0] == "") {
		return fmt.Sprintf("%d lines for %d rows: %q", len(lines), next, out)
	}
	for _, c := range s.Cells {
		if c.Width == 0 {
			continue
		}
		ln, ok := lineOf[c.Row]
		if !ok || ln >= len(lines) {
			return fmt.Sprintf("row %d has no line", c.Row)
		}
		p := runeIndex(lines[ln], c.Token)
		if p < 0 {
			return fmt.Sprintf("cell %q (row %d col %d span %d) is missing or truncated in line %q", c.Token, c.Row, c.Col, c.Span, lines[ln])
		}
		cells = append(cells, placed{c, p, p + utf8.RuneCountInString(c.Token)})
	}
	// order and no overlap within a row
	for i := range cells {
		for j := range cells {
			a, b := cells[i], cells[j]
			if a.c.Row == b.c.Row && a.c.Col < b.c.Col && a.end > b.start {
				return fmt.Sprintf("cells %q and %q overlap or are out of order in row %d", a.c.Token, b.c.Token, a.c.Row)
			}
		}
	}
	// every logical column starts at the same offset on every line (left-
	// aligned cells) and right-aligned cells ending at the same column
	// boundary end at the same offset
	startOf := map[int]int{}
	endOf := map[int]int{}
	for _, p := range cells {
		if p.c.Align == "L" {
			if s0, ok := startOf[p.c.Col]; ok && s0 != p.start {
				return fmt.Sprintf("left-aligned cells of column %d start at offsets %d and %d", p.c.Col, s0, p.start)
			}
			startOf[p.c.Col] = p.start
		}
		if p.c.Align == "R" {
			e := p.c.Col + p.c.Span
			if e0, ok := endOf[e]; ok && e0 != p.end {
				return fmt.Sprintf("right-aligned cells ending at column boundary %d end at offsets %d and %d", e, e0, p.end)
			}
			endOf[e] = p.end
		}
	}
	// a cell lies inside the columns it spans: it does not start before the
	// end of a right-aligned cell ending at its first boundary, and does not
	// end after the content start of cells beginning at its last boundary.
	for _, p := range cells {
		if e, ok := endOf[p.c.Col]; ok && p.start < e {
			return fmt.Sprintf("cell %q (col %d) starts at %d, before column boundary %d at %d", p.c.Token, p.c.Col, p.start, p.c.Col, e)
		}
		if st, ok := startOf[p.c.Col+p.c.Span]; ok && p.end > st {
			return fmt.Sprintf("cell %q (cols %d–%d) ends at %d, beyond the start of column %d at %d", p.c.Token, p.c.Col, p.c.Col+p.c.Span-1, p.end, p.c.Col+p.c.Span, st)
		}
		if e, ok := endOf[p.c.Col+p.c.Span]; ok && p.end > e {
			return fmt.Sprintf("cell %q ends at %d, beyond the right edge %d of its last column", p.c.Token, p.end, e)
		}
		// a centred cell sits in the middle of its columns (rounded down)
		if st, ok := startOf[p.c.Col]; ok && p.c.Align == "C" {
			if e, ok := endOf[p.c.Col+p.c.Span]; ok {
				tw := e - st
				if want := st + (tw-(p.end-p.start))/2; p.start != want && tw >= p.end-p.start {
					return fmt.Sprintf("centred cell %q occupies [%d,%d) inside columns spanning [%d,%d); expected to start at %d", p.c.Token, p.start, p.end, st, e, want)
				}
			}
		}
		if st, ok := startOf[p.c.Col]; ok && p.start < st && p.c.Align != "L" {
			// a non-left-aligned cell may start later than the column start, never earlier
			return fmt.Sprintf("cell %q starts at %d, before its column's start %d", p.c.Token, p.start, st)
		}
	}
	return ""
}

func c16ReplaySpec(raw json.RawMessage) string {
	var s ttSpec
	if err := json.Unmarshal(raw, &s); err != nil {
		return err.Error()
	}
	var msg string
	if p := mc.Catch(func() {
		out, err := s.render()
		if err != nil {
			msg = err.Error()
			return
		}
		msg = s.checkLayout(out)
		if msg != "" {
			msg += "\n" + out
		}
	}); p != "" {
		return p
	}
	return msg
}

// c16Specs enumerates table specs: a body row of single cells over 4 physical
// columns (widths 0/1/4, per-column alignment patterns), a second body row
// with other widths, and one or two spanning cells in header rows, with every
// shrink pattern.
func c16Specs(thorough bool, fn func(s ttSpec)) {
	widths := []int{0, 1, 4}
	alignPats := [][]string{{"L", "L", "L", "L"}, {"L", "R", "L", "R"}, {"R", "R", "R", "R"}}
	if thorough {
		alignPats = append(alignPats, []string{"R", "L", "R", "L"}, []string{"L", "L", "R", "R"})
	}
	spanWidths := []int{1, 9, 14}
	if thorough {
		spanWidths = []int{0, 1, 4, 9, 14, 21}
	}
	margins := []string{"d", " │ "}
	var body [4]int
	var rec func(c int)
	emit := func() {
		for _, ap := range alignPats {
			var base []ttCell
			for c := 0; c < 4; c++ {
				if body[c] > 0 || c == 3 {
					base = append(base, ttCell{Row: 1, Col: c, Span: 1, Width: body[c], Align: ap[c], Margin: "d"})
				}
			}
			// second body row: reversed widths, same alignments
			for c := 0; c < 4; c++ {
				if w := body[3-c]; w > 0 {
					base = append(base, ttCell{Row: 2, Col: c, Span: 1, Width: w, Align: ap[c], Margin: "d"})
				}
			}
			for start := 0; start < 4; start++ {
				for span := 2; start+span <= 4; span++ {
					for _, sw := range spanWidths {
						for _, al := range []string{"L", "C", "R"} {
							for _, mg := range margins {
								if sw == 0 && strings.HasSuffix(mg, " ") {
									// An empty value behind a margin that itself ends in a blank is the caller
									// asking for a trailing blank (texttab prints a non-blank margin of an empty
									// cell on purpose: benchtab's right-edge marker " │"); outside the property.
									continue
								}
								hdr := ttCell{Row: 0, Col: start, Span: span, Width: sw, Align: al, Margin: mg}
								for sh := 0; sh < 16; sh++ {
									shrink := []bool{sh&1 != 0, sh&2 != 0, sh&4 != 0, sh&8 != 0}
									// body cells whose own margin is wider than the
									// header's, in the header's first or second column
									for _, barCol := range []int{-1, start, start + 1} {
										if barCol >= 0 && (sh%4 != 0 || mg != "d") {
											continue
										}
										b2 := append([]ttCell{}, base...)
										for i := range b2 {
											if b2[i].Row == 1 && b2[i].Col == barCol && b2[i].Width > 0 {
												b2[i].Margin = " │ "
											}
										}
										cells := append([]ttCell{hdr}, b2...)
										if barCol >= 0 {
											fn(ttSpec{Cells: cells, Shrink: shrink})
										}
									}
									// a vertical rule in the MIDDLE of the table: a column whose only cell has an empty value
									// and the margin " │", drawn on the first body row only (the second has no cell there),
									// with columns after it
									if sh == 0 && mg == "d" {
										for ruleCol := 0; ruleCol < 3; ruleCol++ {
											if body[ruleCol] == 0 && body[3-ruleCol] == 0 {
												rc := append([]ttCell{hdr}, base...)
												rc = append(rc, ttCell{Row: 1, Col: ruleCol, Span: 1, Width: 0, Align: "L", Margin: " │"})
												sort.SliceStable(rc, func(i, j int) bool {
													if rc[i].Row != rc[j].Row {
														return rc[i].Row < rc[j].Row
													}
													return rc[i].Col < rc[j].Col
												})
												fn(ttSpec{Cells: rc, Shrink: shrink})
											}
										}
									}
									cells := append([]ttCell{hdr}, base...)
									// a right-edge marker like benchtab's: empty value, margin " │"
									if start+span < 4 && (sw == 9 || thorough) {
										cells = append([]ttCell{hdr, {Row: 0, Col: 3, Span: 1, Width: 0, Align: "L", Margin: " │"}}, base...)
									}
									fn(ttSpec{Cells: cells, Shrink: shrink})
								}
							}
						}
					}
				}
			}
		}
	}
	rec = func(c int) {
		if c == 4 {
			emit()
			return
		}
		for _, w := range widths {
			body[c] = w
			rec(c + 1)
		}
	}
	rec(0)
}

func c16Texttab(c *mc.Check) {
	f := c.Family("texttab-specs", "every table spec of the grammar: two body rows of single cells over 4 physical columns (every width pattern over {absent,1,4}, per-column alignment patterns) + a header cell spanning 2–4 columns at every start (content widths narrower and wider than the columns beneath, left/centre/right, default or ' │ ' margin, an empty right-edge marker cell, a column holding nothing but a vertical rule in the middle of the table) × all 16 shrink patterns; contents are unique tokens with multi-byte runes; oracle: every non-empty cell appears intact in its row, cells are in column order without overlap, left-aligned cells of a column start at one offset on every line, right-aligned cells ending at a column boundary end at one offset, a spanning cell stays inside the columns it spans, no line ends in a blank; non-trivial = the header is wider than the columns beneath it", c16ReplaySpec)
	if c.Replaying() {
		return
	}
	var specs []ttSpec
	c16Specs(c.Thorough(), func(s ttSpec) {
		cp := ttSpec{Cells: append([]ttCell{}, s.Cells...), Shrink: append([]bool{}, s.Shrink...)}
		specs = append(specs, cp)
	})
	f.Bounds["specs"] = len(specs)
	done := mc.ParRange(uint64(len(specs)), 512, c.TimeUp, func(w int, lo, hi uint64) {
		l := f.Local()
		for i := lo; i < hi; i++ {
			s := specs[i]
			var msg, out string
			if p := mc.Catch(func() {
				var err error
				out, err = s.render()
				if err != nil {
					msg = err.Error()
					return
				}
				msg = s.checkLayout(out)
			}); p != "" {
				msg = p
			}
			l.Evals++
			under := 0
			for _, cc := range s.Cells[1:] {
				if cc.Row == 1 && cc.Col >= s.Cells[0].Col && cc.Col < s.Cells[0].Col+s.Cells[0].Span {
					under += cc.Width + 1
				}
			}
			if s.Cells[0].Width > under {
				l.Nontrivial++
				l.Outcome("header-wider")
			} else {
				l.Outcome("header-fits")
			}
			if msg != "" {
				sig := "texttab-layout"
				h := s.Cells[0]
				allShrink := true
				for col := h.Col; col < h.Col+h.Span; col++ {
					if col >= len(s.Shrink) || !s.Shrink[col] {
						allShrink = false
					}
				}
				if allShrink && h.Width > 0 {
					sig = "texttab-span-over-shrink-columns-only"
				}
				c.Fail(f, sig, s, msg+"\n"+out)
			}
		}
		l.Flush()
	})
	if done < uint64(len(specs)) {
		f.Capped(fmt.Sprintf("time cap: %d of %d specs", done, len(specs)))
	}
	f.Sample(specs[len(specs)/2])
	f.Done()
}

// ---- KeyHeader ----

// c16HeaderExprs: projections whose flattened field order equals the order
// in which the fields were created, and projections where it does not (a
// .config group in front of a field named in the expression: the named field
// is created at parse time, the group's keys when they are first seen).
var c16HeaderExprs = []string{"f1,f2,f3", ".config,/f3", "f3,.config", ".config,.name"}

type c16HeaderCase struct {
	Expr int
	Seq  []int
}

// A key kind k encodes f1 ∈ {a,b} (bit 0), f2 ∈ {a,b,missing} (k/2 % 3), f3 ∈ {a,b} (k/6).
const c16HeaderKinds = 12

func c16CheckHeader(ei int, seq []int) string {
	expr := c16HeaderExprs[ei]
	var pp benchproc.ProjectionParser
	proj, err := pp.Parse(expr, nil)
	if err != nil {
		return err.Error()
	}
	var keys []benchproc.Key
	valsByName := make([]map[string]string, len(seq))
	for i, k := range seq {
		v1 := []string{"a", "b"}[k%2]
		v2 := []string{"a", "b", ""}[k/2%3]
		v3 := []string{"a", "b"}[k/6%2]
		r := &benchfmt.Result{Name: benchfmt.Name("X"), Values: []benchfmt.Value{{Value: 1, Unit: "u"}}}
		m := map[string]string{"f1": v1, "f2": v2}
		r.Config = append(r.Config, benchfmt.Config{Key: "f1", Value: []byte(v1), File: true})
		if v2 != "" {
			r.Config = append(r.Config, benchfmt.Config{Key: "f2", Value: []byte(v2), File: true})
		}
		switch expr {
		case ".config,/f3":
			r.Name = benchfmt.Name("X/f3=" + v3)
			m["/f3"] = v3
		case ".config,.name":
			r.Name = benchfmt.Name("X" + v3)
			m[".name"] = "X" + v3
		default:
			r.Config = append(r.Config, benchfmt.Config{Key: "f3", Value: []byte(v3), File: true})
			m["f3"] = v3
		}
		valsByName[i] = m
		keys = append(keys, proj.Project(r))
	}
	h := benchproc.NewKeyHeader(keys)
	n := len(seq)
	if n == 0 {
		if len(h.Top) != 0 {
			return "header of no keys has nodes"
		}
		return ""
	}
	nLevels := len(h.Levels)
	if nLevels < 2 || nLevels > 3 {
		return fmt.Sprintf("%d levels", nLevels)
	}
	// the value of column j at a level is the value of the field that level is labelled with
	vals := make([][]string, n)
	for j := range vals {
		for _, fld := range h.Levels {
			v, ok := valsByName[j][fld.Name]
			if !ok && fld.Name != "f2" {
				return fmt.Sprintf("level labelled with unknown field %q", fld.Name)
			}
			vals[j] = append(vals[j], v)
		}
	}
	var walk func(nodes []*benchproc.KeyHeaderNode, level, start, length int) string
	walk = func(nodes []*benchproc.KeyHeaderNode, level, start, length int) string {
		pos := start
		prev := ""
		for i, nd := range nodes {
			if nd.Field != level {
				return fmt.Sprintf("node at level %d has Field %d", level, nd.Field)
			}
			if nd.Start != pos || nd.Len <= 0 {
				return fmt.Sprintf("level %d: node %q covers [%d,%d), expected to start at %d (every column under exactly one node per level)", level, nd.Value, nd.Start, nd.Start+nd.Len, pos)
			}
			for j := nd.Start; j < nd.Start+nd.Len; j++ {
				if j >= n || vals[j][level] != nd.Value {
					return fmt.Sprintf("level %d: node %q covers column %d whose value is %q", level, nd.Value, j, vals[min(j, n-1)][level])
				}
			}
			if i > 0 && prev == nd.Value {
				return fmt.Sprintf("level %d: adjacent nodes under one parent both labelled %q (runs must be maximal)", level, nd.Value)
			}
			prev = nd.Value
			pos += nd.Len
			if level+1 < nLevels {
				if m := walk(nd.Children, level+1, nd.Start, nd.Len); m != "" {
					return m
				}
			} else if len(nd.Children) != 0 {
				return "leaf level node has children"
			}
		}
		if pos != start+length {
			return fmt.Sprintf("level %d: nodes cover [%d,%d), parent covers [%d,%d)", level, start, pos, start, start+length)
		}
		return ""
	}
	return walk(h.Top, 0, 0, n)
}

func c16Headers(c *mc.Check, maxLen int) {
	replay := func(raw json.RawMessage) string {
		var cs c16HeaderCase
		json.Unmarshal(raw, &cs)
		var msg string
		if p := mc.Catch(func() { msg = c16CheckHeader(cs.Expr, cs.Seq) }); p != "" {
			return p
		}
		return msg
	}
	f := c.Family("key-headers", fmt.Sprintf("for each of the column projections %q (flattened field order equal to and different from the order in which the fields were created): every sequence of ≤%d keys over %d key kinds (two fields with 2 values, one with 2 values or missing): each level is labelled with its field and is a partition of the columns into maximal contiguous runs of equal value of THAT field under equal parents, children partition their parent, every column under exactly one node per level; non-trivial = ≥2 keys", c16HeaderExprs, maxLen, c16HeaderKinds), replay)
	if c.Replaying() {
		return
	}
	for ei := range c16HeaderExprs {
		for n := 0; n <= maxLen; n++ {
			mc.Sequences(c16HeaderKinds, n, func(m []int) {
				seq := append([]int{}, m...)
				var msg string
				if p := mc.Catch(func() { msg = c16CheckHeader(ei, seq) }); p != "" {
					msg = p
				}
				nt := int64(0)
				if n >= 2 {
					nt = 1
				}
				f.Count(1, nt)
				f.Outcome(fmt.Sprintf("%s n=%d", c16HeaderExprs[ei], n), 1)
				if msg != "" {
					c.Fail(f, "key-header", c16HeaderCase{ei, seq}, msg)
				}
			})
		}
	}
	f.Sample(c16HeaderCase{1, []int{0, 1, 3, 3, 4}})
	f.Done()
}

func TestVerifC16(t *testing.T) {
	c := mc.NewCheck("C16")
	c.Assume("layout oracle written from the documented contract of the text table (offsets per column, alignment, spans), not from its width-distribution algorithm")
	c16Texttab(c)
	c16Headers(c, mc.Pick(c, 4, 5))
	c16TextVsCSV(c)
	c16Trees(c)
	c16Notes(c)
	if code := c.Finish(); code != 0 {
		os.Exit(code)
	}
}
