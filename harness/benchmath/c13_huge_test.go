//go:build verif

package benchmath

import (
	"encoding/json"
	"fmt"
	"math"
	"math/big"
	"sort"

	mc "golang.org/x/perf/internal/verifmc"
)

// ---- C13: the assume-nothing centre is the sample median at every magnitude ----

type c13HugeCase struct {
	N     int
	Scale float64
	Kind  int
}

func c13HugeValues(cs c13HugeCase) []float64 {
	xs := make([]float64, cs.N)
	for i := range xs {
		m := 1 + float64((i*5)%7)/10 // 1.0 … 1.6, no particular order
		switch cs.Kind {
		case 1:
			m = -m
		case 2:
			if i%2 == 1 {
				m = -m
			}
		}
		xs[i] = m * cs.Scale
	}
	return xs
}

func c13HugeCheck(cs c13HugeCase) string {
	xs := c13HugeValues(cs)
	sorted := append([]float64{}, xs...)
	sort.Float64s(sorted)
	var want float64
	mag := math.Abs(sorted[len(sorted)/2])
	if n := len(sorted); n%2 == 1 {
		want = sorted[n/2]
	} else {
		mag = math.Max(mag, math.Abs(sorted[n/2-1]))
		// exact mean of the two middle values
		a := new(big.Float).SetPrec(200).SetFloat64(sorted[n/2-1])
		b := new(big.Float).SetPrec(200).SetFloat64(sorted[n/2])
		want, _ = a.Add(a, b).Quo(a, big.NewFloat(2)).Float64()
	}
	thr := DefaultThresholds
	s := AssumeNothing.Summary(NewSample(append([]float64{}, xs...), &thr), 0.95)
	if math.IsNaN(s.Center) || math.IsInf(s.Center, 0) || !(math.Abs(s.Center-want) <= 4e-16*mag+2e-323) {
		// (a few units in the last place of the two middle values, which may cancel, and of the subnormal grid)
		return fmt.Sprintf("AssumeNothing.Summary(%v).Center = %v, the sample median is %v", xs, s.Center, want)
	}
	if !(s.Lo <= s.Center && s.Center <= s.Hi) {
		return fmt.Sprintf("AssumeNothing.Summary(%v): interval [%v, %v] does not bracket the centre %v", xs, s.Lo, s.Hi, s.Center)
	}
	return ""
}

func c13Huge(c *mc.Check) {
	replay := func(raw json.RawMessage) string {
		var cs c13HugeCase
		if err := json.Unmarshal(raw, &cs); err != nil {
			return err.Error()
		}
		var msg string
		if p := mc.Catch(func() { msg = c13HugeCheck(cs) }); p != "" {
			return p
		}
		return msg
	}
	scales := []float64{1, 1e-300, 5e-324 * 1e3, 1e300, 1e307, 1.1e308}
	f := c.Family("medians-at-every-magnitude", fmt.Sprintf("samples of 1…14 values m·s with m ∈ {1.0…1.6} in no particular order, all positive / all negative / alternating signs, for scales s ∈ %v (values whose pairwise SUMS are not representable, and subnormals): the assume-nothing centre is the sample median (the exact mean of the two middle values for even sizes) and the interval ends bracket it; non-trivial = even sizes at the largest scales", scales), replay)
	if c.Replaying() {
		return
	}
	for _, sc := range scales {
		for n := 1; n <= 14; n++ {
			for kind := 0; kind < 3; kind++ {
				cs := c13HugeCase{n, sc, kind}
				var msg string
				if p := mc.Catch(func() { msg = c13HugeCheck(cs) }); p != "" {
					msg = p
				}
				nt := int64(0)
				if n%2 == 0 && sc >= 1e307 {
					nt = 1
				}
				f.Count(1, nt)
				f.Outcome(fmt.Sprintf("ok=%v", msg == ""), 1)
				if msg != "" {
					sig := "summary"
					if kind == 2 && sc >= 1e307 {
						// two neighbouring order statistics of opposite sign whose DIFFERENCE is not representable
						sig = "median-neighbour-difference-overflows"
					}
					c.Fail(f, sig, cs, msg)
				}
			}
		}
	}
	f.Sample(c13HugeCase{4, 1.1e308, 0})
	f.Done()
}
