//go:build verif

package benchmath

import (
	"encoding/json"
	"fmt"
	"math"
	"os"
	"sort"
	"strings"
	"testing"

	istats "golang.org/x/perf/internal/stats"
	mc "golang.org/x/perf/internal/verifmc"
	ref "golang.org/x/perf/internal/verifref"
)

// ---- C13: summaries and comparisons honour their statistical contracts ----

var c13Confidences = []float64{0.5, 0.8, 0.9, 0.95, 0.99, 0.999}

func c13Family(kind string, n int) []float64 {
	xs := make([]float64, n)
	for i := range xs {
		switch kind {
		case "increasing":
			xs[i] = float64(i + 1)
		case "reversed":
			xs[i] = float64(n - i)
		case "ties":
			xs[i] = float64(i / 3)
		case "negatives":
			xs[i] = float64(i) - float64(n)/2 - 0.25
		case "zeros":
			xs[i] = float64((i % 3) * (i % 2))
		case "shuffled":
			xs[i] = float64((i*37)%n) * 1.5
		case "big":
			xs[i] = 1e12 + float64(i*i%17)
		}
	}
	return xs
}

var c13Kinds = []string{"increasing", "reversed", "ties", "negatives", "zeros", "shuffled", "big"}

type c13SumCase struct {
	Values     []float64
	Confidence float64
}

func refMedian(sorted []float64) float64 {
	n := len(sorted)
	if n%2 == 1 {
		return sorted[n/2]
	}
	return (sorted[n/2-1] + sorted[n/2]) / 2
}

// minSamplesFor returns the smallest n ≥ 2 whose extreme order statistics
// cover the median with at least the given confidence (1 − 2/2^n).
func minSamplesFor(conf float64) (int, bool) {
	for n := 2; n <= 50; n++ {
		if ref.BinomialCoverage(n, 1, n) >= conf {
			return n, true
		}
	}
	return 50, false
}

func c13CheckSummary(values []float64, conf float64) string {
	n := len(values)
	in := append([]float64{}, values...)
	s := NewSample(in, &DefaultThresholds)
	sorted := append([]float64{}, values...)
	sort.Float64s(sorted)
	for i := range sorted {
		if s.Values[i] != sorted[i] {
			return fmt.Sprintf("NewSample(%v) values not sorted: %v", values, s.Values)
		}
	}
	// --- assume nothing ---
	sum := AssumeNothing.Summary(s, conf)
	med := refMedian(sorted)
	if !(math.Abs(sum.Center-med) <= 1e-9*math.Max(1, math.Abs(med))) {
		return fmt.Sprintf("AssumeNothing centre of %v = %v, median %v", values, sum.Center, med)
	}
	rank := func(v float64, first bool) int {
		// 1-based rank of value v among sorted (first or last occurrence); 0 = not a sample value
		r := 0
		for i, x := range sorted {
			if x == v {
				if first && r == 0 {
					r = i + 1
				}
				if !first {
					r = i + 1
				}
			}
		}
		return r
	}
	inf := math.IsInf(sum.Lo, -1) || math.IsInf(sum.Hi, 1)
	l, h := 0, n+1
	if !math.IsInf(sum.Lo, -1) {
		if l = rank(sum.Lo, false); l == 0 {
			return fmt.Sprintf("AssumeNothing(%v, %v): lower end %v is not a sample value", values, conf, sum.Lo)
		}
	}
	if !math.IsInf(sum.Hi, 1) {
		if h = rank(sum.Hi, true); h == 0 {
			return fmt.Sprintf("AssumeNothing(%v, %v): upper end %v is not a sample value", values, conf, sum.Hi)
		}
	}
	if !(sum.Lo <= sum.Center && sum.Center <= sum.Hi) {
		return fmt.Sprintf("AssumeNothing(%v, %v): interval [%v,%v] does not bracket the centre %v", values, conf, sum.Lo, sum.Hi, sum.Center)
	}
	if sum.Confidence < conf-1e-12 || sum.Confidence > 1+1e-12 {
		return fmt.Sprintf("AssumeNothing(n=%d, %v): reported confidence %v below the requested level", n, conf, sum.Confidence)
	}
	distinct := true
	for i := 1; i < n; i++ {
		if sorted[i] == sorted[i-1] {
			distinct = false
		}
	}
	if distinct && n <= 30 {
		if cov := ref.BinomialCoverage(n, l, h); !(math.Abs(cov-sum.Confidence) <= 1e-9) {
			return fmt.Sprintf("AssumeNothing(n=%d, %v): interval between order statistics %d and %d has exact binomial coverage %v, reported confidence %v", n, conf, l, h, cov, sum.Confidence)
		}
	}
	hasWarn := len(sum.Warnings) > 0
	if inf != hasWarn {
		return fmt.Sprintf("AssumeNothing(n=%d, %v): interval [%v,%v] but warnings %v", n, conf, sum.Lo, sum.Hi, sum.Warnings)
	}
	if inf {
		need, ok := minSamplesFor(conf)
		want := fmt.Sprintf("need >= %d samples", need)
		if !ok {
			want = fmt.Sprintf("need > %d samples", need)
		}
		if !strings.Contains(sum.Warnings[0].Error(), want) {
			return fmt.Sprintf("AssumeNothing(n=%d, %v): warning %q, exact binomial says %q", n, conf, sum.Warnings[0], want)
		}
		if need <= n && ok {
			return fmt.Sprintf("AssumeNothing(n=%d, %v): infinite interval although %d samples suffice", n, conf, need)
		}
	}
	// --- assume exact ---
	ex := AssumeExact.Summary(s, conf)
	counts := map[float64]int{}
	maxc := 0
	for _, v := range sorted {
		counts[v]++
		if counts[v] > maxc {
			maxc = counts[v]
		}
	}
	if counts[ex.Center] != maxc {
		return fmt.Sprintf("AssumeExact centre of %v = %v, which occurs %d times; the most frequent value occurs %d times", values, ex.Center, counts[ex.Center], maxc)
	}
	if (len(counts) > 1) != (len(ex.Warnings) > 0) {
		return fmt.Sprintf("AssumeExact(%v): %d distinct values but warnings %v", values, len(counts), ex.Warnings)
	}
	if ex.Lo != sorted[0] || ex.Hi != sorted[n-1] {
		return fmt.Sprintf("AssumeExact(%v): range [%v,%v]", values, ex.Lo, ex.Hi)
	}
	// --- assume normal ---
	nm := AssumeNormal.Summary(s, conf)
	mean := 0.0
	for _, v := range sorted {
		mean += v
	}
	mean /= float64(n)
	scale := math.Max(math.Abs(sorted[0]), math.Abs(sorted[n-1]))
	if !(math.Abs(nm.Center-mean) <= 1e-12*math.Max(1, scale)*float64(n)) {
		return fmt.Sprintf("AssumeNormal centre of %v = %v, mean %v", values, nm.Center, mean)
	}
	if n >= 2 {
		v := 0.0
		for _, x := range sorted {
			v += (x - mean) * (x - mean)
		}
		v /= float64(n - 1)
		tcrit := istats.InvCDF(istats.TDist{V: float64(n - 1)})((1 + conf) / 2)
		half := tcrit * math.Sqrt(v/float64(n))
		tol := 1e-6*half + 1e-9*math.Max(1, scale)
		if !(math.Abs(nm.Lo-(mean-half)) <= tol) || !(math.Abs(nm.Hi-(mean+half)) <= tol) {
			return fmt.Sprintf("AssumeNormal(%v, %v): interval [%v,%v], mean ± t·s/√n = [%v,%v]", values, conf, nm.Lo, nm.Hi, mean-half, mean+half)
		}
	}
	return ""
}

func c13Summaries(c *mc.Check, maxN int) {
	replay := func(raw json.RawMessage) string {
		var cs c13SumCase
		json.Unmarshal(raw, &cs)
		var msg string
		if p := mc.Catch(func() { msg = c13CheckSummary(cs.Values, cs.Confidence) }); p != "" {
			return p
		}
		return msg
	}
	f := c.Family("summaries", fmt.Sprintf("n=1…%d × confidence %v × sample families %v × 3 assumptions, swept forwards and then backwards in one process (the median-interval cache is global): assume-nothing centre = median, ends are sample values or ±∞ with the 'need ≥ n samples' warning (n checked against the exact binomial), ends bracket the centre, reported confidence ≥ requested and = exact binomial coverage of the chosen order statistics (n≤30, distinct values); exact model centre = a most frequent value, warning iff values differ; normal model mean and t interval (t quantile from internal/stats, checked by C12); non-trivial = n ≥ 2", maxN, c13Confidences, c13Kinds), replay)
	if c.Replaying() {
		return
	}
	type job struct {
		n    int
		conf float64
		kind string
	}
	var jobs []job
	for n := 1; n <= maxN; n++ {
		for _, conf := range c13Confidences {
			for _, k := range c13Kinds {
				jobs = append(jobs, job{n, conf, k})
			}
		}
	}
	// Confidence levels just below, at and just above every coverage value a
	// symmetric order-statistic interval can have for n ≤ 14: neighbouring
	// levels must not share an answer.
	for n := 2; n <= 14; n++ {
		for l := 1; 2*l <= n+1; l++ {
			cov := ref.BinomialCoverage(n, l, n+1-l)
			for _, d := range []float64{-1e-9, 0, 1e-9} {
				if cf := cov + d; cf > 0 && cf < 1 {
					jobs = append(jobs, job{n, cf, "increasing"})
				}
			}
		}
	}
	one := func(j job) {
		xs := c13Family(j.kind, j.n)
		var msg string
		if p := mc.Catch(func() { msg = c13CheckSummary(xs, j.conf) }); p != "" {
			msg = p
		}
		nt := int64(0)
		if j.n >= 2 {
			nt = 1
		}
		f.Count(1, nt)
		f.Outcome(fmt.Sprintf("ok=%v", msg == ""), 1)
		if msg != "" {
			c.Fail(f, "summary", c13SumCase{xs, j.conf}, msg)
		}
	}
	if c.Sweep() {
		// free-running -race pass: the jobs on 16 goroutines at once, so that the process-wide interval cache is
		// filled and read concurrently (the enumerating pass below is sequential so that its order is fixed)
		mc.ParRange(uint64(len(jobs)), 1, c.TimeUp, func(w int, lo, hi uint64) {
			for i := lo; i < hi; i++ {
				one(jobs[i])
			}
		})
	} else {
		for pass := 0; pass < 2; pass++ {
			for i := range jobs {
				j := jobs[i]
				if pass == 1 {
					j = jobs[len(jobs)-1-i]
				}
				one(j)
			}
		}
	}
	f.Sample(c13SumCase{c13Family("ties", 7), 0.95})
	f.Done()
}

// ---- comparisons ----

type c13CmpCase struct {
	X1, X2 []float64
	Alpha  float64
}

var c13Alphas = []float64{0, 0.01, 0.05, 0.5, 1}

func c13CheckCompare(x1, x2 []float64, exact bool) string {
	for i := range c13Assumptions {
		if m := c13CheckCompareOne(i, x1, x2, exact); m != "" {
			return m
		}
	}
	return ""
}

var c13Assumptions = []struct {
	name string
	a    Assumption
	test bool
}{{"AssumeNothing", AssumeNothing, true}, {"AssumeNormal", AssumeNormal, true}, {"AssumeExact", AssumeExact, false}}

// c13CheckCompareOne checks one assumption's comparison contract.
func c13CheckCompareOne(ai int, x1, x2 []float64, exact bool) string {
	mk := func(xs []float64, alpha float64, f float64, rev bool) *Sample {
		v := make([]float64, len(xs))
		for i, x := range xs {
			v[i] = x * f
		}
		if rev {
			for i, j := 0, len(v)-1; i < j; i, j = i+1, j-1 {
				v[i], v[j] = v[j], v[i]
			}
		}
		return NewSample(v, &Thresholds{CompareAlpha: alpha})
	}
	untied := true
	seen := map[float64]bool{}
	for _, x := range append(append([]float64{}, x1...), x2...) {
		if seen[x] {
			untied = false
		}
		seen[x] = true
	}
	for _, as := range c13Assumptions[ai : ai+1] {
		base := as.a.Compare(mk(x1, 0.05, 1, false), mk(x2, 0.05, 1, false))
		if base.N1 != len(x1) || base.N2 != len(x2) {
			return fmt.Sprintf("%s.Compare(%v,%v): sizes %d,%d", as.name, x1, x2, base.N1, base.N2)
		}
		if math.IsNaN(base.P) || base.P < 0 || base.P > 1+1e-12 {
			return fmt.Sprintf("%s.Compare(%v,%v): p = %v", as.name, x1, x2, base.P)
		}
		sw := as.a.Compare(mk(x2, 0.05, 1, false), mk(x1, 0.05, 1, false))
		if !(math.Abs(sw.P-base.P) <= 1e-12) {
			return fmt.Sprintf("%s.Compare(%v,%v): p = %v but %v with the samples swapped", as.name, x1, x2, base.P, sw.P)
		}
		// a common positive rescaling, up and far down (nanosecond-sized and smaller magnitudes)
		for _, f := range []float64{2, 1024, 1e3, 1.0 / (1 << 30), 1.0 / (1 << 60), 1e-9} {
			for _, rev := range []bool{false, true} {
				r := as.a.Compare(mk(x1, 0.05, f, rev), mk(x2, 0.05, f, !rev))
				tol := 1e-12
				if as.name == "AssumeNormal" && (f == 1e3 || f == 1e-9) {
					tol = 1e-9 // ×1000 and ×1e-9 are not exact in binary
				}
				if !(math.Abs(r.P-base.P) <= tol) {
					return fmt.Sprintf("%s.Compare(%v,%v): p = %v, but %v after reordering and rescaling by %v", as.name, x1, x2, base.P, r.P, f)
				}
			}
		}
		if as.name == "AssumeNothing" && exact && untied {
			if want := ref.ExactUTwoSided(x1, x2); !(math.Abs(base.P-want) <= 1e-12) {
				return fmt.Sprintf("AssumeNothing.Compare(%v,%v): p = %v, exact permutation p = %v", x1, x2, base.P, want)
			}
		}
		if !as.test {
			continue
		}
		for _, alpha := range c13Alphas {
			r := as.a.Compare(mk(x1, alpha, 1, false), mk(x2, 0.77, 1, false))
			if r.Alpha != alpha {
				return fmt.Sprintf("%s.Compare(%v,%v) with samples created with threshold %v carries Alpha = %v (p=%v)", as.name, x1, x2, alpha, r.Alpha, r.P)
			}
			shown := r.FormatDelta(100, 150) != "~"
			if shown != (r.P <= alpha) {
				return fmt.Sprintf("%s.Compare(%v,%v): p=%v threshold %v but delta rendered as %q", as.name, x1, x2, r.P, alpha, r.FormatDelta(100, 150))
			}
		}
	}
	return ""
}

func c13Compare(c *mc.Check, maxN int) {
	vals := []float64{1, 2, 4, 8, 16, 32}
	replay := func(raw json.RawMessage) string {
		var cs c13CmpCase
		json.Unmarshal(raw, &cs)
		var msg string
		if p := mc.Catch(func() { msg = c13CheckCompare(cs.X1, cs.X2, true) }); p != "" {
			return p
		}
		return msg
	}
	f := c.Family("comparisons", fmt.Sprintf("every pair of multisets of size 1…%d over %v plus structured larger pairs, under all three assumptions: sizes reported, p ∈ [0,1], symmetric, invariant under reordering each sample and under ×2, ×1024, ×1000, ×2^-30, ×2^-60, ×1e-9, equal to the exact permutation p-value for untied pairs, Alpha carried = the first sample's threshold for thresholds %v under the models that perform a test, delta rendered as a percentage ⇔ p ≤ Alpha; non-trivial = pairs with different samples", maxN, vals, c13Alphas), replay)
	if c.Replaying() {
		return
	}
	var sets [][]float64
	for n := 1; n <= maxN; n++ {
		mc.Multisets(len(vals), n, func(m []int) {
			s := make([]float64, n)
			for i, k := range m {
				s[i] = vals[k]
			}
			sets = append(sets, s)
		})
	}
	nSmall := len(sets)
	for _, n := range []int{6, 10, 20, 30, 60} {
		a, b, d := make([]float64, n), make([]float64, n), make([]float64, n)
		for i := range a {
			a[i] = 100 + float64(i)
			b[i] = 100.5 + float64(i) + float64(n)/4
			d[i] = 300 + float64((i*7)%n)*1.25
		}
		sets = append(sets, a, b, d)
	}
	mc.ParRange(uint64(len(sets)), 1, c.TimeUp, func(w int, lo, hi uint64) {
		l := f.Local()
		for i := lo; i < hi; i++ {
			for j, x2 := range sets {
				x1 := sets[i]
				small := int(i) < nSmall && j < nSmall
				if !small && (int(i) < nSmall) != (j < nSmall) {
					continue
				}
				l.Evals++
				if fmt.Sprint(x1) != fmt.Sprint(x2) {
					l.Nontrivial++
				}
				l.Outcome(fmt.Sprintf("small=%v", small))
				for ai := range c13Assumptions {
					var msg string
					if p := mc.Catch(func() { msg = c13CheckCompareOne(ai, x1, x2, small) }); p != "" {
						msg = p
					}
					if msg != "" {
						sig := "compare"
						if strings.Contains(msg, "carries Alpha") {
							sig = "alpha-not-carried"
						}
						if strings.HasPrefix(msg, "AssumeNothing.Compare") && hasTies(x1, x2) &&
							(strings.Contains(msg, "): p = ") && !strings.Contains(msg, "exact permutation")) {
							// p outside [0,1] or not symmetric, with tied values
							sig = "anothing-ties-p-range-or-symmetry"
						}
						c.Fail(f, sig, c13CmpCase{x1, x2, 0.05}, msg)
					}
				}
			}
		}
		l.Flush()
	})
	f.Sample(c13CmpCase{[]float64{1, 2, 4}, []float64{8, 16, 32, 32}, 0.05})
	f.Done()
}

func hasTies(x1, x2 []float64) bool {
	seen := map[float64]bool{}
	for _, x := range append(append([]float64{}, x1...), x2...) {
		if seen[x] {
			return true
		}
		seen[x] = true
	}
	return false
}

// ---- rendering ----

func c13Render(c *mc.Check) {
	f := c.Family("rendering", "FormatDelta over a lattice of (old,new,P,Alpha) and PctRangeString over a lattice of (lo,centre,hi) incl. 0, negatives, ±Inf, against the documented cases: '~' iff P > Alpha, '0.00%' for equal centres, '?' for a zero old value, otherwise (new/old−1)·100 with sign and two decimals; range '∞' for infinite ends, '?' when an end's sign differs from the centre's, '0%' for an all-zero interval, otherwise the larger relative deviation; non-trivial = every case", nil)
	if c.Replaying() {
		return
	}
	vals := []float64{0, 1, 2, 100, 150, -1, -100, 1e-9, 1e12, 99.995, 3}
	for _, old := range vals {
		for _, nw := range vals {
			for _, p := range []float64{0, 0.01, 0.05, 0.0500001, 0.5, 1} {
				for _, alpha := range []float64{0, 0.05, 1} {
					got := Comparison{P: p, Alpha: alpha, N1: 3, N2: 3}.FormatDelta(old, nw)
					var want string
					switch {
					case p > alpha:
						want = "~"
					case old == nw:
						want = "0.00%"
					case old == 0:
						want = "?"
					default:
						want = fmt.Sprintf("%+.2f%%", (nw/old-1)*100)
					}
					f.Count(1, 1)
					f.Outcome(fmt.Sprintf("%q", want[:1]), 1)
					if got != want {
						c.Fail(f, "format-delta", []float64{old, nw, p, alpha}, fmt.Sprintf("FormatDelta(old=%v,new=%v) with p=%v alpha=%v = %q want %q", old, nw, p, alpha, got, want))
					}
				}
			}
		}
	}
	ends := []float64{0, 1, 2, 90, 100, 110, 150, -1, -90, -100, -110, math.Inf(1), math.Inf(-1)}
	sgn := func(x float64) int {
		switch {
		case x > 0:
			return 1
		case x < 0:
			return -1
		}
		return 0
	}
	for _, lo := range ends {
		for _, ce := range ends {
			for _, hi := range ends {
				if !(lo <= ce && ce <= hi) || math.IsInf(ce, 0) {
					continue
				}
				got := Summary{Center: ce, Lo: lo, Hi: hi}.PctRangeString()
				var want string
				switch {
				case math.IsInf(lo, 0) || math.IsInf(hi, 0):
					want = "∞"
				case sgn(lo) != sgn(ce) || sgn(hi) != sgn(ce):
					want = "?"
				case ce == 0:
					want = "0%"
				default:
					want = fmt.Sprintf("%.0f%%", 100*math.Max(hi/ce-1, 1-lo/ce))
				}
				f.Count(1, 1)
				f.Outcome(want, 1)
				if got != want {
					c.Fail(f, "pct-range", []float64{lo, ce, hi}, fmt.Sprintf("PctRangeString(lo=%v,centre=%v,hi=%v) = %q want %q", lo, ce, hi, got, want))
				}
			}
		}
	}
	f.Sample([]float64{100, 150, 0.03, 0.05})
	f.Done()
}

func TestVerifC13(t *testing.T) {
	c := mc.NewCheck("C13")
	c.Assume("t quantiles from internal/stats (C12); exact permutation p-values by brute force in exact rationals")
	c13Summaries(c, 70)
	c13Compare(c, mc.Pick(c, 5, 6))
	c13Render(c)
	c13Huge(c)
	c13Histories(c, mc.Pick(c, 3, 4))
	mc.FirstCalls(c, c13Calls, "TestVerifC13Fresh", "VERIF_C13_CALLS")
	if code := c.Finish(); code != 0 {
		os.Exit(code)
	}
}
