//go:build verif

package benchmath

import (
	"fmt"
	"testing"

	mc "golang.org/x/perf/internal/verifmc"
)

// ---- C13: first calls of a fresh process (see mc.FirstCalls) ----

func c13Smp(vs ...float64) *Sample { return NewSample(vs, &DefaultThresholds) }

func c13Sum(s Summary) string {
	return fmt.Sprintf("%v [%v,%v] conf=%v warn=%v", s.Center, s.Lo, s.Hi, s.Confidence, s.Warnings)
}

func c13Cmp(a Assumption, x, y *Sample) string {
	c := a.Compare(x, y)
	return fmt.Sprintf("p=%v n=%d,%d alpha=%v warn=%v %s", c.P, c.N1, c.N2, c.Alpha, c.Warnings, c.FormatDelta(x.Values[0], y.Values[0]))
}

var c13Calls = []mc.Call{
	{"AssumeNothing.Summary(n=6,0.95)", func() string { return c13Sum(AssumeNothing.Summary(c13Smp(1, 2, 3, 4, 5, 6), 0.95)) }},
	{"AssumeNothing.Summary(n=3,0.95)", func() string { return c13Sum(AssumeNothing.Summary(c13Smp(3, 1, 2), 0.95)) }},
	{"AssumeNothing.Summary(n=10,0.5)", func() string { return c13Sum(AssumeNothing.Summary(c13Smp(1, 2, 3, 4, 5, 6, 7, 8, 9, 10), 0.5)) }},
	{"AssumeNothing.Summary(n=30,0.99)", func() string {
		v := make([]float64, 30)
		for i := range v {
			v[i] = float64(i * i)
		}
		return c13Sum(AssumeNothing.Summary(c13Smp(v...), 0.99))
	}},
	{"AssumeExact.Summary", func() string { return c13Sum(AssumeExact.Summary(c13Smp(2, 2, 3), 0.95)) }},
	{"AssumeNormal.Summary", func() string { return c13Sum(AssumeNormal.Summary(c13Smp(1, 2, 4, 8), 0.95)) }},
	{"AssumeNothing.Compare(5,5)", func() string { return c13Cmp(AssumeNothing, c13Smp(1, 2, 3, 4, 5), c13Smp(6, 7, 8, 9, 10)) }},
	{"AssumeNothing.Compare(ties)", func() string { return c13Cmp(AssumeNothing, c13Smp(1, 1, 2, 3), c13Smp(1, 2, 2, 5)) }},
	{"AssumeNormal.Compare", func() string { return c13Cmp(AssumeNormal, c13Smp(1, 2, 3, 4), c13Smp(2, 4, 6, 9)) }},
	{"AssumeExact.Compare", func() string { return c13Cmp(AssumeExact, c13Smp(1, 1), c13Smp(2, 2)) }},
	{"PctRangeString", func() string { return AssumeNothing.Summary(c13Smp(9, 10, 11, 12, 13, 14), 0.9).PctRangeString() }},
}

func TestVerifC13Fresh(t *testing.T) {
	if !mc.FirstCallsChild(c13Calls, "VERIF_C13_CALLS") {
		t.Skip()
	}
}
