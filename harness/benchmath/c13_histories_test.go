//go:build verif

package benchmath

import (
	"encoding/json"
	"fmt"

	mc "golang.org/x/perf/internal/verifmc"
)

// ---- C13: the same Sample values used by several calls ----
//
// benchstat builds one Sample per cell and then asks for its summary and for
// comparisons against it from several goroutines' worth of calls. A summary
// or comparison must not depend on what was asked of the same Sample values
// before (a cached sort, a memoised interval, a mutated threshold).

type c13hCase struct {
	Pair int
	Ops  []int
}

var c13hPairs = [][2][]float64{
	{{5, 1, 4, 2, 3, 6}, {9, 7, 8, 12, 10, 11}},
	{{1, 1, 2, 3}, {1, 2, 2, 5}},
	{{3, 3, 3}, {3, 3, 4}},
	{{2}, {1, 1}},
	{{10, 20, 30, 40, 50, 60, 70}, {15, 25}},
}

// ops: summaries of either sample under each assumption, comparisons both ways under each assumption
const c13hOps = 12

func c13hDo(op int, a, b *Sample) string {
	as := []Assumption{AssumeNothing, AssumeExact, AssumeNormal}[op%3]
	switch op / 3 {
	case 0:
		return c13Sum(as.Summary(a, 0.9))
	case 1:
		return c13Sum(as.Summary(b, 0.95))
	case 2:
		return c13Cmp(as, a, b)
	}
	return c13Cmp(as, b, a)
}

func c13hCheck(cs c13hCase) string {
	p := c13hPairs[cs.Pair]
	thr := Thresholds{CompareAlpha: 0.05}
	a := NewSample(append([]float64{}, p[0]...), &thr)
	b := NewSample(append([]float64{}, p[1]...), &thr)
	for step, op := range cs.Ops {
		got := c13hDo(op, a, b)
		thr2 := Thresholds{CompareAlpha: 0.05}
		want := c13hDo(op, NewSample(append([]float64{}, p[0]...), &thr2), NewSample(append([]float64{}, p[1]...), &thr2))
		if got != want {
			return fmt.Sprintf("samples %v / %v: call %d of the history %v (op %d) gives %s on Sample values that were used by the earlier calls, %s on fresh ones", p[0], p[1], step+1, cs.Ops, op, got, want)
		}
	}
	return ""
}

func c13Histories(c *mc.Check, depth int) {
	replay := func(raw json.RawMessage) string {
		var cs c13hCase
		if err := json.Unmarshal(raw, &cs); err != nil {
			return err.Error()
		}
		var msg string
		if p := mc.Catch(func() { msg = c13hCheck(cs) }); p != "" {
			return p
		}
		return msg
	}
	f := c.Family("call-histories-on-shared-samples", fmt.Sprintf("for %d pairs of samples (unsorted, tied, constant, undersized, unequal sizes): every sequence of ≤%d calls from {Summary of either sample, Compare in either direction} × the three assumptions, all on the SAME two Sample values: each answer (centre, interval, confidence, warnings / p, sizes, threshold, rendered delta) equals the answer of the same call on freshly built samples; non-trivial = sequences of ≥2 calls", len(c13hPairs), depth), replay)
	if c.Replaying() {
		return
	}
	var cases []c13hCase
	for pi := range c13hPairs {
		for n := 1; n <= depth; n++ {
			mc.Sequences(c13hOps, n, func(m []int) { cases = append(cases, c13hCase{pi, append([]int{}, m...)}) })
		}
	}
	mc.ParRange(uint64(len(cases)), 32, c.TimeUp, func(w int, lo, hi uint64) {
		l := f.Local()
		for i := lo; i < hi; i++ {
			var msg string
			if p := mc.Catch(func() { msg = c13hCheck(cases[i]) }); p != "" {
				msg = p
			}
			l.Evals++
			if len(cases[i].Ops) > 1 {
				l.Nontrivial++
			}
			if msg != "" {
				l.Outcome("differs from fresh samples")
				c.Fail(f, "sample-history", cases[i], msg)
			} else {
				l.Outcome("as on fresh samples")
			}
		}
		l.Flush()
	})
	f.Sample(c13hCase{0, []int{6, 0}})
	f.Done()
}
