//go:build verif

package benchproc

import (
	"encoding/json"
	"fmt"

	"golang.org/x/perf/benchproc/internal/parse"
	mc "golang.org/x/perf/internal/verifmc"
)

// ---- C07: whether a projection text is accepted does not depend on what the parser parsed before ----
//
// One ProjectionParser parses several expressions (benchstat: -table through
// ParseWithUnit, then -row, -col, -ignore through Parse). "Always rejected"
// means rejected on a used parser as on a fresh one, at the same offset.

type c07hCall struct {
	Text     string
	WithUnit bool
}

var c07hCalls = []c07hCall{
	{"k", false}, {".config", false}, {".fullname", false}, {"k", true}, {".config", true}, {"a,b@alpha", true},
	{".unit", false}, {"a,.unit", false}, {`".unit"`, false}, {".unit@alpha", false}, {".unit", true},
	{"k@(", false}, {"k@()", false}, {"k@bogus", false}, {".config@(a)", false}, {"", false}, {"k@(", true},
}

func c07hOutcome(pp *ProjectionParser, cl c07hCall) string {
	var err error
	if cl.WithUnit {
		_, _, err = pp.ParseWithUnit(cl.Text, nil)
	} else {
		_, err = pp.Parse(cl.Text, nil)
	}
	if err == nil {
		return "accepted"
	}
	if se, ok := err.(*parse.SyntaxError); ok {
		return fmt.Sprintf("rejected at %d: %s", se.Off, se.Msg)
	}
	return "rejected: " + err.Error()
}

func c07hCheck(seq []int) string {
	var pp ProjectionParser
	for step, ci := range seq {
		cl := c07hCalls[ci]
		var got, want string
		if p := mc.Catch(func() { got = c07hOutcome(&pp, cl) }); p != "" {
			return p
		}
		var fresh ProjectionParser
		want = c07hOutcome(&fresh, cl)
		if got != want {
			var before []c07hCall
			for _, j := range seq[:step] {
				before = append(before, c07hCalls[j])
			}
			return fmt.Sprintf("projection text %q (with unit: %v) parsed after %v on the same parser: %s; on a fresh parser: %s", cl.Text, cl.WithUnit, before, got, want)
		}
	}
	return ""
}

func c07Histories(c *mc.Check, depth int) {
	replay := func(raw json.RawMessage) string {
		var seq []int
		if err := json.Unmarshal(raw, &seq); err != nil {
			return err.Error()
		}
		return c07hCheck(seq)
	}
	f := c.Family("parser-histories", fmt.Sprintf("every sequence of ≤%d Parse / ParseWithUnit calls on ONE ProjectionParser from %d calls (valid projections, and texts of every must-reject class: .unit in a projection in four spellings, unbalanced and empty fixed lists, an unknown order, a fixed order on .config, the empty text): each call is accepted or rejected — with the same error offset and message — exactly as on a fresh parser; non-trivial = sequences of ≥2 calls", depth, len(c07hCalls)), replay)
	if c.Replaying() {
		return
	}
	f.Bounds["max_calls"] = depth
	var seqs [][]int
	for n := 1; n <= depth; n++ {
		mc.Sequences(len(c07hCalls), n, func(m []int) { seqs = append(seqs, append([]int{}, m...)) })
	}
	mc.ParRange(uint64(len(seqs)), 64, c.TimeUp, func(w int, lo, hi uint64) {
		l := f.Local()
		for i := lo; i < hi; i++ {
			msg := c07hCheck(seqs[i])
			l.Evals++
			if len(seqs[i]) > 1 {
				l.Nontrivial++
			}
			if msg != "" {
				l.Outcome("differs from a fresh parser")
				c.Fail(f, "parser-history", seqs[i], msg)
			} else {
				l.Outcome("as on a fresh parser")
			}
		}
		l.Flush()
	})
	f.Sample([]int{3, 6})
	f.Done()
}
