//go:build verif

package benchproc

import (
	"encoding/json"
	"fmt"

	"golang.org/x/perf/benchfmt"
	mc "golang.org/x/perf/internal/verifmc"
)

// ---- C06: masks over results with many measurements ----
//
// A per-measurement match is a bit set; whatever its word size, the patterns
// that matter are those of whole words (all kept, none kept) next to partial
// ones. The family enumerates every combination of per-block patterns over
// blocks of 32 measurements and realises each as a result whose unit names say
// whether the measurement is kept ("k17") or dropped ("d17").

var c06WordPatterns = []string{"all", "none", "first", "last", "but-first", "but-last", "even", "low-half"}

func c06WordBit(pat string, j int) bool {
	switch pat {
	case "all":
		return true
	case "none":
		return false
	case "first":
		return j == 0
	case "last":
		return j == 31
	case "but-first":
		return j != 0
	case "but-last":
		return j != 31
	case "even":
		return j%2 == 0
	default:
		return j < 16
	}
}

type c06WordCase struct {
	N    int
	Pats []int
}

func (cs c06WordCase) keep(i int) bool { return c06WordBit(c06WordPatterns[cs.Pats[i/32]], i%32) }

func c06WordRun(cs c06WordCase) string {
	r := &benchfmt.Result{Name: benchfmt.Name("X/k=1-4"), Iters: 1}
	for i := 0; i < cs.N; i++ {
		u := fmt.Sprintf("d%d", i)
		if cs.keep(i) {
			u = fmt.Sprintf("k%d", i)
		}
		r.Values = append(r.Values, benchfmt.Value{Value: float64(i + 1), Unit: u})
	}
	for _, text := range []string{".unit:/^k/", "-.unit:/^d/", ".unit:/^k/ AND /k:1", "-(.unit:/^d/ OR /k:2)"} {
		if m := c06CheckText(text, cs.keep, []*benchfmt.Result{r}); m != "" {
			return m
		}
	}
	return ""
}

func c06Words(c *mc.Check, maxWords int) {
	replay := func(raw json.RawMessage) string {
		var cs c06WordCase
		if err := json.Unmarshal(raw, &cs); err != nil {
			return err.Error()
		}
		var msg string
		if p := mc.Catch(func() { msg = c06WordRun(cs) }); p != "" {
			return p
		}
		return msg
	}
	f := c.Family("mask-word-patterns", fmt.Sprintf("results of 33 to %d measurements whose kept/dropped pattern is every combination of %d per-block patterns %v over blocks of 32 measurements (every number of blocks up to %d, the last block full, holding one measurement, or holding 31) × 4 filter texts selecting by unit name (positive, negated, combined with a whole-result term): Test(i) for every i, All, Any, Apply keeps exactly the kept measurements in order; non-trivial = patterns with a fully kept block after a block with a dropped measurement", 32*maxWords, len(c06WordPatterns), c06WordPatterns, maxWords), replay)
	if c.Replaying() {
		return
	}
	var cases []c06WordCase
	for words := 2; words <= maxWords; words++ {
		np := len(c06WordPatterns)
		total := 1
		for i := 0; i < words; i++ {
			total *= np
		}
		for code := 0; code < total; code++ {
			pats := make([]int, words)
			x := code
			for i := range pats {
				pats[i] = x % np
				x /= np
			}
			for _, tail := range []int{32, 1, 31} {
				cases = append(cases, c06WordCase{32*(words-1) + tail, pats})
			}
		}
	}
	f.Bounds["max_blocks"] = maxWords
	f.Bounds["cases"] = len(cases)
	done := mc.ParRange(uint64(len(cases)), 64, c.TimeUp, func(w int, lo, hi uint64) {
		l := f.Local()
		for i := lo; i < hi; i++ {
			cs := cases[i]
			var msg string
			if p := mc.Catch(func() { msg = c06WordRun(cs) }); p != "" {
				msg = p
			}
			l.Evals++
			dropped, nt := false, false
			for _, p := range cs.Pats {
				if c06WordPatterns[p] == "all" && dropped {
					nt = true
				}
				if c06WordPatterns[p] != "all" {
					dropped = true
				}
			}
			if nt {
				l.Nontrivial++
			}
			l.Outcome(fmt.Sprintf("blocks=%d full-after-drop=%v", len(cs.Pats), nt))
			if msg != "" {
				c.Fail(f, "mask-words", cs, msg)
			}
		}
		l.Flush()
	})
	if done < uint64(len(cases)) {
		f.Capped(fmt.Sprintf("time cap: %d of %d cases", done, len(cases)))
	}
	f.Sample(c06WordCase{64, []int{4, 0}})
	f.Done()
}
