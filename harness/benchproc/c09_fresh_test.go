//go:build verif

package benchproc

import (
	"fmt"
	"strings"
	"testing"

	mc "golang.org/x/perf/internal/verifmc"
)

// ---- C09: first calls of a fresh process (see mc.FirstCalls) ----

func c09Sorted(expr string, rs ...presult) string {
	var pp ProjectionParser
	all, _ := NewFilter("*")
	p, err := pp.Parse(expr, all)
	if err != nil {
		return err.Error()
	}
	var keys []Key
	seen := map[Key]bool{}
	for _, r := range rs {
		k := p.Project(r.build())
		if !seen[k] {
			seen[k] = true
			keys = append(keys, k)
		}
	}
	SortKeys(keys)
	var out []string
	for _, k := range keys {
		out = append(out, k.String())
	}
	return strings.Join(out, " < ")
}

func kv(pairs ...string) presult {
	p := presult{Name: "X", Units: []string{"u"}}
	for i := 0; i+1 < len(pairs); i += 2 {
		p.Cfg = append(p.Cfg, [3]string{pairs[i], pairs[i+1], "f"})
	}
	return p
}

var c09Calls = []mc.Call{
	{"k first-observed", func() string { return c09Sorted("k", kv("k", "z"), kv("k", "a"), kv(), kv("k", "m")) }},
	{"k@alpha", func() string { return c09Sorted("k@alpha", kv("k", "z"), kv("k", "a"), kv(), kv("k", "m")) }},
	{"k@num", func() string {
		return c09Sorted("k@num", kv("k", "10"), kv("k", "9"), kv("k", "1Ki"), kv("k", "1k"), kv("k", "1.5M"), kv("k", "NaN"), kv("k", "x"), kv("k", "2GiB"))
	}},
	{"k@(b a)", func() string {
		return c09Sorted("k@(b a),j", kv("k", "a", "j", "1"), kv("k", "b", "j", "2"), kv("k", "b", "j", "1"))
	}},
	{".config", func() string { return c09Sorted(".config", kv("k", "z"), kv("k", "a", "j", "1"), kv("j", "2"), kv()) }},
	{".config,.name@alpha", func() string {
		return c09Sorted(".config,.name@alpha", kv("k", "z"), presult{Name: "A", Units: []string{"u"}}, kv("k", "a", "j", "1"), presult{Name: "B", Units: []string{"u"}})
	}},
	{"parseNum", func() string {
		var out []string
		for _, s := range []string{"1", "1k", "1Ki", "2.5M", "3GiB", "1e3", "x", "", "NaN", "-4"} {
			v, err := parseNum(s)
			out = append(out, fmt.Sprint(v, err == nil))
		}
		return strings.Join(out, " ")
	}},
}

func TestVerifC09Fresh(t *testing.T) {
	if !mc.FirstCallsChild(c09Calls, "VERIF_C09_CALLS") {
		t.Skip()
	}
}
