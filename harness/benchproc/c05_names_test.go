//go:build verif

package benchproc

import (
	"encoding/json"
	"fmt"
	"os"
	"strconv"
	"strings"
	"testing"

	"golang.org/x/perf/benchfmt"
	mc "golang.org/x/perf/internal/verifmc"
	ref "golang.org/x/perf/internal/verifref"
)

// ---- C05: name decomposition and key extraction ----

var c05Symbols = []string{"/", "=", "-", "0", "7", "a", "k", "é"}

var c05Keys = []string{".name", ".fullname", "/k", "/a", "/gomaxprocs", "/", "cfg", "missing", "other",
	// sub-name keys built from the separators themselves: a key containing '/' can never be the key of a segment
	// (names are split at every '/'), keys containing '=' or '-' or a multi-byte rune must be compared whole
	"/a/k", "/k/", "//", "/=", "/k=", "/-7", "/é", "/a/"}

// c05Filters are fixed literal filters whose match must equal "the
// reference value of the key equals the literal".
var c05Filters = []struct{ key, lit string }{
	{".name", "a"}, {".name", ""}, {".name", "k"}, {".name", "a-7"},
	{".fullname", "a/k=7-7"}, {".fullname", ""},
	{"/k", "7"}, {"/k", ""}, {"/k", "a"}, {"/k", "7-7"}, {"/k", "0/a"},
	{"/a", "0"}, {"/a", ""},
	{"/gomaxprocs", "7"}, {"/gomaxprocs", "07"}, {"/gomaxprocs", ""}, {"/gomaxprocs", "0"}, {"/gomaxprocs", "a"},
	{"cfg", "v"}, {"cfg", ""}, {"missing", ""}, {"missing", "v"},
	{"/a/k", "7"}, {"/a/k", ""}, {"/k/", ""}, {"/a/", "k"}, {"/k=", "7"}, {"/=", ""}, {"/-7", "a"}, {"/é", "7"},
}

// c05Pairs: two literal terms on DIFFERENT keys joined by OR and by AND (indices into c05Filters): each term is
// judged by its own key.
var c05Pairs = [][2]int{{0, 6}, {6, 0}, {3, 13}, {4, 18}, {18, 6}, {8, 11}, {13, 2}, {20, 18}, {1, 7}, {6, 11}}

type c05Env struct {
	projs   []*Projection
	fields  []*Field
	filters []*Filter
	ors     []*Filter
	ands    []*Filter
	n       int
}

func newC05Env() *c05Env {
	e := &c05Env{}
	for _, k := range c05Keys {
		var pp ProjectionParser
		p, err := pp.Parse(strconv.Quote(k), nil)
		if err != nil {
			panic(err)
		}
		e.projs = append(e.projs, p)
		e.fields = append(e.fields, p.Fields()[0])
	}
	for _, f := range c05Filters {
		flt, err := NewFilter(strconv.Quote(f.key) + ":" + strconv.Quote(f.lit))
		if err != nil {
			panic(err)
		}
		e.filters = append(e.filters, flt)
	}
	term := func(i int) string { return strconv.Quote(c05Filters[i].key) + ":" + strconv.Quote(c05Filters[i].lit) }
	for _, pr := range c05Pairs {
		o, err := NewFilter(term(pr[0]) + " OR " + term(pr[1]))
		if err != nil {
			panic(err)
		}
		a, err := NewFilter(term(pr[0]) + " AND " + term(pr[1]))
		if err != nil {
			panic(err)
		}
		e.ors, e.ands = append(e.ors, o), append(e.ands, a)
	}
	return e
}

var c05Configs = [][]benchfmt.Config{
	nil,
	{{Key: "cfg", Value: []byte("v"), File: true}},
	{{Key: "other", Value: []byte("w"), File: true}, {Key: "cfg", Value: []byte("v"), File: false}},
}

func refKey(name string, cfg []benchfmt.Config, key string) string {
	if strings.HasPrefix(key, ".") || strings.HasPrefix(key, "/") {
		return ref.NameKey(name, key)
	}
	for _, c := range cfg {
		if c.Key == key {
			return string(c.Value)
		}
	}
	return ""
}

func c05CheckName(e *c05Env, name string, cfgIdx int) string {
	return c05CheckNameIn(e, name, cfgIdx, nil)
}

// c05CheckNameIn checks one name; if reuse is non-nil the name is written
// into that Result's existing name buffer in place (as a Reader does with its
// one reused Result), otherwise a fresh Result is built.
func c05CheckNameIn(e *c05Env, name string, cfgIdx int, reuse *benchfmt.Result) string {
	n := benchfmt.Name(name)
	if reuse != nil {
		reuse.Name = append(reuse.Name[:0], name...)
		n = reuse.Name
	}
	wbase, wsegs, wgmp := ref.NameParts(name)
	base, parts := n.Parts()
	// base + parts reproduces the full name
	recon := string(base)
	for _, p := range parts {
		recon += string(p)
	}
	if recon != name {
		return fmt.Sprintf("base+parts = %q, full name %q", recon, name)
	}
	wparts := append([]string{}, wsegs...)
	if wgmp != "" {
		wparts = append(wparts, wgmp)
	}
	if string(base) != wbase {
		return fmt.Sprintf("Parts base %q want %q", base, wbase)
	}
	if len(parts) != len(wparts) {
		return fmt.Sprintf("Parts %q want %q", parts, wparts)
	}
	for i := range parts {
		if string(parts[i]) != wparts[i] {
			return fmt.Sprintf("Parts %q want %q", parts, wparts)
		}
	}
	if b := string(n.Base()); b != wbase {
		return fmt.Sprintf("Base() = %q, base of Parts %q", b, wbase)
	}
	if string(n.Full()) != name || n.String() != name {
		return "Full/String differ from the name"
	}
	res := &benchfmt.Result{Name: n, Iters: 1, Values: []benchfmt.Value{{Value: 1, Unit: "u"}}, Config: c05Configs[cfgIdx]}
	if reuse != nil {
		res = reuse
		res.Config = c05Configs[cfgIdx]
	}
	for i, k := range c05Keys {
		want := refKey(name, c05Configs[cfgIdx], k)
		key := e.projs[i].Project(res)
		if got := key.Get(e.fields[i]); got != want {
			return fmt.Sprintf("projection %q = %q want %q", k, got, want)
		}
	}
	for i, f := range c05Filters {
		want := refKey(name, c05Configs[cfgIdx], f.key) == f.lit
		m, _ := e.filters[i].Match(res)
		if m.All() != want || m.Any() != want || m.Test(0) != want {
			return fmt.Sprintf("filter %s:%q matched all=%v any=%v test=%v, want %v", f.key, f.lit, m.All(), m.Any(), m.Test(0), want)
		}
	}
	for i, pr := range c05Pairs {
		f0, f1 := c05Filters[pr[0]], c05Filters[pr[1]]
		w0 := refKey(name, c05Configs[cfgIdx], f0.key) == f0.lit
		w1 := refKey(name, c05Configs[cfgIdx], f1.key) == f1.lit
		if m, _ := e.ors[i].Match(res); m.All() != (w0 || w1) {
			return fmt.Sprintf("filter %s:%q OR %s:%q matched %v, want %v (each term by its own key)", f0.key, f0.lit, f1.key, f1.lit, m.All(), w0 || w1)
		}
		if m, _ := e.ands[i].Match(res); m.All() != (w0 && w1) {
			return fmt.Sprintf("filter %s:%q AND %s:%q matched %v, want %v (each term by its own key)", f0.key, f0.lit, f1.key, f1.lit, m.All(), w0 && w1)
		}
	}
	if string(res.Name) != name {
		return "matching modified the name"
	}
	return ""
}

type c05Case struct {
	Name string
	Cfg  int
}

func c05Replay(raw json.RawMessage) string {
	var cs c05Case
	if err := json.Unmarshal(raw, &cs); err != nil {
		return err.Error()
	}
	var msg string
	if p := mc.Catch(func() { msg = c05CheckName(newC05Env(), cs.Name, cs.Cfg) }); p != "" {
		return p
	}
	return msg
}

func c05Names(c *mc.Check, maxLen int) {
	f := c.Family("names", fmt.Sprintf("every name of ≤%d symbols from %v: Parts/Base/Full against the reference decomposition, single-field projections on %v and %d literal filters against the reference key values, with 3 configuration maps for short names; non-trivial = the name has at least one configuration part", maxLen, c05Symbols, c05Keys, len(c05Filters)), c05Replay)
	if c.Replaying() {
		return
	}
	f.Bounds["max_len"] = maxLen
	en := mc.NewStrings(c05Symbols, maxLen)
	done := mc.ParRange(en.Total(), 2048, c.TimeUp, func(w int, lo, hi uint64) {
		e := newC05Env() // fresh projections per chunk bound the intern tables
		l := f.Local()
		var sym []int
		var buf []byte
		for i := lo; i < hi; i++ {
			sym, buf = en.Render(i, sym, buf)
			name := string(buf)
			ncfg := 1
			if len(sym) <= 4 {
				ncfg = 3
			}
			for ci := 0; ci < ncfg; ci++ {
				var msg string
				if p := mc.Catch(func() { msg = c05CheckName(e, name, ci) }); p != "" {
					msg = p
				}
				l.Evals++
				if msg != "" {
					c.Fail(f, "name", c05Case{name, ci}, msg)
					l.Outcome("violation")
					continue
				}
			}
			_, segs, gmp := ref.NameParts(name)
			if len(segs) > 0 || gmp != "" {
				l.Nontrivial++
			}
			cl := fmt.Sprintf("segs=%d", min(len(segs), 3))
			if gmp != "" {
				cl += "+gomaxprocs"
			}
			if ref.NameKey(name, "/k") != "" {
				cl += "+k"
			}
			l.Outcome(cl)
		}
		l.Flush()
	})
	if done < en.Total() {
		f.Capped(fmt.Sprintf("time cap: %d of %d names", done, en.Total()))
	}
	f.Sample(c05Case{"a/k=7-7", 0})
	f.Sample(c05Case{"a-7/k=0", 1})
	f.Done()
}

// c05Long covers the documented shapes with longer, realistic names.
func c05Long(c *mc.Check) {
	f := c.Family("structured-names", "realistic names built from base × up to 3 segments from a list (keyed, positional, empty, duplicate keys, explicit /gomaxprocs=) × optional -N; same oracle; non-trivial = ≥1 part", c05Replay)
	if c.Replaying() {
		return
	}
	bases := []string{"", "Copy", "Co-py", "Copy-8x", "é"}
	segs := []string{"/size=4k", "/size=", "/k=7", "/k=8", "/gomaxprocs=3", "/pos", "/", "/a=b=c", "/k=7-2"}
	sufs := []string{"", "-16", "-", "-1x", "--8", "-08"}
	e := newC05Env()
	var names []string
	for _, b := range bases {
		for _, s := range sufs {
			names = append(names, b+s)
			for _, s1 := range segs {
				names = append(names, b+s1+s)
				for _, s2 := range segs {
					names = append(names, b+s1+s2+s)
					for _, s3 := range segs {
						names = append(names, b+s1+s2+s3+s)
					}
				}
			}
		}
	}
	for i, name := range names {
		if i%4096 == 0 {
			e = newC05Env()
		}
		for ci := range c05Configs {
			var msg string
			if p := mc.Catch(func() { msg = c05CheckName(e, name, ci) }); p != "" {
				msg = p
			}
			if msg != "" {
				c.Fail(f, "name", c05Case{name, ci}, msg)
			}
		}
		_, sg, gmp := ref.NameParts(name)
		nt := int64(0)
		if len(sg) > 0 || gmp != "" {
			nt = 1
		}
		f.Count(3, nt)
		f.Outcome(fmt.Sprintf("segs=%d gmp=%v", len(sg), gmp != ""), 1)
	}
	f.Sample(c05Case{"Copy/size=4k/gomaxprocs=3-16", 0})
	f.Done()
}

type c05PairCase struct {
	Prev, Cur string
}

// c05Reuse: the same projections and filters see two names one after the
// other in ONE name buffer that is overwritten in place.
func c05Reuse(c *mc.Check, maxLen int) {
	replay := func(raw json.RawMessage) string {
		var cs c05PairCase
		if err := json.Unmarshal(raw, &cs); err != nil {
			return err.Error()
		}
		var msg string
		if p := mc.Catch(func() { msg = c05CheckPair(newC05Env(), cs.Prev, cs.Cur) }); p != "" {
			return p
		}
		return msg
	}
	f := c.Family("name-buffer-reuse", fmt.Sprintf("every ordered pair of names of equal length ≤%d symbols, written one after the other into ONE reused Result's name buffer and seen by the same projection and filter objects (as when a Reader's result is projected directly); same oracle for both names; non-trivial = the two names have their '/' or '-N' boundaries at different offsets", maxLen), replay)
	if c.Replaying() {
		return
	}
	f.Bounds["max_len"] = maxLen
	for L := 1; L <= maxLen; L++ {
		var names []string
		mc.Sequences(len(c05Symbols), L, func(m []int) {
			var b []byte
			for _, k := range m {
				b = append(b, c05Symbols[k]...)
			}
			names = append(names, string(b))
		})
		// equal length in bytes: group by byte length
		byLen := map[int][]string{}
		for _, n := range names {
			byLen[len(n)] = append(byLen[len(n)], n)
		}
		for _, group := range byLen {
			group := group
			mc.ParRange(uint64(len(group)), 4, c.TimeUp, func(w int, lo, hi uint64) {
				e := newC05Env()
				l := f.Local()
				for i := lo; i < hi; i++ {
					for _, cur := range group {
						prev := group[i]
						var msg string
						if p := mc.Catch(func() { msg = c05CheckPair(e, prev, cur) }); p != "" {
							msg = p
						}
						l.Evals++
						_, s1, g1 := ref.NameParts(prev)
						_, s2, g2 := ref.NameParts(cur)
						if fmt.Sprint(lens(s1), len(g1)) != fmt.Sprint(lens(s2), len(g2)) {
							l.Nontrivial++
							l.Outcome("boundaries-differ")
						} else {
							l.Outcome("same-shape")
						}
						if msg != "" {
							c.Fail(f, "name-reuse", c05PairCase{prev, cur}, msg)
						}
					}
					if i%64 == 63 {
						e = newC05Env()
					}
				}
				l.Flush()
			})
		}
	}
	f.Sample(c05PairCase{"a/k=7", "a/a=k"})
	f.Done()
}

func lens(s []string) []int {
	out := make([]int, len(s))
	for i, x := range s {
		out[i] = len(x)
	}
	return out
}

func c05CheckPair(e *c05Env, prev, cur string) string {
	res := &benchfmt.Result{Name: make(benchfmt.Name, 0, 64), Iters: 1, Values: []benchfmt.Value{{Value: 1, Unit: "u"}}}
	if m := c05CheckNameIn(e, prev, 0, res); m != "" {
		return "first name " + m
	}
	if m := c05CheckNameIn(e, cur, 0, res); m != "" {
		return fmt.Sprintf("after %q in the same buffer: %s", prev, m)
	}
	return ""
}

// c05Stream: all names as benchmark lines of one text, read by one Reader,
// each result projected directly (names alias the scanner's buffer).
func c05Stream(c *mc.Check, maxLen int) {
	f := c.Family("names-through-reader", fmt.Sprintf("every name of ≤%d symbols as a benchmark line of one text, forwards and backwards, read by one Reader whose reused Result is given directly to the same projection and filter objects; same oracle; non-trivial = names with parts", maxLen), nil)
	if c.Replaying() {
		return
	}
	en := mc.NewStrings(c05Symbols, maxLen)
	for pass := 0; pass < 2; pass++ {
		var names []string
		var text strings.Builder
		var sym []int
		var buf []byte
		for k := uint64(0); k < en.Total(); k++ {
			i := k
			if pass == 1 {
				i = en.Total() - 1 - k
			}
			sym, buf = en.Render(i, sym, buf)
			names = append(names, string(buf))
			text.WriteString("Benchmark" + string(buf) + " 1 1 u\n")
		}
		e := newC05Env()
		rd := benchfmt.NewReader(strings.NewReader(text.String()), "names")
		i := 0
		for rd.Scan() {
			res, ok := rd.Result().(*benchfmt.Result)
			if !ok {
				c.Fail(f, "name-stream", names[i], fmt.Sprintf("line %d: %v", i+1, rd.Result()))
				break
			}
			name := names[i]
			var msg string
			if string(res.Name) != name {
				msg = fmt.Sprintf("line %d: name %q read as %q", i+1, name, res.Name)
			} else {
				for ki, k := range c05Keys {
					want := refKey(name, nil, k)
					if got := e.projs[ki].Project(res).Get(e.fields[ki]); got != want {
						msg = fmt.Sprintf("name %q (line %d of the stream): projection %q = %q want %q", name, i+1, k, got, want)
						break
					}
				}
				for fi, fl := range c05Filters {
					want := refKey(name, nil, fl.key) == fl.lit
					if m, _ := e.filters[fi].Match(res); m.All() != want {
						msg = fmt.Sprintf("name %q (line %d of the stream): filter %s:%q = %v want %v", name, i+1, fl.key, fl.lit, m.All(), want)
						break
					}
				}
			}
			_, sg, g := ref.NameParts(name)
			nt := int64(0)
			if len(sg) > 0 || g != "" {
				nt = 1
			}
			f.Count(1, nt)
			if msg != "" {
				c.Fail(f, "name-stream", name, msg)
				f.Outcome("violation", 1)
			} else {
				f.Outcome("agree", 1)
			}
			i++
			if i%2048 == 0 {
				e = newC05Env()
			}
		}
		if i != len(names) {
			c.Fail(f, "name-stream", i, fmt.Sprintf("stream produced %d results for %d lines", i, len(names)))
		}
	}
	f.Sample("Benchmarka/k=7-7 1 1 u")
	f.Done()
}

func TestVerifC05(t *testing.T) {
	c := mc.NewCheck("C05")
	c.Assume("reference name model internal/verifref/name.go")
	c05Names(c, mc.Pick(c, 7, 9))
	c05Long(c)
	c05Reuse(c, mc.Pick(c, 3, 4))
	c05Stream(c, mc.Pick(c, 4, 5))
	c05Config(c, mc.Pick(c, 3, 4))
	c05Values(c, mc.Pick(c, 4, 5))
	if code := c.Finish(); code != 0 {
		os.Exit(code)
	}
}
