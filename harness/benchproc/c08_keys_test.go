//go:build verif

package benchproc

import (
	"encoding/json"
	"fmt"
	"os"
	"sort"
	"strings"
	"testing"

	"golang.org/x/perf/benchfmt"
	mc "golang.org/x/perf/internal/verifmc"
	ref "golang.org/x/perf/internal/verifref"
)

// ---- C08: keys identify projected tuples; projections plus residue lose nothing ----

var c08Results = []presult{
	{"X", nil, []string{"u1"}},
	{"X/k=1", [][3]string{{"goos", "linux", "f"}}, []string{"u1"}},
	{"X/k=2-4", [][3]string{{"goos", "linux", "f"}, {"pkg", "p", "f"}}, []string{"u1", "u2"}},
	{"Y/k=1/j=2-8", [][3]string{{"goos", "linux", "f"}, {"pkg", "p", "f"}, {"extra", "e", "f"}}, []string{"u1"}},
	{"X/j=2/k=1", [][3]string{{"pkg", "p", "f"}}, []string{"u2"}},
	{"X", [][3]string{{"goos", "ab", "f"}, {"pkg", "c", "f"}}, []string{"u1"}},
	{"X", [][3]string{{"goos", "a", "f"}, {"pkg", "bc", "f"}}, []string{"u1"}},
	{"X-4", [][3]string{{".file", "f1", "i"}, {"goos", "linux", "f"}}, []string{"u1"}},
	{"X-4", [][3]string{{".file", "f2", "i"}, {"goos", "linux", "f"}}, []string{"u1"}},
	{"X/k=1", [][3]string{{"goos", "windows", "f"}, {"extra", "e", "f"}}, []string{"u1", "u2"}},
	{"X", [][3]string{{"extra", "e", "f"}}, []string{"u1"}},
	{"X/k=1-4", [][3]string{{"goos", "linux", "f"}}, []string{"u1"}},
	{"X", [][3]string{{"goos", "plan9", "f"}}, []string{"u1"}}, // same length as "linux": in-place value reuse
	// the same keys as tool-internal configuration (a label installed by the tool, a key marked internal through
	// the API): whether a key is file configuration is a property of each result, not of the key
	{"X", [][3]string{{"goos", "linux", "i"}, {"extra", "e", "i"}}, []string{"u1"}},
	// a name that has the second sub-name key of the alphabet but not the first
	{"X/j=2", [][3]string{{"goos", "linux", "f"}}, []string{"u1"}},
	// a sub-name value that itself ends in -digits, in a part that is NOT the last one (only the end of the whole
	// name is a gomaxprocs suffix), next to the same name without the tail
	{"X/k=1-4/j=2-8", [][3]string{{"goos", "linux", "f"}}, []string{"u1"}},
	// other sub-name keys and positional parts that merely BEGIN with a projected key (/k): they stay in the name
	{"X/k=1/kx=2", [][3]string{{"goos", "linux", "f"}}, []string{"u1"}},
	{"X/k=1/kx=3/k", [][3]string{{"goos", "linux", "f"}}, []string{"u1"}},
}

var c08Exprs = []string{".config", ".fullname", ".name", "/k", "/gomaxprocs", "goos", "pkg", ".file"}

type c08Case struct {
	Exprs   []string
	Results []int
}

// resultSource hands out the results of a stream either as freshly built
// Results or — as benchstat and benchseries do — as the one reused Result of a
// Reader reading a text that encodes the stream (values and names then live in
// buffers that are overwritten in place from one result to the next).
type resultSource struct {
	rd *benchfmt.Reader
}

func streamText(stream []int) string {
	var b strings.Builder
	cur := map[string]string{}
	// keys the tool set as internal configuration on the reader's result after the previous line (see next):
	// the text deletes them again before the next result, which re-adds them as file or internal as it needs
	internalSet := map[string]bool{}
	for i, ri := range stream {
		r := c08Results[ri]
		want := map[string]string{}
		for _, c := range r.Cfg {
			if c[2] == "f" {
				want[c[0]] = c[1]
			}
		}
		var gone []string
		for k := range cur {
			if _, ok := want[k]; !ok {
				gone = append(gone, k)
			}
		}
		for k := range internalSet {
			if _, ok := cur[k]; !ok {
				gone = append(gone, k)
			}
			delete(internalSet, k)
		}
		for _, c := range r.Cfg {
			if c[2] == "i" && c[0] != ".file" {
				internalSet[c[0]] = true
			}
		}
		sort.Strings(gone)
		for _, k := range gone {
			fmt.Fprintf(&b, "%s:\n", k)
			delete(cur, k)
		}
		for _, c := range r.Cfg {
			if c[2] == "f" && cur[c[0]] != c[1] {
				fmt.Fprintf(&b, "%s: %s\n", c[0], c[1])
				cur[c[0]] = c[1]
			}
		}
		fmt.Fprintf(&b, "Benchmark%s 1", r.Name)
		for j, u := range r.Units {
			fmt.Fprintf(&b, " %d %s", i*10+j+1, u)
		}
		b.WriteString("\n")
	}
	return b.String()
}

func newResultSource(stream []int, viaReader bool) *resultSource {
	if !viaReader {
		return &resultSource{}
	}
	return &resultSource{rd: benchfmt.NewReader(strings.NewReader(streamText(stream)), "stream")}
}

// next returns result number n of the stream.
func (s *resultSource) next(r presult) (*benchfmt.Result, string) {
	if s.rd == nil {
		return r.build(), ""
	}
	if !s.rd.Scan() {
		return nil, "reader stream ended early"
	}
	res, ok := s.rd.Result().(*benchfmt.Result)
	if !ok {
		return nil, fmt.Sprintf("reader stream: %v", s.rd.Result())
	}
	// tool-internal keys are set by the tool on the reader's result
	res.SetConfig(".file", r.cfg(".file"))
	for _, c := range r.Cfg {
		if c[2] == "i" && c[0] != ".file" {
			res.SetConfig(c[0], c[1])
		}
	}
	if string(res.Name) != r.Name {
		return nil, fmt.Sprintf("reader stream out of step: %q vs %q", res.Name, r.Name)
	}
	return res, ""
}

// c08Run parses exprs in order with one parser, takes the residue, projects
// the stream and checks the invariants of the property after every result.
func c08Run(exprs []string, stream []int, canon *mc.Canon) (key, msg string) {
	key, msg = c08RunFrom(exprs, stream, canon, false)
	if msg != "" {
		return key, msg
	}
	if _, m := c08RunFrom(exprs, stream, nil, true); m != "" {
		return key, "results taken directly from a Reader: " + m
	}
	return key, ""
}

func c08RunFrom(exprs []string, stream []int, canon *mc.Canon, viaReader bool) (key, msg string) {
	src := newResultSource(stream, viaReader)
	var pp ProjectionParser
	var projs []*Projection
	// An expression written "!text" must be REJECTED by the parser; it only names keys that an accepted
	// expression of the same sequence names as well, and takes no further part: the projections that exist are
	// those of the accepted expressions, with their exclusions intact.
	var accepted []string
	for _, e := range exprs {
		if strings.HasPrefix(e, "!") {
			if _, err := pp.Parse(e[1:], nil); err == nil {
				return "", fmt.Sprintf("Parse(%q) is accepted", e[1:])
			}
			continue
		}
		p, err := pp.Parse(e, nil)
		if err != nil {
			return "", fmt.Sprintf("Parse(%q): %v", e, err)
		}
		projs = append(projs, p)
		accepted = append(accepted, e)
	}
	exprs = accepted
	projs = append(projs, pp.Residue())
	names := append(append([]string{}, exprs...), "<residue>")
	refOf := func(pi int, r presult) string {
		if pi == len(exprs) {
			return refResidue(exprs, r)
		}
		return refTuple(exprs[pi], exprs, r)
	}
	keys := make([][]Key, len(projs)) // keys[pi][i] obtained when result i was projected
	for n, ri := range stream {
		r := c08Results[ri]
		res, serr := src.next(r)
		if serr != "" {
			return "", serr
		}
		for pi, p := range projs {
			k := p.Project(res)
			if k.Projection() != p {
				return "", "Key.Projection() is not the projection that made it"
			}
			keys[pi] = append(keys[pi], k)
			if pi < len(exprs) {
				if m := keyFields(p, k, exprs[pi], exprs, r); m != "" {
					return "", m
				}
			}
			// Equality with every earlier key ⇔ equality of reference tuples.
			for j := 0; j < n; j++ {
				same := refOf(pi, c08Results[stream[j]]) == refOf(pi, r)
				if (keys[pi][j] == k) != same {
					return "", fmt.Sprintf("projection %s: keys of %v (result #%d) and %v (result #%d) equal=%v, projected tuples equal=%v", names[pi], c08Results[stream[j]], j, r, n, keys[pi][j] == k, same)
				}
			}
		}
		// Re-projecting any earlier result returns the identical key, however
		// much the schema grew in between.
		for j := 0; j <= n; j++ {
			rj := c08Results[stream[j]].build()
			for pi, p := range projs {
				if k2 := p.Project(rj); k2 != keys[pi][j] {
					return "", fmt.Sprintf("projection %s: re-projecting result #%d %v after %d more results gives a different key (%s vs %s)", names[pi], j, c08Results[stream[j]], n-j, k2, keys[pi][j])
				}
			}
		}
		// Losslessness: agreeing on all projections + residue ⇔ same file
		// configuration, same individually projected values, same remaining name.
		cfgKeys, nameKeys := specifics(exprs)
		full := func(r presult) string {
			var parts []string
			parts = append(parts, r.fileConfig())
			for _, k := range nameKeys {
				parts = append(parts, ref.NameKey(r.Name, k))
			}
			var ck []string
			for k := range cfgKeys {
				ck = append(ck, k)
			}
			sort.Strings(ck)
			for _, k := range ck {
				parts = append(parts, r.cfg(k))
			}
			parts = append(parts, ref.NameWithout(r.Name, nameKeys))
			return strings.Join(parts, "\x03")
		}
		for j := 0; j < n; j++ {
			agree := true
			for pi := range projs {
				if keys[pi][j] != keys[pi][n] {
					agree = false
				}
			}
			same := full(c08Results[stream[j]]) == full(r)
			if agree != same {
				return "", fmt.Sprintf("projections %v + residue: results %v and %v agree on all keys=%v, but same configuration/projected values/remaining name=%v", exprs, c08Results[stream[j]], r, agree, same)
			}
		}
	}
	if canon != nil {
		roots := []any{&pp}
		for _, p := range projs {
			roots = append(roots, p)
		}
		key = canon.Key(roots...)
	}
	return key, ""
}

func c08Replay(raw json.RawMessage) string {
	var cs c08Case
	if err := json.Unmarshal(raw, &cs); err != nil {
		return err.Error()
	}
	var msg string
	if p := mc.Catch(func() { _, msg = c08Run(cs.Exprs, cs.Results, nil) }); p != "" {
		return p
	}
	return msg
}

func exprSequences(maxLen int) [][]string {
	var out [][]string
	var rec func(cur []string)
	rec = func(cur []string) {
		if len(cur) > 0 {
			out = append(out, append([]string{}, cur...))
		}
		if len(cur) == maxLen {
			return
		}
	next:
		for _, e := range c08Exprs {
			for _, c := range cur {
				if c == e {
					continue next
				}
			}
			rec(append(cur, e))
		}
	}
	rec(nil)
	return out
}

var c08Compound = [][]string{
	{".config,/k"}, {"/k,.config"}, {".config,.name"}, {"goos,.config,/k"}, {".fullname,goos"}, {".config,/gomaxprocs", "pkg"},
	{"pkg", ".config,.name,/k"}, {".config,.fullname"}, {".fullname,.config"}, {".config,.file,/k"},
	// a rejected expression between accepted ones (it repeats keys the accepted ones name)
	{"goos", "!goos,pkg@bogus", ".config"}, {"goos", ".config", "!goos,.unit"}, {"/k", "!/k,.config@(a)", ".fullname"},
	{"pkg,goos", "!pkg@(", ".config"}, {".name", "!.name,goos@nosuch", ".fullname", "goos"},
	// two specific sub-name keys named by one parser, in both orders, in one and in several expressions
	{"/k", "/j", ".fullname"}, {"/j", "/k", ".fullname"}, {"/k,/j", ".fullname"}, {"/j,/k,.fullname"}, {".fullname", "/k", "/j"},
	{"/j", ".fullname,/k"}, {"/k", "/gomaxprocs", "/j", ".fullname"}, {"/j,.name", "/k", ".fullname"},
}

func c08Space(c *mc.Check, depth int, maxExprs int) {
	f := c.Family("streams", fmt.Sprintf("for every ordered sequence of ≤%d distinct projection expressions from %v, and the compound expressions %v, parsed by one parser (+ its residue): explicit-state BFS over streams of results from a %d-result alphabet (growing file keys, an internal key, colliding value pairs ab|c vs a|bc, sub-name keys in different orders, -N); on every transition: key equality ⇔ reference tuple equality against every earlier key, Key.Get = extracted value for every flattened field, .config contains no specific key, re-projection of every earlier result gives the identical key, losslessness of projections + residue; state key = heap dump of the parser and all projections", maxExprs, c08Exprs, c08Compound, len(c08Results)), c08Replay)
	if c.Replaying() {
		return
	}
	f.Bounds["max_depth"] = depth
	seqs := exprSequences(maxExprs)
	// Projections of several fields in ONE expression, in particular a group in front of a named field: the
	// flattened field order then differs from the order in which the fields were created (the named field exists
	// from parse time, the group's keys from their first observation), and keys are shorter than the field set.
	seqs = append(seqs, c08Compound...)
	f.Bounds["expression_sequences"] = len(seqs)
	canons := make([]*mc.Canon, mc.Workers())
	for i := range canons {
		canons[i] = projCanon()
	}
	// One BFS per expression sequence; sequences are independent, so they run
	// one after the other with the BFS itself parallel.
	for _, exprs := range seqs {
		exprs := exprs
		sp := &mc.Space{
			NOps: len(c08Results), MaxDepth: depth, Stop: c.TimeUp,
			Step: func(w int, hist []int) (string, string, bool) {
				var key, msg string
				if p := mc.Catch(func() { key, msg = c08Run(exprs, hist, canons[w]) }); p != "" {
					msg = p
				}
				return key, msg, false
			},
			OnFail: func(hist []int, msg string) {
				c.Fail(f, "projection-stream", c08Case{exprs, append([]int{}, hist...)}, msg)
			},
		}
		sp.Run()
		f.SpaceStats(sp.States, sp.Transitions, sp.Depth, sp.Fixpoint)
		f.Count(sp.Transitions, sp.Transitions)
		f.Outcome("merged-into-known-state", sp.Merged)
		f.Outcome("new-state", sp.States)
		if sp.Capped != "" {
			f.Capped(sp.Capped + " (expressions " + strings.Join(exprs, " ") + ")")
			break
		}
	}
	f.Sample(c08Case{[]string{".config", "goos"}, []int{1, 5, 6}})
	f.Sample(c08Case{[]string{".fullname", "/k", "/gomaxprocs"}, []int{2, 11, 4}})
	f.Done()
}

// c08Perms: the partition of a result stream induced by each expression (and
// by the residue) is the same for every order in which the expressions are
// parsed.
func c08Perms(c *mc.Check, maxExprs int) {
	replay := func(raw json.RawMessage) string {
		var set []string
		json.Unmarshal(raw, &set)
		var msg string
		if p := mc.Catch(func() { msg = c08CheckPerms(set) }); p != "" {
			return p
		}
		return msg
	}
	f := c.Family("parse-order", fmt.Sprintf("for every set of ≤%d expressions: all permutations of the parse order × 2 stream orders of the whole result alphabet: the partition induced by each expression and by the residue is identical for every parse order, and equals the reference partition; non-trivial = sets with ≥2 expressions", maxExprs), replay)
	if c.Replaying() {
		return
	}
	var sets [][]string
	var rec func(start int, cur []string)
	rec = func(start int, cur []string) {
		if len(cur) > 0 {
			sets = append(sets, append([]string{}, cur...))
		}
		if len(cur) == maxExprs {
			return
		}
		for i := start; i < len(c08Exprs); i++ {
			rec(i+1, append(cur, c08Exprs[i]))
		}
	}
	rec(0, nil)
	for _, set := range sets {
		var msg string
		if p := mc.Catch(func() { msg = c08CheckPerms(set) }); p != "" {
			msg = p
		}
		nt := int64(0)
		if len(set) >= 2 {
			nt = 1
		}
		f.Count(1, nt)
		f.Outcome(fmt.Sprintf("set-size-%d", len(set)), 1)
		if msg != "" {
			c.Fail(f, "parse-order", set, msg)
		}
	}
	f.Sample(sets[len(sets)/2])
	f.Done()
}

func partitionSig(keys []Key) string {
	ids := map[Key]int{}
	var b strings.Builder
	for _, k := range keys {
		id, ok := ids[k]
		if !ok {
			id = len(ids)
			ids[k] = id
		}
		fmt.Fprintf(&b, "%d,", id)
	}
	return b.String()
}

func refPartitionSig(vals []string) string {
	ids := map[string]int{}
	var b strings.Builder
	for _, k := range vals {
		id, ok := ids[k]
		if !ok {
			id = len(ids)
			ids[k] = id
		}
		fmt.Fprintf(&b, "%d,", id)
	}
	return b.String()
}

func c08CheckPerms(set []string) string {
	streams := [][]int{}
	fw := make([]int, len(c08Results))
	bw := make([]int, len(c08Results))
	for i := range fw {
		fw[i] = i
		bw[i] = len(fw) - 1 - i
	}
	streams = append(streams, fw, bw)
	msg := ""
	for _, stream := range streams {
		// reference partitions
		want := map[string]string{}
		for _, e := range append(append([]string{}, set...), "<residue>") {
			var vals []string
			for _, ri := range stream {
				if e == "<residue>" {
					vals = append(vals, refResidue(set, c08Results[ri]))
				} else {
					vals = append(vals, refTuple(e, set, c08Results[ri]))
				}
			}
			want[e] = refPartitionSig(vals)
		}
		mc.Permutations(len(set), func(perm []int) bool {
			var pp ProjectionParser
			projs := map[string]*Projection{}
			var order []string
			for _, pi := range perm {
				e := set[pi]
				order = append(order, e)
				p, err := pp.Parse(e, nil)
				if err != nil {
					msg = err.Error()
					return false
				}
				projs[e] = p
			}
			projs["<residue>"] = pp.Residue()
			for e, p := range projs {
				var keys []Key
				for _, ri := range stream {
					keys = append(keys, p.Project(c08Results[ri].build()))
				}
				if got := partitionSig(keys); got != want[e] {
					msg = fmt.Sprintf("expressions parsed in order %v: partition by %s is %s, reference %s", order, e, got, want[e])
					return false
				}
			}
			return true
		})
		if msg != "" {
			return msg
		}
	}
	return ""
}

// c08Units: ProjectValues varies .unit and only .unit.
func c08Units(c *mc.Check, depth int) {
	replay := func(raw json.RawMessage) string {
		var cs c08Case
		json.Unmarshal(raw, &cs)
		var msg string
		if p := mc.Catch(func() { _, msg = c08RunUnits(cs.Exprs[0], cs.Results, nil) }); p != "" {
			return p
		}
		return msg
	}
	f := c.Family("project-values", fmt.Sprintf("for each expression parsed with a .unit field: BFS over result streams to depth %d; ProjectValues returns one key per measurement whose .unit field is that measurement's unit and whose other fields equal the whole-result projection; keys of two measurements are equal ⇔ same unit and same tuple; non-trivial = every transition", depth), replay)
	if c.Replaying() {
		return
	}
	canons := make([]*mc.Canon, mc.Workers())
	for i := range canons {
		canons[i] = projCanon()
	}
	for _, e := range append(append([]string{}, c08Exprs...), ".config,.fullname", "/k,goos") {
		e := e
		sp := &mc.Space{
			NOps: len(c08Results), MaxDepth: depth, Stop: c.TimeUp,
			Step: func(w int, hist []int) (string, string, bool) {
				var key, msg string
				if p := mc.Catch(func() { key, msg = c08RunUnits(e, hist, canons[w]) }); p != "" {
					msg = p
				}
				return key, msg, false
			},
			OnFail: func(hist []int, msg string) {
				c.Fail(f, "project-values", c08Case{[]string{e}, append([]int{}, hist...)}, msg)
			},
		}
		sp.Run()
		f.SpaceStats(sp.States, sp.Transitions, sp.Depth, sp.Fixpoint)
		f.Count(sp.Transitions, sp.Transitions)
		f.Outcome("new-state", sp.States)
		f.Outcome("merged-into-known-state", sp.Merged)
		if sp.Capped != "" {
			f.Capped(sp.Capped)
			break
		}
	}
	f.Sample(c08Case{[]string{".config"}, []int{2, 9}})
	f.Done()
}

func c08RunUnits(expr string, stream []int, canon *mc.Canon) (key, msg string) {
	var pp ProjectionParser
	p, uf, err := pp.ParseWithUnit(expr, nil)
	if err != nil {
		return "", err.Error()
	}
	type obs struct {
		k     Key
		tuple string
	}
	var seen []obs
	for _, ri := range stream {
		r := c08Results[ri]
		res := r.build()
		ks := p.ProjectValues(res)
		if len(ks) != len(r.Units) {
			return "", fmt.Sprintf("ProjectValues returned %d keys for %d measurements", len(ks), len(r.Units))
		}
		for i, k := range ks {
			if got := k.Get(uf); got != r.Units[i] {
				return "", fmt.Sprintf("measurement %d of %v: .unit = %q want %q", i, r, got, r.Units[i])
			}
			if m := keyFields(p, k, expr, []string{expr}, r); m != "" {
				return "", m
			}
			tuple := refTuple(expr, []string{expr}, r) + "\x04" + r.Units[i]
			for _, o := range seen {
				if (o.k == k) != (o.tuple == tuple) {
					return "", fmt.Sprintf("expression %q with .unit: key equality %v but tuple equality %v (%q vs %q)", expr, o.k == k, o.tuple == tuple, o.tuple, tuple)
				}
			}
			seen = append(seen, obs{k, tuple})
		}
		// the whole-result key of the same projection, asked AFTER the per-measurement keys: its .unit is empty, its
		// other fields are the result's, and it equals the whole-result key of every result with the same tuple
		wk := p.Project(res)
		if got := wk.Get(uf); got != "" {
			return "", fmt.Sprintf("expression %q with .unit: Project(%v) after ProjectValues has .unit = %q, want empty", expr, r, got)
		}
		if m := keyFields(p, wk, expr, []string{expr}, r); m != "" {
			return "", m
		}
		wt := refTuple(expr, []string{expr}, r) + "\x04"
		for _, o := range seen {
			if (o.k == wk) != (o.tuple == wt) {
				return "", fmt.Sprintf("expression %q with .unit: whole-result key equality %v but tuple equality %v (%q vs %q)", expr, o.k == wk, o.tuple == wt, o.tuple, wt)
			}
		}
		seen = append(seen, obs{wk, wt})
	}
	if canon != nil {
		key = canon.Key(&pp, p)
	}
	return key, ""
}

func TestVerifC08(t *testing.T) {
	c := mc.NewCheck("C08")
	c.Assume("reference tuple extractor (harness) over the name model checked by C05")
	c08Space(c, mc.Pick(c, 3, 4), mc.Pick(c, 3, 3))
	c08Perms(c, mc.Pick(c, 3, 4))
	c08Units(c, mc.Pick(c, 3, 4))
	if code := c.Finish(); code != 0 {
		os.Exit(code)
	}
}
