//go:build verif

package benchproc

import (
	"fmt"
	"strings"
	"testing"

	"golang.org/x/perf/benchfmt"
	"golang.org/x/perf/benchunit"
	mc "golang.org/x/perf/internal/verifmc"
)

// ---- C04: first calls of a fresh process (see mc.FirstCalls) ----

func c04Read(line string) string {
	rd := benchfmt.NewReader(strings.NewReader(line+"\n"), "f")
	var out []string
	for rd.Scan() {
		switch r := rd.Result().(type) {
		case *benchfmt.Result:
			for _, v := range r.Values {
				out = append(out, fmt.Sprintf("%v %s (%v %s)", v.Value, v.Unit, v.OrigValue, v.OrigUnit))
			}
		default:
			out = append(out, fmt.Sprintf("%T", r))
		}
	}
	um := rd.Units()
	return strings.Join(out, "; ") + fmt.Sprintf(" better(ns/op)=%d", um.GetBetter("ns/op"))
}

func c04Tidy(v float64, u string) string {
	gv, gu := benchunit.Tidy(v, u)
	return fmt.Sprint(gv, " ", gu)
}

var c04Calls = []mc.Call{
	{"Tidy(1,ns/op)", func() string { return c04Tidy(1, "ns/op") }},
	{"Tidy(1,MB/s)", func() string { return c04Tidy(1, "MB/s") }},
	{"Tidy(2,ns*MB/ns-x)", func() string { return c04Tidy(2, "ns*MB/ns-x") }},
	{"Tidy(0,x-ns)", func() string { return c04Tidy(0, "x-ns") }},
	{"Tidy(3,B/op)", func() string { return c04Tidy(3, "B/op") }},
	{"Tidy(3,nsec/op)", func() string { return c04Tidy(3, "nsec/op") }},
	{"ClassOf", func() string {
		return fmt.Sprint(benchunit.ClassOf("MB/s"), benchunit.ClassOf("ns/op"), benchunit.ClassOf("x/B"))
	}},
	{"Reader(5 ns/op 3 MB/s)", func() string { return c04Read("BenchmarkX 1 5 ns/op 3 MB/s 7 B/op") }},
	{"Reader(0 ns/op)", func() string { return c04Read("BenchmarkX 1 0 ns/op +Inf MB*ns") }},
	{"Reader(Unit metadata)", func() string { return c04Read("Unit ns/op better=lower\nBenchmarkX 1 5 ns/op") }},
	{"Filter(.unit:ns/op)", func() string {
		f, err := NewFilter(".unit:ns/op")
		if err != nil {
			return err.Error()
		}
		rd := benchfmt.NewReader(strings.NewReader("BenchmarkX 1 5 ns/op 3 B/op\n"), "f")
		rd.Scan()
		m, _ := f.Match(rd.Result().(*benchfmt.Result))
		return fmt.Sprint(m.Test(0), m.Test(1))
	}},
}

func TestVerifC04Fresh(t *testing.T) {
	if !mc.FirstCallsChild(c04Calls, "VERIF_C04_CALLS") {
		t.Skip()
	}
}
