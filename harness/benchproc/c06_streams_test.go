//go:build verif

package benchproc

import (
	"encoding/json"
	"fmt"
	"regexp"
	"strings"

	"golang.org/x/perf/benchfmt"
	mc "golang.org/x/perf/internal/verifmc"
)

// ---- C06: one Filter value used over a whole stream of results ----
//
// A Filter is compiled once and then asked about every result a Reader
// produces; the Reader rewrites its single Result in place (names, values of
// configuration keys, units). The meaning of the filter must not depend on
// what it was asked before.

// c06sLines is the line alphabet: values of equal and of different length for
// one key, deletion, a second key, names of equal length differing in a
// sub-name, one and two measurements, a rescaled unit.
var c06sLines = []string{
	"k: a1",
	"k: b1",
	"k: a2",
	"k: b22",
	"k:",
	"j: a1",
	"BenchmarkX/s=1 1 1 ua",
	"BenchmarkY/s=2 1 1 ua 2 ub",
	"BenchmarkX/s=2-4 1 3 ns/op 1 ub",
}

// refRes is what the harness knows about a result of the stream.
type refRes struct {
	cfg   map[string]string
	name  string // base name
	sub   string // value of /s
	gmp   string
	full  string
	units [][2]string // base unit, written unit
}

type c06sTerm struct {
	text string
	eval func(r *refRes, i int) bool
}

func reMatch(re string) func(string) bool {
	rx := regexp.MustCompile(re)
	return rx.MatchString
}

var c06sTerms = func() []c06sTerm {
	a := reMatch("^a")
	one := reMatch("1$")
	unitIs := func(r *refRes, i int, f func(string) bool) bool { return f(r.units[i][0]) || f(r.units[i][1]) }
	return []c06sTerm{
		{`k:a1`, func(r *refRes, i int) bool { return r.cfg["k"] == "a1" }},
		{`k:/^a/`, func(r *refRes, i int) bool { return a(r.cfg["k"]) }},
		{`k:/1$/`, func(r *refRes, i int) bool { return one(r.cfg["k"]) }},
		{`k:(b1 OR /^a/)`, func(r *refRes, i int) bool { return r.cfg["k"] == "b1" || a(r.cfg["k"]) }},
		// value lists mixing the kinds in the other order: a literal after a regexp is still an equality test
		{`k:(/^a/ OR b1)`, func(r *refRes, i int) bool { return r.cfg["k"] == "b1" || a(r.cfg["k"]) }},
		{`.unit:(/^ub$/ OR ua OR "ns/op")`, func(r *refRes, i int) bool {
			return unitIs(r, i, func(s string) bool { return s == "ub" || s == "ua" || s == "ns/op" })
		}},
		{`j:/^a/`, func(r *refRes, i int) bool { return a(r.cfg["j"]) }},
		{`.name:/^X$/`, func(r *refRes, i int) bool { return r.name == "X" }},
		{`/s:/1/`, func(r *refRes, i int) bool { return strings.Contains(r.sub, "1") }},
		{`/gomaxprocs:/4/`, func(r *refRes, i int) bool { return strings.Contains(r.gmp, "4") }},
		{`.fullname:/s=2/`, func(r *refRes, i int) bool { return strings.Contains(r.full, "s=2") }},
		{`.unit:/^u[ab]$/`, func(r *refRes, i int) bool { return unitIs(r, i, reMatch("^u[ab]$")) }},
		{`.unit:/^(ub|ns.op)$/`, func(r *refRes, i int) bool { return unitIs(r, i, reMatch("^(ub|ns.op)$")) }},
		{`.unit:ua`, func(r *refRes, i int) bool { return unitIs(r, i, func(s string) bool { return s == "ua" }) }},
		// a pure literal anchored at both ends is an equality test, not a substring test: b22 contains b2, ua contains u
		{`k:/^b2$/`, func(r *refRes, i int) bool { return r.cfg["k"] == "b2" }},
		{`k:/b2/`, func(r *refRes, i int) bool { return strings.Contains(r.cfg["k"], "b2") }},
		{`.unit:/^u$/`, func(r *refRes, i int) bool { return false }},
		{`.fullname:/^X$/`, func(r *refRes, i int) bool { return r.full == "X" }},
	}
}()

type c06sFilter struct {
	text string
	eval func(r *refRes, i int) bool
}

// c06sFilters: every term, its negation, and every AND / OR of two terms.
func c06sFilters() []c06sFilter {
	var out []c06sFilter
	for _, t := range c06sTerms {
		t := t
		out = append(out, c06sFilter{t.text, t.eval})
		out = append(out, c06sFilter{"-" + t.text, func(r *refRes, i int) bool { return !t.eval(r, i) }})
	}
	for i, t := range c06sTerms {
		for j, u := range c06sTerms {
			if i == j {
				continue
			}
			t, u := t, u
			if i < j {
				out = append(out, c06sFilter{t.text + " " + u.text, func(r *refRes, i int) bool { return t.eval(r, i) && u.eval(r, i) }})
			}
			out = append(out, c06sFilter{t.text + " OR -" + u.text, func(r *refRes, i int) bool { return t.eval(r, i) || !u.eval(r, i) }})
		}
	}
	return out
}

// c06sRef interprets the line alphabet.
func c06sRef(lines []int) []*refRes {
	cfg := map[string]string{}
	var out []*refRes
	for _, li := range lines {
		l := c06sLines[li]
		if !strings.HasPrefix(l, "Benchmark") {
			k, v, _ := strings.Cut(l, ":")
			v = strings.TrimSpace(v)
			if v == "" {
				delete(cfg, k)
			} else {
				cfg[k] = v
			}
			continue
		}
		f := strings.Fields(l)
		full := strings.TrimPrefix(f[0], "Benchmark")
		r := &refRes{cfg: map[string]string{}, full: full}
		for k, v := range cfg {
			r.cfg[k] = v
		}
		rest := full
		if i := strings.LastIndexByte(rest, '-'); i >= 0 {
			r.gmp, rest = rest[i+1:], rest[:i]
		}
		r.name, r.sub, _ = strings.Cut(rest, "/s=")
		for i := 3; i < len(f); i += 2 {
			u := f[i]
			base := u
			if u == "ns/op" {
				base = "sec/op"
			}
			r.units = append(r.units, [2]string{base, u})
		}
		out = append(out, r)
	}
	return out
}

type c06sCase struct {
	Lines   []int
	Filters []int // indexes into c06sFilters(), all used over the one stream
}

func c06sRun(filters []c06sFilter, fidx []int, lines []int) string {
	var text strings.Builder
	for _, li := range lines {
		text.WriteString(c06sLines[li])
		text.WriteByte('\n')
	}
	want := c06sRef(lines)
	fs := make([]*Filter, len(fidx))
	for i, fi := range fidx {
		f, err := NewFilter(filters[fi].text)
		if err != nil {
			return fmt.Sprintf("valid filter %q rejected: %v", filters[fi].text, err)
		}
		fs[i] = f
	}
	rd := benchfmt.NewReader(strings.NewReader(text.String()), "f")
	n := 0
	// the answer about the previous result, kept by the caller while the same Filter is asked about the next one:
	// an answer that has been given does not change
	held := make([]Match, len(fidx))
	heldWant := make([][]bool, len(fidx))
	for rd.Scan() {
		res, ok := rd.Result().(*benchfmt.Result)
		if !ok {
			continue
		}
		if n >= len(want) {
			return "more results than benchmark lines"
		}
		w := want[n]
		n++
		if len(res.Values) != len(w.units) {
			return fmt.Sprintf("result %d has %d measurements, the line %d", n, len(res.Values), len(w.units))
		}
		for i, f := range fs {
			ev := filters[fidx[i]].eval
			m, _ := f.Match(res)
			anyW := false
			var wants []bool
			for vi := range w.units {
				ww := ev(w, vi)
				wants = append(wants, ww)
				anyW = anyW || ww
				if m.Test(vi) != ww {
					return fmt.Sprintf("filter %q, result %d of the stream (%s, config %v): measurement %d (%s) matched=%v want %v", filters[fidx[i]].text, n, w.full, w.cfg, vi, w.units[vi][1], m.Test(vi), ww)
				}
			}
			for vi, hw := range heldWant[i] {
				if held[i].Test(vi) != hw {
					return fmt.Sprintf("filter %q: the Match obtained for result %d of the stream says measurement %d matched=%v after the same Filter was asked about result %d (it said %v before)", filters[fidx[i]].text, n-1, vi, held[i].Test(vi), n, hw)
				}
			}
			held[i], heldWant[i] = m, wants
			// Apply on a clone (the Reader's own result must stay intact for the next filter).
			cl := res.Clone()
			ok, _ := f.Apply(cl)
			if ok != anyW {
				return fmt.Sprintf("filter %q, result %d of the stream (%s, config %v): Apply reports %v want %v", filters[fidx[i]].text, n, w.full, w.cfg, ok, anyW)
			}
			j := 0
			for vi := range w.units {
				if !ev(w, vi) {
					continue
				}
				if j >= len(cl.Values) || cl.Values[j].Unit != w.units[vi][0] {
					return fmt.Sprintf("filter %q, result %d of the stream: Apply kept %v", filters[fidx[i]].text, n, cl.Values)
				}
				j++
			}
			if j != len(cl.Values) {
				return fmt.Sprintf("filter %q, result %d of the stream: Apply kept %d measurements want %d", filters[fidx[i]].text, n, len(cl.Values), j)
			}
		}
	}
	if n != len(want) {
		return fmt.Sprintf("%d results, want %d", n, len(want))
	}
	return ""
}

func c06Streams(c *mc.Check, maxLen int) {
	filters := c06sFilters()
	all := make([]int, len(filters))
	for i := range all {
		all[i] = i
	}
	replay := func(raw json.RawMessage) string {
		var cs c06sCase
		if err := json.Unmarshal(raw, &cs); err != nil {
			return err.Error()
		}
		var msg string
		if p := mc.Catch(func() { msg = c06sRun(filters, cs.Filters, cs.Lines) }); p != "" {
			return p
		}
		return msg
	}
	f := c.Family("filter-over-reader-streams", fmt.Sprintf("every stream of ≤%d lines from %q read by one Reader (which rewrites its single Result in place: same-length and different-length values of one key, deletion, names differing in one byte, a rescaled unit) × %d filters (every term of %d — literal, regexp and value-list terms on a file key, .name, a sub-name key, /gomaxprocs, .fullname, .unit — its negation, and every AND / OR-NOT of two terms), each Filter compiled ONCE and asked about every result of the stream in turn: Test(i) per measurement and Apply on a clone equal the reference evaluation of that result alone, and the Match obtained for the previous result still says what it said; non-trivial = streams with ≥2 results", maxLen, c06sLines, len(filters), len(c06sTerms)), replay)
	if c.Replaying() {
		return
	}
	f.Bounds["max_lines"] = maxLen
	f.Bounds["filters"] = len(filters)
	en := mc.NewStrings(c06sLines, maxLen)
	total := en.Total()
	done := mc.ParRange(total, 64, c.TimeUp, func(w int, lo, hi uint64) {
		l := f.Local()
		var sym []int
		var buf []byte
		for k := lo; k < hi; k++ {
			sym, buf = en.Render(k, sym, buf)
			nb := 0
			for _, s := range sym {
				if strings.HasPrefix(c06sLines[s], "Benchmark") {
					nb++
				}
			}
			if nb == 0 {
				continue
			}
			lines := append([]int(nil), sym...)
			var msg string
			if p := mc.Catch(func() { msg = c06sRun(filters, all, lines) }); p != "" {
				msg = p
			}
			l.Evals += int64(len(filters))
			if nb >= 2 {
				l.Nontrivial += int64(len(filters))
			}
			if msg != "" {
				l.Outcome("differs")
				// narrow the case to the one filter that fails, for the replay file
				cs := c06sCase{lines, all}
				for _, fi := range all {
					if c06sRun(filters, []int{fi}, lines) != "" {
						cs.Filters = []int{fi}
						break
					}
				}
				c.Fail(f, "filter-stream", cs, msg)
			} else {
				l.Outcome(fmt.Sprintf("agrees, %d results", nb))
			}
		}
		l.Flush()
	})
	if done < total {
		f.Capped(fmt.Sprintf("time cap: %d of %d streams", done, total))
	}
	f.Sample(c06sCase{[]int{0, 6, 1, 6}, []int{2}})
	f.Done()
}
