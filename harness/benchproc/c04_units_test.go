//go:build verif

package benchproc

import (
	"bytes"
	"encoding/json"
	"fmt"
	"math"
	"math/big"
	"os"
	"regexp"
	"strconv"
	"strings"
	"testing"
	"unicode"

	"golang.org/x/perf/benchfmt"
	"golang.org/x/perf/benchmath"
	"golang.org/x/perf/benchunit"
	mc "golang.org/x/perf/internal/verifmc"
	ref "golang.org/x/perf/internal/verifref"
)

// ---- C04: normalisation to base units for every value ----

var c04Tokens = []string{"ns", "MB", "B", "sec", "op", "nsec", "xMB", "/", "*", "-"}

var c04Values = []float64{1, 2.5, -3, 0, math.Copysign(0, -1), math.Inf(1), math.Inf(-1), math.NaN(), 5e-324, math.MaxFloat64, 1e9}

func fstr(v float64) string { return strconv.FormatFloat(v, 'g', -1, 64) }

func sameFloat(a, b float64) bool {
	if math.IsNaN(a) && math.IsNaN(b) {
		return true
	}
	return math.Float64bits(a) == math.Float64bits(b)
}

// scaledOK checks got against written × Π factors: exact for at most one
// factor, within 4 ulp of the exact product for several (only where the exact
// product is a normal float; at the range limits the order of multiplication
// legitimately matters).
func scaledOK(written float64, factors []float64, got float64) bool {
	if len(factors) <= 1 {
		return sameFloat(got, ref.Scale(written, factors))
	}
	if math.IsNaN(written) {
		return math.IsNaN(got)
	}
	if math.IsInf(written, 0) || written == 0 {
		return sameFloat(got, written)
	}
	x := new(big.Float).SetPrec(200).SetFloat64(written)
	for _, f := range factors {
		x.Mul(x, new(big.Float).SetPrec(200).SetFloat64(f))
	}
	e, _ := x.Float64()
	if math.IsInf(e, 0) || math.Abs(e) < 2.3e-308 {
		return true
	}
	lo, hi := e, e
	for i := 0; i < 4*len(factors); i++ {
		lo = math.Nextafter(lo, math.Inf(-1))
		hi = math.Nextafter(hi, math.Inf(1))
	}
	return got >= lo && got <= hi
}

type c04Case struct {
	Unit  string
	Value string
}

type c04Env struct {
	rd  benchfmt.Reader
	buf bytes.Buffer
}

// c04CheckUnit reads one text with a line per value for the given unit, then
// checks every clause of the property for each measurement.
func c04CheckUnit(e *c04Env, unit string, values []float64) (string, string) {
	base, factors, _ := ref.BaseUnit(unit)
	e.buf.Reset()
	for _, v := range values {
		fmt.Fprintf(&e.buf, "BenchmarkX 1 %s %s\n", fstr(v), unit)
	}
	e.rd.Reset(bytes.NewReader(e.buf.Bytes()), "u")
	fltW, err := NewFilter(".unit:" + strconv.Quote(unit))
	if err != nil {
		return "", "filter for written unit: " + err.Error()
	}
	fltB, err := NewFilter(".unit:" + strconv.Quote(base))
	if err != nil {
		return "", "filter for base unit: " + err.Error()
	}
	fltO, _ := NewFilter(".unit:" + strconv.Quote(unit+"x"))
	i := 0
	for e.rd.Scan() {
		res, ok := e.rd.Result().(*benchfmt.Result)
		if !ok {
			return fstr(values[i]), fmt.Sprintf("record %v instead of a result", e.rd.Result())
		}
		w := values[i]
		ws := fstr(w)
		if len(res.Values) != 1 {
			return ws, "expected one measurement"
		}
		v := res.Values[0]
		if v.Unit != base {
			return ws, fmt.Sprintf("value %s %s reported in unit %q, base unit is %q", ws, unit, v.Unit, base)
		}
		if !scaledOK(w, factors, v.Value) {
			return ws, fmt.Sprintf("value %s %s reported as %v %s, want written × %v", ws, unit, v.Value, v.Unit, factors)
		}
		if base != unit {
			if v.OrigUnit != unit || !sameFloat(v.OrigValue, w) {
				return ws, fmt.Sprintf("value %s %s: original pair reported as (%v,%q)", ws, unit, v.OrigValue, v.OrigUnit)
			}
		} else {
			if !sameFloat(v.Value, w) {
				return ws, fmt.Sprintf("value %s %s: nothing to normalise but value changed to %v", ws, unit, v.Value)
			}
			if v.OrigUnit != "" && (v.OrigUnit != unit || !sameFloat(v.OrigValue, w)) {
				return ws, fmt.Sprintf("value %s %s: original pair reported as (%v,%q)", ws, unit, v.OrigValue, v.OrigUnit)
			}
		}
		// Normalising an already normalised measurement changes nothing.
		v2, u2 := benchunit.Tidy(v.Value, v.Unit)
		if u2 != v.Unit || !sameFloat(v2, v.Value) {
			return ws, fmt.Sprintf("Tidy(Tidy(%s %s)) = %v %s, first pass gave %v %s", ws, unit, v2, u2, v.Value, v.Unit)
		}
		// Unit filters apply whether the written or the base unit is named.
		for _, fl := range []struct {
			f    *Filter
			name string
			want bool
		}{{fltW, "written", true}, {fltB, "base", true}, {fltO, "other", false}} {
			m, _ := fl.f.Match(res)
			if m.Test(0) != fl.want {
				return ws, fmt.Sprintf("value %s %s: filter on the %s unit matches=%v want %v", ws, unit, fl.name, m.Test(0), fl.want)
			}
		}
		i++
	}
	if i != len(values) {
		return "", fmt.Sprintf("%d results for %d lines", i, len(values))
	}
	// One base unit under two spellings, seen by the same Filter values: a
	// result holding the unit as written and the base unit written directly,
	// in both orders. Filtering on the written unit selects only the
	// measurement written that way; filtering on the base unit selects both.
	if base != unit {
		for _, text := range []string{
			fmt.Sprintf("BenchmarkX 1 1 %s 2 %s\nBenchmarkX 1 3 %s 4 %s\n", unit, base, base, unit),
			fmt.Sprintf("BenchmarkX 1 3 %s 4 %s\nBenchmarkX 1 1 %s 2 %s\n", base, unit, unit, base),
		} {
			fW, _ := NewFilter(".unit:" + strconv.Quote(unit))
			fB, _ := NewFilter(".unit:" + strconv.Quote(base))
			fN, _ := NewFilter("-.unit:" + strconv.Quote(unit))
			e.rd.Reset(strings.NewReader(text), "mixed")
			for e.rd.Scan() {
				res, ok := e.rd.Result().(*benchfmt.Result)
				if !ok || len(res.Values) != 2 {
					return "", fmt.Sprintf("mixed spelling text %q: unexpected record", text)
				}
				mW, _ := fW.Match(res)
				mB, _ := fB.Match(res)
				mN, _ := fN.Match(res)
				for i, v := range res.Values {
					writtenHere := v.OrigUnit == unit
					if mW.Test(i) != writtenHere || mN.Test(i) == writtenHere || !mB.Test(i) {
						return "", fmt.Sprintf("text %q, measurement %d (%v %s, written %q): filter on written unit=%v (want %v), negated=%v, on base unit=%v (want true)", text, i, v.Value, v.Unit, v.OrigUnit, mW.Test(i), writtenHere, mN.Test(i), mB.Test(i))
					}
				}
			}
		}
	}
	// ONE term that can name several units (a regexp): each measurement is judged on its own, by its base or its
	// written unit, whatever the term matched elsewhere on the line.
	if base != unit {
		loose := func(u string) string {
			var b strings.Builder
			for _, r := range u {
				if r < 0x80 && (unicode.IsLetter(r) || unicode.IsDigit(r)) {
					b.WriteRune(r)
				} else {
					b.WriteByte('.')
				}
			}
			return b.String()
		}
		for _, pat := range []string{"^(" + loose(unit) + "|zz.op)$", "^(zz.op|" + loose(unit) + ")$", "^(" + loose(base) + "|zz.op)$"} {
			re, err := regexp.Compile(pat)
			fR, ferr := NewFilter(".unit:/" + pat + "/")
			if err != nil || ferr != nil {
				continue
			}
			for _, text := range []string{
				fmt.Sprintf("BenchmarkX 1 1 %s 2 zz/op 3 %s\n", unit, base),
				fmt.Sprintf("BenchmarkX 1 2 zz/op 1 %s\nBenchmarkX 1 3 %s 2 zz/op 1 %s\n", unit, base, unit),
			} {
				e.rd.Reset(strings.NewReader(text), "regexp")
				for e.rd.Scan() {
					res, ok := e.rd.Result().(*benchfmt.Result)
					if !ok {
						return "", fmt.Sprintf("text %q: unexpected record", text)
					}
					m, _ := fR.Match(res)
					for i, v := range res.Values {
						want := re.MatchString(v.Unit) || (v.OrigUnit != "" && re.MatchString(v.OrigUnit))
						if m.Test(i) != want {
							return "", fmt.Sprintf("text %q, filter .unit:/%s/, measurement %d (%v %s, written %q): selected=%v want %v", text, pat, i, v.Value, v.Unit, v.OrigUnit, m.Test(i), want)
						}
					}
				}
			}
		}
	}
	// Unit metadata applies whether the written or the base unit is named.
	for _, declared := range []string{unit, base} {
		var rd benchfmt.Reader
		rd.Reset(strings.NewReader("Unit "+declared+" better=higher assume=exact\n"), "m")
		for rd.Scan() {
			if se, ok := rd.Result().(*benchfmt.SyntaxError); ok {
				return "", "unit metadata line rejected: " + se.Error()
			}
		}
		um := rd.Units()
		for _, asked := range []string{unit, base} {
			md := um.Get(asked, "better")
			if md == nil || md.Value != "higher" {
				return "", fmt.Sprintf("metadata declared for %q not found when asking for %q", declared, asked)
			}
			if um.GetBetter(asked) != 1 {
				return "", fmt.Sprintf("GetBetter(%q) = %d after declaring better=higher for %q", asked, um.GetBetter(asked), declared)
			}
			if a := um.GetAssumption(asked); a != benchmath.AssumeExact {
				return "", fmt.Sprintf("GetAssumption(%q) is not exact after declaring assume=exact for %q", asked, declared)
			}
		}
	}
	return "", ""
}

func c04Replay(raw json.RawMessage) string {
	var cs c04Case
	if err := json.Unmarshal(raw, &cs); err != nil {
		return err.Error()
	}
	vals := c04Values
	var msg string
	if p := mc.Catch(func() { _, msg = c04CheckUnit(&c04Env{}, cs.Unit, vals) }); p != "" {
		return p
	}
	return msg
}

func c04Sig(unit, val, msg string) string {
	return "unit-norm"
}

func c04Units(c *mc.Check, maxTok int) {
	f := c.Family("units-through-reader", fmt.Sprintf("every sequence of 1..%d tokens from %v as the unit of a measurement × values %v, read by the real Reader: base unit for every value, scaling, original pair, pass-through, Tidy idempotence, .unit filters on both spellings, unit metadata under both spellings, against the unit model; non-trivial = the unit has something to normalise", maxTok, c04Tokens, "{1,2.5,-3,0,-0,±Inf,NaN,5e-324,MaxFloat64,1e9}"), c04Replay)
	if c.Replaying() {
		return
	}
	f.Bounds["max_tokens"] = maxTok
	en := mc.NewStrings(c04Tokens, maxTok)
	done := mc.ParRange(en.Total(), 64, c.TimeUp, func(w int, lo, hi uint64) {
		e := &c04Env{}
		l := f.Local()
		var sym []int
		var buf []byte
		for i := max(lo, 1); i < hi; i++ {
			sym, buf = en.Render(i, sym, buf)
			unit := string(buf)
			var val, msg string
			if p := mc.Catch(func() { val, msg = c04CheckUnit(e, unit, c04Values) }); p != "" {
				msg = p
			}
			l.Evals += int64(len(c04Values))
			base, factors, _ := ref.BaseUnit(unit)
			if base != unit {
				l.Nontrivial += int64(len(c04Values))
			}
			l.Outcome(fmt.Sprintf("factors=%d", len(factors)))
			if msg != "" {
				c.Fail(f, c04Sig(unit, val, msg), c04Case{unit, val}, msg)
			}
		}
		l.Flush()
	})
	if done < en.Total() {
		f.Capped(fmt.Sprintf("time cap: %d of %d units", done, en.Total()))
	}
	f.Sample(c04Case{"ns/op", "0"})
	f.Sample(c04Case{"MB*ns/ns-MB", "+Inf"})
	f.Done()
}

// c04Multisets: long numerators. Every multiset of components is a unit in
// which each ns contributes 1e-9 and each MB 1e6, whatever the other
// components are — in particular when the factors cancel (two ns and three
// MB scale by exactly 1) or accumulate beyond what one float step holds.
func c04Multisets(c *mc.Check, maxComp int) {
	comps := []string{"ns", "MB", "B", "x"}
	f := c.Family("component-multisets", fmt.Sprintf("every multiset of 1..%d numerator components from %v, written in three orders (sorted, reversed, interleaved) with separators * and -, alone and over the denominators /op and /ns*MB, × values {1, 2.5, 0, +Inf, NaN}, through the real Reader with the full per-unit oracle of units-through-reader (base unit named for every value, scaling by the product of the factors, original pair kept, filters and metadata under both spellings); non-trivial = multisets whose scale factors cancel to exactly 1 or involve ≥3 rescaled components", maxComp, comps), c04Replay)
	if c.Replaying() {
		return
	}
	f.Bounds["max_components"] = maxComp
	var units []string
	var cancel []bool
	for n := 1; n <= maxComp; n++ {
		mc.Multisets(len(comps), n, func(m []int) {
			toks := make([]string, n)
			nns, nmb := 0, 0
			for i, k := range m {
				toks[i] = comps[k]
				if comps[k] == "ns" {
					nns++
				}
				if comps[k] == "MB" {
					nmb++
				}
			}
			rev := make([]string, n)
			inter := make([]string, 0, n)
			for i := range toks {
				rev[i] = toks[n-1-i]
			}
			for i, j := 0, n-1; i <= j; i, j = i+1, j-1 {
				inter = append(inter, toks[i])
				if i != j {
					inter = append(inter, toks[j])
				}
			}
			for oi, order := range [][]string{toks, rev, inter} {
				sep := []string{"*", "-", "*"}[oi]
				num := strings.Join(order, sep)
				for _, den := range []string{"", "/op", "/ns*MB"} {
					units = append(units, num+den)
					cancel = append(cancel, (nns > 0 && 3*nns == 2*nmb) || nns+nmb >= 3)
				}
			}
		})
	}
	vals := []float64{1, 2.5, 0, math.Inf(1), math.NaN()}
	mc.ParRange(uint64(len(units)), 16, c.TimeUp, func(w int, lo, hi uint64) {
		e := &c04Env{}
		l := f.Local()
		for i := lo; i < hi; i++ {
			unit := units[i]
			var val, msg string
			if p := mc.Catch(func() { val, msg = c04CheckUnit(e, unit, vals) }); p != "" {
				msg = p
			}
			if msg == "" {
				if p := mc.Catch(func() { msg = c04CheckAPI(unit) }); p != "" {
					msg = p
				}
			}
			l.Evals += int64(len(vals))
			if cancel[i] {
				l.Nontrivial += int64(len(vals))
			}
			_, factors, _ := ref.BaseUnit(unit)
			l.Outcome(fmt.Sprintf("factors=%d", len(factors)))
			if msg != "" {
				c.Fail(f, c04Sig(unit, val, msg), c04Case{unit, val}, msg)
			}
		}
		l.Flush()
	})
	f.Sample(c04Case{"ns*ns*MB*MB*MB/op", "1"})
	f.Done()
}

// c04API exercises benchunit.Tidy / ClassOf directly, including units with
// blanks (which cannot be written in a benchmark line), sweeping the unit
// list in two opposite orders in one process because the result cache is
// process-wide.
func c04API(c *mc.Check, maxTok int) {
	toks := append(append([]string{}, c04Tokens...), " ", "\u00a0", "\u2003", "bytes", "à")
	replay := func(raw json.RawMessage) string {
		var u string
		json.Unmarshal(raw, &u)
		return c04CheckAPI(u)
	}
	f := c.Family("tidy-api", fmt.Sprintf("every sequence of 1..%d tokens from %v (incl. blank separators) given to benchunit.Tidy and ClassOf directly, swept forwards and then backwards in one process (the cache is global), against the unit model; non-trivial = something to normalise", maxTok, toks), replay)
	if c.Replaying() {
		return
	}
	f.Bounds["max_tokens"] = maxTok
	en := mc.NewStrings(toks, maxTok)
	total := en.Total()
	for pass := 0; pass < 2; pass++ {
		mc.ParRange(total, 1024, c.TimeUp, func(w int, lo, hi uint64) {
			l := f.Local()
			var sym []int
			var buf []byte
			for k := lo; k < hi; k++ {
				i := k
				if pass == 1 {
					i = total - 1 - k
				}
				sym, buf = en.Render(i, sym, buf)
				unit := string(buf)
				msg := c04CheckAPI(unit)
				l.Evals++
				if base, _, _ := ref.BaseUnit(unit); base != unit {
					l.Nontrivial++
					l.Outcome("rewritten")
				} else {
					l.Outcome("untouched")
				}
				if msg != "" {
					c.Fail(f, "tidy-api", unit, msg)
				}
			}
			l.Flush()
		})
	}
	f.Sample("ns MB/ns")
	f.Done()
}

func c04CheckAPI(unit string) string {
	base, factors, bin := ref.BaseUnit(unit)
	for _, v := range []float64{1, 0, math.Inf(1), 3} {
		gv, gu := benchunit.Tidy(v, unit)
		if gu != base {
			return fmt.Sprintf("Tidy(%v,%q) unit %q want %q", v, unit, gu, base)
		}
		if !scaledOK(v, factors, gv) {
			return fmt.Sprintf("Tidy(%v,%q) = %v want × %v", v, unit, gv, factors)
		}
		gv2, gu2 := benchunit.Tidy(gv, gu)
		if gu2 != gu || !sameFloat(gv2, gv) {
			return fmt.Sprintf("Tidy not idempotent on %q", unit)
		}
	}
	want := benchunit.Decimal
	if bin {
		want = benchunit.Binary
	}
	if got := benchunit.ClassOf(unit); got != want {
		return fmt.Sprintf("ClassOf(%q) = %v want %v", unit, got, want)
	}
	return ""
}

func TestVerifC04(t *testing.T) {
	c := mc.NewCheck("C04")
	c.Assume("reference unit model internal/verifref/unit.go")
	c04Units(c, mc.Pick(c, 5, 6))
	c04API(c, mc.Pick(c, 5, 6))
	c04Multisets(c, mc.Pick(c, 7, 10))
	c04Slots(c, mc.Pick(c, 3, 4))
	c04Long(c)
	mc.FirstCalls(c, c04Calls, "TestVerifC04Fresh", "VERIF_C04_CALLS")
	if code := c.Finish(); code != 0 {
		os.Exit(code)
	}
}
