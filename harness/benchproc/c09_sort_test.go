//go:build verif

package benchproc

import (
	"encoding/json"
	"fmt"
	"math"
	"os"
	"strconv"
	"strings"
	"testing"

	mc "golang.org/x/perf/internal/verifmc"
)

// ---- C09: keys sort by the documented per-field orders, totally and reproducibly ----

type c09Spec struct {
	Expr    string
	Results []presult
}

func cfgResults(sets ...[][2]string) []presult {
	var out []presult
	for _, s := range sets {
		p := presult{Name: "X", Units: []string{"u"}}
		for _, kv := range s {
			p.Cfg = append(p.Cfg, [3]string{kv[0], kv[1], "f"})
		}
		out = append(out, p)
	}
	return out
}

func product(k []string, j []string) []presult {
	var out []presult
	for _, kv := range k {
		for _, jv := range j {
			p := presult{Name: "X", Units: []string{"u"}}
			if jv != "-" {
				p.Cfg = append(p.Cfg, [3]string{"j", jv, "f"})
			}
			if kv != "-" {
				p.Cfg = append(p.Cfg, [3]string{"k", kv, "f"})
			}
			out = append(out, p)
		}
	}
	return out
}

var c09Specs = []c09Spec{
	{"k", product([]string{"b", "a", "-", "c"}, []string{"-", "1"})},
	{"k@alpha", product([]string{"b", "a", "-", "c"}, []string{"-", "1"})},
	{"k,j@num", product([]string{"b", "a", "-"}, []string{"10", "9", "-"})},
	{"k@num", product([]string{"10", "9", "1k", "1000", "1Ki", "1.5M", "NaN", "nan", "x", "y", "-"}, []string{"-"})},
	{"k@(b a),j", product([]string{"b", "a"}, []string{"-", "2", "1"})},
	// two fields drawing on ONE set of value strings, observed in an order that is not the bytewise one: a value
	// can be new to its field although the projection has seen the string under the other field
	{"k,j", product([]string{"8", "4", "-"}, []string{"8", "4", "-"})},
	{".config", cfgResults(
		[][2]string{{"k", "z"}}, [][2]string{{"k", "a"}}, [][2]string{{"j", "1"}}, [][2]string{{"k", "z"}, {"j", "2"}},
		[][2]string{{"j", "2"}, {"k", "a"}}, nil, [][2]string{{"k", "m"}, {"j", "1"}}, [][2]string{{"i", "q"}})},
	{".config@alpha", cfgResults(
		[][2]string{{"k", "z"}}, [][2]string{{"k", "a"}}, [][2]string{{"j", "1"}}, [][2]string{{"k", "z"}, {"j", "2"}},
		[][2]string{{"j", "2"}, {"k", "a"}}, nil)},
	{".fullname@alpha,k", []presult{
		{"B", nil, []string{"u"}}, {"A/x=1", nil, []string{"u"}}, {"A", nil, []string{"u"}},
		{"B", [][3]string{{"k", "b", "f"}}, []string{"u"}}, {"A", [][3]string{{"k", "b", "f"}}, []string{"u"}}, {"A", [][3]string{{"k", "a", "f"}}, []string{"u"}}}},
	{"j@num,.config", cfgResults(
		[][2]string{{"j", "10"}, {"k", "z"}}, [][2]string{{"j", "9"}, {"k", "a"}}, [][2]string{{"k", "a"}}, [][2]string{{"j", "1k"}},
		[][2]string{{"j", "9"}, {"k", "z"}}, [][2]string{{"j", "x"}, {"i", "1"}})},
	// A group in front of specific fields: the flattened order (.config's keys first) is not the order in which
	// the fields were created, and keys lacking the later .config keys are shorter than the field set.
	{".config,.name@alpha,/k@num", []presult{
		{"W/k=2k", [][3]string{{"i", "l", "f"}, {"j", "m", "f"}}, []string{"u"}}, {"W/k=1Ki", [][3]string{{"i", "l", "f"}}, []string{"u"}},
		{"S/k=900", [][3]string{{"i", "l", "f"}}, []string{"u"}}, {"W/k=2k", nil, []string{"u"}}, {"S/k=1Ki", nil, []string{"u"}},
		{"S/k=1000", nil, []string{"u"}}, {"I/k=5", nil, []string{"u"}}}},
	{".config,k@alpha", cfgResults(
		[][2]string{{"j", "1"}, {"k", "b"}}, [][2]string{{"k", "a"}}, [][2]string{{"k", "c"}}, [][2]string{{"j", "1"}, {"i", "2"}, {"k", "a"}},
		nil, [][2]string{{"i", "2"}, {"k", "z"}})},
	{"/k,.name", []presult{
		{"B/k=2", nil, []string{"u"}}, {"A/k=1", nil, []string{"u"}}, {"A", nil, []string{"u"}}, {"B/k=1", nil, []string{"u"}}, {"A/k=2", nil, []string{"u"}}}},
}

// refNum is the documented meaning of "num": a float, optionally followed by
// an SI or IEC prefix and an optional b/B.
func refNum(s string) (float64, bool) {
	if v, err := strconv.ParseFloat(s, 64); err == nil {
		return v, true
	}
	t := strings.TrimRight(s, "bB")
	if len(t) < len(s)-1 {
		return 0, false
	}
	mult := 1.0
	iec := strings.HasSuffix(t, "i")
	if iec {
		t = t[:len(t)-1]
	}
	if len(t) > 0 {
		if i := strings.IndexByte("kMGTPEZY", t[len(t)-1]); i >= 0 || t[len(t)-1] == 'K' {
			if t[len(t)-1] == 'K' {
				i = 0
			}
			base := 1000.0
			if iec {
				base = 1024
			}
			mult = math.Pow(base, float64(i+1))
			t = t[:len(t)-1]
		} else if iec {
			return 0, false
		}
	}
	v, err := strconv.ParseFloat(t, 64)
	if err != nil || t == "" {
		return 0, false
	}
	return v * mult, true
}

// fieldOrder says how the documentation orders two different values of one
// field: -1 / +1 when it strictly separates them, 0 when it does not.
type fieldOrder func(a, b string) int

func orderAlpha(a, b string) int { return strings.Compare(a, b) }

func orderNum(a, b string) int {
	av, aok := refNum(a)
	bv, bok := refNum(b)
	switch {
	case aok && !bok:
		return -1
	case !aok && bok:
		return 1
	case !aok && !bok:
		return 0
	}
	an, bn := math.IsNaN(av), math.IsNaN(bv)
	switch {
	case an && bn:
		return 0
	case an:
		return 1
	case bn:
		return -1
	case av < bv:
		return -1
	case av > bv:
		return 1
	}
	return 0
}

func orderFixed(list []string) fieldOrder {
	return func(a, b string) int {
		ia, ib := -1, -1
		for i, v := range list {
			if v == a {
				ia = i
			}
			if v == b {
				ib = i
			}
		}
		if ia < 0 || ib < 0 {
			return 0
		}
		return ia - ib
	}
}

// refField is one flattened field of the reference: how to read its value
// from a result and how it is ordered. first-observation fields record ranks
// as the stream is replayed.
type refField struct {
	name  string
	get   func(p presult) string
	order fieldOrder
	ranks map[string]int // first-observation only
}

func (f *refField) cmp(a, b string) int {
	if a == b {
		return 0
	}
	if f.ranks != nil {
		ra, oka := f.ranks[a]
		rb, okb := f.ranks[b]
		if !oka || !okb {
			return 0
		}
		return ra - rb
	}
	return f.order(a, b)
}

type refProj struct {
	parts  []string
	fields []*refField // flattened, in field order; .config grows
	cfgAt  int         // index in fields where new .config sub-fields are inserted (-1: none)
	cfgN   int
	cfgOrd string
	seen   []presult
}

func newRefProj(expr string) *refProj {
	rp := &refProj{cfgAt: -1}
	for _, part := range strings.Split(expr, ",") {
		key, ord, _ := strings.Cut(part, "@")
		k := key
		if k == ".config" {
			rp.cfgAt = len(rp.fields)
			rp.cfgOrd = ord
			continue
		}
		f := &refField{name: k}
		f.get = func(p presult) string { return refTuple(k, []string{expr}, p) }
		switch {
		case ord == "":
			f.ranks = map[string]int{}
		case ord == "alpha":
			f.order = orderAlpha
		case ord == "num":
			f.order = orderNum
		case strings.HasPrefix(ord, "("):
			f.order = orderFixed(strings.Fields(strings.Trim(ord, "()")))
		}
		rp.fields = append(rp.fields, f)
	}
	return rp
}

// observe replays one result: new .config sub-fields are created in the
// order file keys are first seen; first-observation ranks are assigned in
// the order values (missing = "") are first seen in each field.
func (rp *refProj) observe(p presult, exprAll string) {
	if rp.cfgAt >= 0 {
		cfgKeys, _ := specifics([]string{exprAll})
		for _, c := range p.Cfg {
			if c[2] != "f" || cfgKeys[c[0]] {
				continue
			}
			have := false
			for _, f := range rp.fields[rp.cfgAt : rp.cfgAt+rp.cfgN] {
				if f.name == c[0] {
					have = true
				}
			}
			if have {
				continue
			}
			name := c[0]
			f := &refField{name: name, get: func(q presult) string {
				for _, cc := range q.Cfg {
					if cc[0] == name && cc[2] == "f" {
						return cc[1]
					}
				}
				return ""
			}}
			switch rp.cfgOrd {
			case "":
				f.ranks = map[string]int{}
				// Results seen before this key existed had no value for it:
				// the missing value was observed first.
				if len(rp.seen) > 0 {
					f.ranks[""] = 0
				}
			case "alpha":
				f.order = orderAlpha
			case "num":
				f.order = orderNum
			}
			at := rp.cfgAt + rp.cfgN
			rp.fields = append(rp.fields[:at], append([]*refField{f}, rp.fields[at:]...)...)
			rp.cfgN++
		}
	}
	for _, f := range rp.fields {
		if f.ranks != nil {
			v := f.get(p)
			if _, ok := f.ranks[v]; !ok {
				f.ranks[v] = len(f.ranks)
			}
		}
	}
	rp.seen = append(rp.seen, p)
}

// compare returns -1/+1 if the documented order strictly separates the two
// results' tuples, 0 if they are equal, and 2 if the first differing field
// does not separate them (then only the order axioms are required).
func (rp *refProj) compare(a, b presult) int {
	for _, f := range rp.fields {
		av, bv := f.get(a), f.get(b)
		if av == bv {
			continue
		}
		c := f.cmp(av, bv)
		if c < 0 {
			return -1
		}
		if c > 0 {
			return 1
		}
		return 2
	}
	return 0
}

type c09Case struct {
	Spec   int
	Stream []int
}

func c09Run(si int, stream []int, canon *mc.Canon) (key, msg string) {
	spec := c09Specs[si]
	var pp ProjectionParser
	all, _ := NewFilter("*")
	p, err := pp.Parse(spec.Expr, all)
	if err != nil {
		return "", err.Error()
	}
	rp := newRefProj(spec.Expr)
	var keys []Key
	var reps []presult // representative result of each distinct key
	for _, ri := range stream {
		r := spec.Results[ri]
		k := p.Project(r.build())
		rp.observe(r, spec.Expr)
		dup := false
		for _, o := range keys {
			if o == k {
				dup = true
			}
		}
		if !dup {
			keys = append(keys, k)
			reps = append(reps, r)
		}
	}
	n := len(keys)
	// Strict total order, agreeing with the documented order where it decides.
	for i := 0; i < n; i++ {
		if keys[i].Less(keys[i]) {
			return "", fmt.Sprintf("%q: key %s is less than itself", spec.Expr, keys[i])
		}
		for j := 0; j < n; j++ {
			if i == j {
				continue
			}
			lij, lji := keys[i].Less(keys[j]), keys[j].Less(keys[i])
			if lij == lji {
				return "", fmt.Sprintf("%q: keys [%s] and [%s]: Less both ways = %v (not a strict total order)", spec.Expr, keys[i], keys[j], lij)
			}
			switch rp.compare(reps[i], reps[j]) {
			case -1:
				if !lij {
					return "", fmt.Sprintf("%q after stream %v: [%s] must sort before [%s] by the documented field orders, Less says otherwise", spec.Expr, stream, keys[i], keys[j])
				}
			case 1:
				if lij {
					return "", fmt.Sprintf("%q after stream %v: [%s] must sort after [%s] by the documented field orders, Less says otherwise", spec.Expr, stream, keys[i], keys[j])
				}
			}
			for l := 0; l < n; l++ {
				if l != i && l != j && lij && keys[j].Less(keys[l]) && !keys[i].Less(keys[l]) {
					return "", fmt.Sprintf("%q: Less is not transitive on [%s] [%s] [%s]", spec.Expr, keys[i], keys[j], keys[l])
				}
			}
		}
	}
	// Sorting any arrangement gives one and the same sorted sequence.
	var first []Key
	bad := ""
	perms := 0
	arrangements := func(fn func(perm []int) bool) {
		if n <= 6 {
			mc.Permutations(n, fn)
			return
		}
		// More than 6 keys: the stated finite family of all rotations,
		// forwards and reversed, and all adjacent transpositions.
		perm := make([]int, n)
		for rot := 0; rot < n; rot++ {
			for i := range perm {
				perm[i] = (i + rot) % n
			}
			if !fn(perm) {
				return
			}
			for i := range perm {
				perm[i] = (n - 1 - i + rot) % n
			}
			if !fn(perm) {
				return
			}
		}
		for t := 0; t+1 < n; t++ {
			for i := range perm {
				perm[i] = i
			}
			perm[t], perm[t+1] = perm[t+1], perm[t]
			if !fn(perm) {
				return
			}
		}
	}
	arrangements(func(perm []int) bool {
		perms++
		s := make([]Key, n)
		for i, pi := range perm {
			s[i] = keys[pi]
		}
		SortKeys(s)
		for i := 1; i < n; i++ {
			if !s[i-1].Less(s[i]) {
				bad = fmt.Sprintf("%q: SortKeys output not sorted under Less at %d: [%s] [%s]", spec.Expr, i, s[i-1], s[i])
				return false
			}
		}
		if first == nil {
			first = s
			return true
		}
		for i := range s {
			if s[i] != first[i] {
				bad = fmt.Sprintf("%q: SortKeys of arrangement %v differs from the sort of another arrangement at position %d", spec.Expr, perm, i)
				return false
			}
		}
		return true
	})
	if bad != "" {
		return "", bad
	}
	if canon != nil {
		key = canon.Key(&pp, p)
	}
	return key, ""
}

func c09Replay(raw json.RawMessage) string {
	var cs c09Case
	if err := json.Unmarshal(raw, &cs); err != nil {
		return err.Error()
	}
	var msg string
	if p := mc.Catch(func() { _, msg = c09Run(cs.Spec, cs.Stream, nil) }); p != "" {
		return p
	}
	return msg
}

func c09Space(c *mc.Check, depth int) {
	var exprs []string
	for _, s := range c09Specs {
		exprs = append(exprs, s.Expr)
	}
	f := c.Family("observation-histories", fmt.Sprintf("for each of the projections %q: explicit-state BFS over observation histories (streams of results over a per-projection value alphabet incl. missing values, values first seen after other keys exist, 1k vs 1000, NaN, non-numbers) to depth %d; on every state, over all distinct keys: Less irreflexive, asymmetric, total, transitive on all triples, agreeing with the reference order wherever the documented field order strictly separates two tuples; SortKeys of every permutation of the keys yields one sorted sequence; state key = heap dump of parser and projection; non-trivial = every transition", exprs, depth), c09Replay)
	if c.Replaying() {
		return
	}
	f.Bounds["max_depth"] = depth
	canons := make([]*mc.Canon, mc.Workers())
	for i := range canons {
		canons[i] = projCanon()
	}
	for si := range c09Specs {
		si := si
		sp := &mc.Space{
			NOps: len(c09Specs[si].Results), MaxDepth: depth, Stop: c.TimeUp,
			Step: func(w int, hist []int) (string, string, bool) {
				var key, msg string
				if p := mc.Catch(func() { key, msg = c09Run(si, hist, canons[w]) }); p != "" {
					msg = p
				}
				return key, msg, false
			},
			OnFail: func(hist []int, msg string) {
				sig := "sort-order"
				c.Fail(f, sig, c09Case{si, append([]int{}, hist...)}, msg)
			},
		}
		sp.Run()
		f.SpaceStats(sp.States, sp.Transitions, sp.Depth, sp.Fixpoint)
		f.Count(sp.Transitions, sp.Transitions)
		f.Outcome("new-state", sp.States)
		f.Outcome("merged-into-known-state", sp.Merged)
		if sp.Capped != "" {
			f.Capped(sp.Capped + " in projection " + c09Specs[si].Expr)
			break
		}
	}
	f.Sample(c09Case{6, []int{0, 1}})
	f.Sample(c09Case{3, []int{2, 3, 6, 8}})
	f.Done()
}

// c09Ladder: the whole ladder of SI and IEC prefixes under "num".
func c09Ladder(c *mc.Check) {
	var vals []string
	for _, m := range []string{"1", "2", "1.5", "1023", "0.5"} {
		for _, p := range []string{"", "k", "K", "M", "G", "T", "P", "E", "Z", "Y"} {
			for _, i := range []string{"", "i"} {
				if p == "" && i == "i" {
					continue
				}
				for _, b := range []string{"", "B"} {
					vals = append(vals, m+p+i+b)
				}
			}
		}
	}
	vals = append(vals, "999", "1000", "1024", "1e3", "1e24", "1.1e24", "1e30", "NaN", "x", "-1", "0")
	// other spellings of plain numbers: zero-padded, signed, fractional, huge integers whose float values differ,
	// a number between two others that is not a digit string (transitivity across spellings)
	vals = append(vals, "007", "08", "010", "9", "10", "8.5", "+7.5", "-0.5", "18446744073709551616", "9007199254740993", "1e-3", ".25", "3.")
	// prefixed values whose scaled value is not a whole number, next to plain numbers just below, at and just above
	// them and their roundings
	vals = append(vals, "1.2345k", "1234.4", "1234.5", "1234.6", "1235", "1.2344k", "1234", "1.0005Ki", "1024.5", "1024.6", "1025",
		"0.0004k", "0.25", "0.4", "0.6", "1.5B", "1.75", "1.25", "2.5B", "2.25", "0.0015M", "1500.5", "1.5005k")
	{
		seen := map[string]bool{}
		var u []string
		for _, v := range vals {
			if !seen[v] {
				seen[v] = true
				u = append(u, v)
			}
		}
		vals = u
	}
	check := func(order []int) string {
		var pp ProjectionParser
		p, err := pp.Parse("k@num", nil)
		if err != nil {
			return err.Error()
		}
		keys := make([]Key, len(vals))
		for _, i := range order {
			keys[i] = p.Project(presult{Name: "X", Cfg: [][3]string{{"k", vals[i], "f"}}, Units: []string{"u"}}.build())
		}
		for i := range vals {
			for j := range vals {
				if i == j {
					continue
				}
				lij, lji := keys[i].Less(keys[j]), keys[j].Less(keys[i])
				if lij == lji {
					return fmt.Sprintf("k@num: %q and %q: Less both ways = %v", vals[i], vals[j], lij)
				}
				switch c := orderNum(vals[i], vals[j]); {
				case c < 0 && !lij:
					return fmt.Sprintf("k@num: %q must sort before %q (numeric value with SI/IEC prefix), Less says otherwise", vals[i], vals[j])
				case c > 0 && lij:
					return fmt.Sprintf("k@num: %q must sort after %q (numeric value with SI/IEC prefix), Less says otherwise", vals[i], vals[j])
				}
			}
		}
		s := append([]Key{}, keys...)
		SortKeys(s)
		for i := 1; i < len(s); i++ {
			if !s[i-1].Less(s[i]) {
				return "SortKeys output not sorted"
			}
		}
		return ""
	}
	replay := func(raw json.RawMessage) string {
		var order []int
		json.Unmarshal(raw, &order)
		var msg string
		if p := mc.Catch(func() { msg = check(order) }); p != "" {
			return p
		}
		return msg
	}
	f := c.Family("num-prefix-ladder", fmt.Sprintf("projection k@num over %d values: every SI prefix k/K…Y and IEC prefix Ki…Yi with and without B, 5 mantissas, plain and exponent numbers, NaN and non-numbers, observed forwards and backwards: all ordered pairs compared with the reference numeric order, totality, SortKeys sorted; non-trivial = every pair of distinct values", len(vals)), replay)
	if c.Replaying() {
		return
	}
	fw := make([]int, len(vals))
	bw := make([]int, len(vals))
	for i := range fw {
		fw[i], bw[i] = i, len(vals)-1-i
	}
	for _, order := range [][]int{fw, bw} {
		var msg string
		if p := mc.Catch(func() { msg = check(order) }); p != "" {
			msg = p
		}
		n := int64(len(vals) * (len(vals) - 1))
		f.Count(n, n)
		f.Outcome(fmt.Sprintf("ok=%v", msg == ""), 1)
		if msg != "" {
			c.Fail(f, "sort-num-ladder", order, msg)
		}
	}
	f.Sample(vals[:12])
	f.Done()
}

func TestVerifC09(t *testing.T) {
	c := mc.NewCheck("C09")
	c.Assume("reference comparators written from the documentation; pairs the documented field order does not separate (1k vs 1000, two non-numbers under num) are only required to satisfy the order axioms")
	c.Assume("a missing value counts as the empty value, observed when the result lacking it is projected")
	c09Space(c, mc.Pick(c, 6, 7))
	c09Ladder(c)
	mc.FirstCalls(c, c09Calls, "TestVerifC09Fresh", "VERIF_C09_CALLS")
	if code := c.Finish(); code != 0 {
		os.Exit(code)
	}
}
