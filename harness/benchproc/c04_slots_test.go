//go:build verif

package benchproc

import (
	"encoding/json"
	"fmt"
	"math"
	"strings"

	"golang.org/x/perf/benchfmt"
	mc "golang.org/x/perf/internal/verifmc"
	ref "golang.org/x/perf/internal/verifref"
)

// ---- C04: the original pair of a measurement comes from its own line ----
//
// The Reader reuses the Value slots of its one Result from line to line and
// from file to file, and consumers (Filter.Apply, tools) shorten Values in
// place. Whatever the history of that slice, a measurement reports the unit
// and value of ITS line: rewritten units with their written pair, untouched
// units with nothing left over from an earlier line.

var c04sLines = []string{
	"BenchmarkX 1 100 ns/op 3 MB/s",
	"BenchmarkX 1 7 widgets",
	"BenchmarkX 1 8 widgets 2 B/op 9 ns/op",
	"BenchmarkX 1 1 B/op 5 sec/op",
}

// a step: line, what the consumer does with the result afterwards, and whether the next line is a new input
type c04sStep struct {
	Line   int
	Action int // 0 nothing, 1 Filter.Apply(.unit:widgets) on the reader's result, 2 Values = Values[:0], 3 Values = Values[:1]
	Reset  bool
}

func c04sCheck(steps []c04sStep) string {
	flt, err := NewFilter(".unit:widgets")
	if err != nil {
		return err.Error()
	}
	var rd benchfmt.Reader
	// inputs: maximal runs of steps not separated by a Reset
	i := 0
	for i < len(steps) {
		j := i
		var text strings.Builder
		for {
			text.WriteString(c04sLines[steps[j].Line] + "\n")
			j++
			if j >= len(steps) || steps[j-1].Reset {
				break
			}
		}
		rd.Reset(strings.NewReader(text.String()), fmt.Sprintf("in%d", i))
		for k := i; k < j; k++ {
			if !rd.Scan() {
				return fmt.Sprintf("step %d: no record", k)
			}
			res, ok := rd.Result().(*benchfmt.Result)
			if !ok {
				return fmt.Sprintf("step %d: %v", k, rd.Result())
			}
			f := strings.Fields(c04sLines[steps[k].Line])
			if len(res.Values) != (len(f)-2)/2 {
				return fmt.Sprintf("step %d of %+v: %d measurements for line %q", k, steps, len(res.Values), c04sLines[steps[k].Line])
			}
			for vi, v := range res.Values {
				var w float64
				fmt.Sscan(f[2+2*vi], &w)
				unit := f[3+2*vi]
				base, factors, _ := ref.BaseUnit(unit)
				if v.Unit != base || !scaledOK(w, factors, v.Value) {
					return fmt.Sprintf("step %d of %+v: measurement %d of %q reported as %v %s", k, steps, vi, c04sLines[steps[k].Line], v.Value, v.Unit)
				}
				if base != unit {
					if v.OrigUnit != unit || math.Float64bits(v.OrigValue) != math.Float64bits(w) {
						return fmt.Sprintf("step %d of %+v: measurement %d of %q: written pair reported as (%v, %q)", k, steps, vi, c04sLines[steps[k].Line], v.OrigValue, v.OrigUnit)
					}
				} else if v.OrigUnit != "" || v.OrigValue != 0 {
					return fmt.Sprintf("step %d of %+v: measurement %d of %q needs no normalising but carries the written pair (%v, %q) of another measurement", k, steps, vi, c04sLines[steps[k].Line], v.OrigValue, v.OrigUnit)
				}
			}
			switch steps[k].Action {
			case 1:
				flt.Apply(res)
			case 2:
				res.Values = res.Values[:0]
			case 3:
				res.Values = res.Values[:1]
			}
		}
		i = j
	}
	return ""
}

func c04Slots(c *mc.Check, depth int) {
	replay := func(raw json.RawMessage) string {
		var steps []c04sStep
		if err := json.Unmarshal(raw, &steps); err != nil {
			return err.Error()
		}
		var msg string
		if p := mc.Catch(func() { msg = c04sCheck(steps) }); p != "" {
			return p
		}
		return msg
	}
	nStep := len(c04sLines) * 4 * 2
	f := c.Family("reader-slot-histories", fmt.Sprintf("ONE Reader over every sequence of ≤%d steps, a step being one of %d lines (1–3 measurements; rewritten and untouched units at every slot index) × what the consumer then does with the reader's result (nothing, Filter.Apply keeping a subset, truncating Values to 0 or 1) × whether the next line belongs to a new input (Reset): every measurement reports the base unit and scaled value of its own line, rewritten units with exactly their written pair, untouched units with no written pair left over from any earlier occupant of the slot; non-trivial = sequences of ≥2 steps", depth, len(c04sLines)), replay)
	if c.Replaying() {
		return
	}
	f.Bounds["max_steps"] = depth
	var seqs [][]c04sStep
	for n := 1; n <= depth; n++ {
		mc.Sequences(nStep, n, func(m []int) {
			st := make([]c04sStep, n)
			for i, x := range m {
				st[i] = c04sStep{Line: x % len(c04sLines), Action: x / len(c04sLines) % 4, Reset: x/len(c04sLines)/4 == 1}
			}
			seqs = append(seqs, st)
		})
	}
	done := mc.ParRange(uint64(len(seqs)), 256, c.TimeUp, func(w int, lo, hi uint64) {
		l := f.Local()
		for i := lo; i < hi; i++ {
			var msg string
			if p := mc.Catch(func() { msg = c04sCheck(seqs[i]) }); p != "" {
				msg = p
			}
			l.Evals++
			if len(seqs[i]) > 1 {
				l.Nontrivial++
			}
			if msg != "" {
				l.Outcome("differs")
				c.Fail(f, "slot-history", seqs[i], msg)
			} else {
				l.Outcome("own line only")
			}
		}
		l.Flush()
	})
	if done < uint64(len(seqs)) {
		f.Capped(fmt.Sprintf("time cap: %d of %d histories", done, len(seqs)))
	}
	f.Sample([]c04sStep{{0, 2, true}, {1, 0, false}})
	f.Done()
}
