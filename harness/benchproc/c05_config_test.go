//go:build verif

package benchproc

import (
	"encoding/json"
	"fmt"
	"strconv"
	"strings"

	"golang.org/x/perf/benchfmt"
	mc "golang.org/x/perf/internal/verifmc"
)

// ---- C05: a plain key is the configured value of that key, whatever the history of the Result ----
//
// The Result under a projection or filter may be a literal, the Reader's own
// reused Result, or a Clone, and tools edit its configuration through
// SetConfig (growing, shrinking, deleting, re-adding values). The expected
// values are kept by the harness in a map of its own, never read back from
// the Result.

type c05cCase struct {
	Start int   // 0 literal, 1 clone of a parsed result, 2 the Reader's own result
	Ops   []int // op = key*len(values)+value
}

var c05cKeys = []string{"cfg", "other", "third"}
var c05cVals = []string{"", "v", "xy", "v12", "v1234", "a-much-longer-value"} // shorter, same length, one and three bytes longer (fits a neighbour), far longer

func c05cCheck(cs c05cCase) string {
	model := map[string]string{"cfg": "v1", "other": "w2", "third": "z3"}
	var res *benchfmt.Result
	switch cs.Start {
	case 0:
		res = &benchfmt.Result{Name: benchfmt.Name("X"), Iters: 1, Values: []benchfmt.Value{{Value: 1, Unit: "u"}}}
		for _, k := range c05cKeys {
			res.SetConfig(k, model[k])
		}
	default:
		rd := benchfmt.NewReader(strings.NewReader("cfg: v1\nother: w2\nthird: z3\nBenchmarkX 1 1 u\n"), "f")
		if !rd.Scan() {
			return "no result"
		}
		res = rd.Result().(*benchfmt.Result)
		if cs.Start == 1 {
			res = res.Clone()
		}
	}
	var projs []*Projection
	var flds []*Field
	for _, k := range c05cKeys {
		var pp ProjectionParser
		p, err := pp.Parse(k, nil)
		if err != nil {
			return err.Error()
		}
		projs = append(projs, p)
		flds = append(flds, p.Fields()[0])
	}
	check := func(step int) string {
		for i, k := range c05cKeys {
			if got := projs[i].Project(res).Get(flds[i]); got != model[k] {
				return fmt.Sprintf("after %d edits %v (start %d): key %q projects to %q, its configured value is %q", step, cs.Ops[:step], cs.Start, k, got, model[k])
			}
			for _, lit := range []string{model[k], "v", ""} {
				f, err := NewFilter(k + ":" + strconv.Quote(lit))
				if err != nil {
					return err.Error()
				}
				m, _ := f.Match(res)
				if m.All() != (model[k] == lit) {
					return fmt.Sprintf("after %d edits %v (start %d): filter %s:%q matches=%v, the configured value is %q", step, cs.Ops[:step], cs.Start, k, lit, m.All(), model[k])
				}
			}
		}
		return ""
	}
	if m := check(0); m != "" {
		return m
	}
	for step, op := range cs.Ops {
		k, v := c05cKeys[op/len(c05cVals)], c05cVals[op%len(c05cVals)]
		res.SetConfig(k, v)
		if v == "" {
			delete(model, k)
		} else {
			model[k] = v
		}
		if m := check(step + 1); m != "" {
			return m
		}
	}
	return ""
}

func c05Config(c *mc.Check, depth int) {
	replay := func(raw json.RawMessage) string {
		var cs c05cCase
		if err := json.Unmarshal(raw, &cs); err != nil {
			return err.Error()
		}
		var msg string
		if p := mc.Catch(func() { msg = c05cCheck(cs) }); p != "" {
			return p
		}
		return msg
	}
	nOps := len(c05cKeys) * len(c05cVals)
	f := c.Family("plain-keys-on-edited-results", fmt.Sprintf("a Result with three configuration keys that is a literal, a Clone of a parsed result, or the Reader's own result × every sequence of ≤%d SetConfig edits (each key set to a shorter, a much longer, another or the empty value = deletion): after every edit each plain key projects to — and literal filters match on — the value the harness's own map holds for it, absent keys being empty; non-trivial = sequences with ≥1 edit", depth), replay)
	if c.Replaying() {
		return
	}
	var cases []c05cCase
	for start := 0; start < 3; start++ {
		for n := 0; n <= depth; n++ {
			mc.Sequences(nOps, n, func(m []int) { cases = append(cases, c05cCase{start, append([]int{}, m...)}) })
		}
	}
	mc.ParRange(uint64(len(cases)), 64, c.TimeUp, func(w int, lo, hi uint64) {
		l := f.Local()
		for i := lo; i < hi; i++ {
			var msg string
			if p := mc.Catch(func() { msg = c05cCheck(cases[i]) }); p != "" {
				msg = p
			}
			l.Evals++
			if len(cases[i].Ops) > 0 {
				l.Nontrivial++
			}
			if msg != "" {
				l.Outcome("differs")
				c.Fail(f, "plain-key-history", cases[i], msg)
			} else {
				l.Outcome("configured values")
			}
		}
		l.Flush()
	})
	f.Sample(c05cCase{1, []int{2, 5}})
	f.Done()
}

// ---- configuration values as strings: a plain key is the configured value, byte for byte ----

var c05vSymbols = []string{"v", " ", "\t", "\u00a0", "-", "/", "=", ":", "\"", "é", "\xff", "*"}

// c05vCheck: the value s is configured under the key cfg — through SetConfig on
// a literal Result and, where a configuration line can carry it, through a
// Reader — and the plain key must project to exactly the bytes the Result's
// Config entry holds (read here directly from the slice), and literal filters
// must tell it from its neighbours.
func c05vCheck(s string) string {
	var results []*benchfmt.Result
	lit := &benchfmt.Result{Name: benchfmt.Name("X"), Iters: 1, Values: []benchfmt.Value{{Value: 1, Unit: "u"}}}
	lit.SetConfig("before", "b")
	lit.SetConfig("cfg", s)
	lit.SetConfig("after", "a")
	results = append(results, lit)
	if !strings.ContainsAny(s, "\n\r") {
		rd := benchfmt.NewReader(strings.NewReader("before: b\ncfg: "+s+"\nafter: a\nBenchmarkX 1 1 u\n"), "f")
		if rd.Scan() {
			if r, ok := rd.Result().(*benchfmt.Result); ok {
				results = append(results, r, r.Clone())
			}
		}
	}
	var pp ProjectionParser
	p, err := pp.Parse("cfg", nil)
	if err != nil {
		return err.Error()
	}
	fld := p.Fields()[0]
	for ri, res := range results {
		want := ""
		for _, c := range res.Config {
			if c.Key == "cfg" {
				want = string(c.Value)
			}
		}
		if ri == 0 && want != s {
			return fmt.Sprintf("SetConfig(cfg, %q) stored %q", s, want)
		}
		if got := p.Project(res).Get(fld); got != want {
			return fmt.Sprintf("result %d: key cfg projects to %q, the configured value is %q", ri, got, want)
		}
		for _, o := range []string{want, strings.TrimRight(want, " \t"), strings.TrimSpace(want), want + " ", " " + want, strings.TrimLeft(want, " \t"), ""} {
			f, err := NewFilter("cfg:" + strconv.Quote(o))
			if err != nil {
				return fmt.Sprintf("filter cfg:%q: %v", o, err)
			}
			m, _ := f.Match(res)
			if m.All() != (o == want) {
				return fmt.Sprintf("result %d: filter cfg:%q matches=%v, the configured value is %q", ri, o, m.All(), want)
			}
		}
	}
	return ""
}

func c05Values(c *mc.Check, maxLen int) {
	replay := func(raw json.RawMessage) string {
		var b []byte
		if err := json.Unmarshal(raw, &b); err != nil {
			return err.Error()
		}
		var msg string
		if p := mc.Catch(func() { msg = c05vCheck(string(b)) }); p != "" {
			return p
		}
		return msg
	}
	f := c.Family("configuration-value-strings", fmt.Sprintf("every string of ≤%d symbols from %q configured under one key between two others — by SetConfig on a literal Result and, as a configuration line, through a Reader (its own result and a Clone): the plain key projects to exactly the bytes of the Result's Config entry, the literal filter on those bytes matches and the filters on its neighbours (blanks trimmed on either side, a blank added, the empty value) do not; non-trivial = values beginning or ending in a blank", maxLen, c05vSymbols), replay)
	if c.Replaying() {
		return
	}
	en := mc.NewStrings(c05vSymbols, maxLen)
	done := mc.ParRange(en.Total(), 256, c.TimeUp, func(w int, lo, hi uint64) {
		l := f.Local()
		var sym []int
		var buf []byte
		for i := lo; i < hi; i++ {
			sym, buf = en.Render(i, sym, buf)
			s := string(buf)
			var msg string
			if p := mc.Catch(func() { msg = c05vCheck(s) }); p != "" {
				msg = p
			}
			l.Evals++
			if s != strings.TrimSpace(s) {
				l.Nontrivial++
				l.Outcome("blank at an end")
			} else {
				l.Outcome("no blank at an end")
			}
			if msg != "" {
				c.Fail(f, "plain-key-value", []byte(s), msg)
			}
		}
		l.Flush()
	})
	if done < en.Total() {
		f.Capped(fmt.Sprintf("time cap: %d of %d", done, en.Total()))
	}
	f.Sample([]byte("v "))
	f.Done()
}
