//go:build verif

package benchproc

import (
	"encoding/json"
	"errors"
	"fmt"
	"os"
	"regexp"
	"sort"
	"strconv"
	"strings"
	"testing"
	"time"
	"unicode"
	"unicode/utf8"

	"golang.org/x/perf/benchfmt"
	"golang.org/x/perf/benchproc/internal/parse"
	mc "golang.org/x/perf/internal/verifmc"
)

// ---- C07: any string is expressible; bad expressions fail cleanly ----

// "à" (C3 A0) and "Å" (C3 85) are multi-byte runes whose continuation byte,
// read as a Latin-1 code point, is a white-space character (NBSP, NEL).
var c07Symbols = []string{"a", "\"", "\\", " ", "-", "*", "(", ")", ":", "@", ",", "/", "O", "R", "\xff", "à", "Å", ".", "=", "\x01", "к", "Ĩ"}

// bareOK reports whether s may be written as an unquoted word according to
// the documented grammar: bareWord = [^-*"():@,][^ ():@,]*, no white space,
// not one of the operator words.
func bareOK(s string, valuePos bool) bool {
	if s == "" || s == "AND" || s == "OR" {
		return false
	}
	if strings.ContainsAny(s[:1], `-*"():@,`) {
		return false
	}
	if valuePos && s[0] == '/' {
		return false // "/" introduces a regexp in value position
	}
	for _, r := range s {
		if unicode.IsSpace(r) || strings.ContainsRune("():@,", r) {
			return false
		}
	}
	return true
}

// confusions returns strings near s that must NOT be matched by an
// expression denoting s.
func confusions(s string) []string {
	set := map[string]bool{}
	add := func(x string) {
		if x != s {
			set[x] = true
		}
	}
	add(s + "x")
	add(s + " ")
	add(" " + s)
	if len(s) > 0 {
		add(s[:len(s)-1])
		add(s[1:])
	}
	add(strings.ReplaceAll(s, `\`, ""))
	add(strings.ReplaceAll(s, `"`, ""))
	add(strings.TrimSpace(s))
	add(strconv.Quote(s))
	add(strings.ToValidUTF8(s, "�"))
	var out []string
	for k := range set {
		out = append(out, k)
	}
	return out
}

func resWith(key, val string) *benchfmt.Result {
	r := &benchfmt.Result{Name: benchfmt.Name("X"), Iters: 1, Values: []benchfmt.Value{{Value: 1, Unit: "u"}}}
	if val != "" {
		r.Config = []benchfmt.Config{{Key: key, Value: []byte(val), File: true}}
	}
	return r
}

func matches(f *Filter, r *benchfmt.Result) bool {
	m, _ := f.Match(r)
	return m.All()
}

// c07CheckString checks every clause of "any string is expressible" for s.
func c07CheckString(s string) string {
	q := strconv.Quote(s)
	// --- s as a value ---
	texts := []string{"k:" + q}
	if bareOK(s, true) {
		texts = append(texts, "k:"+s)
	}
	for _, text := range texts {
		f, err := NewFilter(text)
		if err != nil {
			return fmt.Sprintf("value %q written as %s does not parse: %v", s, text, firstLine(err))
		}
		if !matches(f, resWith("k", s)) {
			return fmt.Sprintf("filter %s does not match the value %q", text, s)
		}
		for _, o := range confusions(s) {
			if matches(f, resWith("k", o)) {
				return fmt.Sprintf("filter %s (for value %q) also matches %q", text, s, o)
			}
		}
	}
	// the quoted value next to a second term on the same key in ONE expression: each term keeps its own meaning
	{
		others := confusions(s)
		sort.Strings(others)
		for oi, o := range others {
			if o == "" || oi%3 != len(s)%3 {
				continue // a third of the neighbours per string (which third depends on the length)
			}
			for _, text := range []string{"k:" + q + " OR k:" + strconv.Quote(o), "k:" + strconv.Quote(o) + " OR k:" + q} {
				f, err := NewFilter(text)
				if err != nil {
					return fmt.Sprintf("%s does not parse: %v", text, firstLine(err))
				}
				if !matches(f, resWith("k", s)) || !matches(f, resWith("k", o)) {
					return fmt.Sprintf("filter %s does not match both %q and %q", text, s, o)
				}
				for _, o2 := range others {
					if o2 != o && matches(f, resWith("k", o2)) {
						return fmt.Sprintf("filter %s also matches %q", text, o2)
					}
				}
			}
		}
		// a value that reads like a regexp term: the quoted word is the literal, the bare /…/ the regexp
		if len(s) >= 3 && s[0] == '/' && s[len(s)-1] == '/' && !strings.ContainsAny(s[1:len(s)-1], "/ \t") {
			if re, err := regexp.Compile(s[1 : len(s)-1]); err == nil {
				for _, text := range []string{"k:" + q + " OR k:" + s, "k:" + s + " OR k:" + q, "k:" + q + " AND -k:" + s, "-k:" + s + " AND k:" + q} {
					f, err := NewFilter(text)
					if err != nil {
						// the bare regexp may be unacceptable to the filter grammar for its own reasons
						continue
					}
					and := strings.Contains(text, " AND ")
					for _, v := range append([]string{s, s[1 : len(s)-1]}, others...) {
						if v == "" {
							continue
						}
						lit, rx := v == s, re.MatchString(v)
						want := lit || rx
						if and {
							want = lit && !rx
						}
						if got := matches(f, resWith("k", v)); got != want {
							return fmt.Sprintf("filter %s on the value %q: matches=%v, want %v (the quoted word is the literal %q, the bare one the regexp)", text, v, got, want, s)
						}
					}
				}
			}
		}
	}
	// value list and fixed-order projection
	{
		f, err := NewFilter("k:(zz OR " + q + ")")
		if err != nil {
			return fmt.Sprintf("value %q in a value list does not parse: %v", s, firstLine(err))
		}
		if !matches(f, resWith("k", s)) {
			return fmt.Sprintf("value list with %s does not match %q", q, s)
		}
		all, _ := NewFilter("*")
		var pp ProjectionParser
		if _, err := pp.Parse("k@("+q+")", all); err != nil {
			return fmt.Sprintf("fixed list with %s does not parse: %v", q, firstLine(err))
		}
		if !matches(all, resWith("k", s)) {
			return fmt.Sprintf("fixed list k@(%s) drops the value %q", q, s)
		}
		for _, o := range confusions(s) {
			if matches(all, resWith("k", o)) {
				return fmt.Sprintf("fixed list k@(%s) keeps %q", q, o)
			}
		}
	}
	// --- s as a key ---
	if s == "" || s == ".name" || s == ".fullname" || s == ".config" || s == ".unit" {
		// the empty key is rejected by design; the four special keys denote something else; every other key —
		// also one that begins with a dot, such as the tool-set ".file" — is a configuration key
		return ""
	}
	mk := func(val string) *benchfmt.Result { return resWith(s, val) }
	if s[0] == '/' {
		if strings.Contains(s[1:], "/") {
			return ""
		}
		mk = func(val string) *benchfmt.Result {
			r := resWith("unused", "")
			r.Name = benchfmt.Name("X" + s + "=" + val)
			return r
		}
	}
	ktexts := []string{q + ":v"}
	if bareOK(s, false) {
		ktexts = append(ktexts, s+":v")
	}
	for _, text := range ktexts {
		f, err := NewFilter(text)
		if err != nil {
			return fmt.Sprintf("key %q written as %s does not parse: %v", s, text, firstLine(err))
		}
		if !matches(f, mk("v")) {
			return fmt.Sprintf("filter %s does not match a result whose %q is v", text, s)
		}
		if matches(f, mk("w")) {
			return fmt.Sprintf("filter %s matches a result whose %q is w", text, s)
		}
		if s[0] != '/' {
			for _, o := range confusions(s) {
				if o == "" {
					continue
				}
				if matches(f, resWith(o, "v")) {
					return fmt.Sprintf("filter %s (key %q) reads key %q", text, s, o)
				}
			}
		}
	}
	ptexts := []string{q}
	if bareOK(s, false) {
		ptexts = append(ptexts, s)
	}
	for _, text := range ptexts {
		var pp ProjectionParser
		p, err := pp.Parse(text, nil)
		if err != nil {
			return fmt.Sprintf("projection key %q written as %s does not parse: %v", s, text, firstLine(err))
		}
		if len(p.Fields()) != 1 || p.Fields()[0].Name != s {
			return fmt.Sprintf("projection %s has fields %v, want the single field %q", text, p.Fields(), s)
		}
		if got := p.Project(mk("v")).Get(p.Fields()[0]); got != "v" {
			return fmt.Sprintf("projection %s extracts %q, want v", text, got)
		}
	}
	return ""
}

func firstLine(err error) string {
	s := err.Error()
	if i := strings.IndexByte(s, '\n'); i >= 0 {
		return s[:i]
	}
	return s
}

func c07ReplayString(raw json.RawMessage) string {
	var b []byte
	if err := json.Unmarshal(raw, &b); err != nil {
		return err.Error()
	}
	var msg string
	if p := mc.Catch(func() { msg = c07CheckString(string(b)) }); p != "" {
		return p
	}
	return msg
}

func c07Strings(c *mc.Check, maxLen int) {
	f := c.Family("expressible-strings", fmt.Sprintf("every string of ≤%d symbols from %q used as a value and as a key: written as a double-quoted Go literal (and bare whenever the documented grammar allows) it parses in filters, value lists, projections and fixed lists and denotes exactly that string (matches it, matches none of a confusion set of neighbours); non-trivial = the string needs quoting", maxLen, c07Symbols), c07ReplayString)
	if c.Replaying() {
		return
	}
	f.Bounds["max_len"] = maxLen
	en := mc.NewStrings(c07Symbols, maxLen)
	done := mc.ParRange(en.Total(), 512, c.TimeUp, func(w int, lo, hi uint64) {
		l := f.Local()
		var sym []int
		var buf []byte
		for i := lo; i < hi; i++ {
			sym, buf = en.Render(i, sym, buf)
			s := string(buf)
			var msg string
			if p := mc.Catch(func() { msg = c07CheckString(s) }); p != "" {
				msg = p
			}
			l.Evals++
			switch {
			case !bareOK(s, true) && !bareOK(s, false):
				l.Nontrivial++
				l.Outcome("needs-quoting")
			case !bareOK(s, true):
				l.Nontrivial++
				l.Outcome("needs-quoting-as-value")
			default:
				l.Outcome("bare-ok")
			}
			if msg != "" {
				sig := "expressible"
				c.Fail(f, sig, []byte(s), msg)
			}
		}
		l.Flush()
	})
	if done < en.Total() {
		f.Capped(fmt.Sprintf("time cap: %d of %d", done, en.Total()))
	}
	f.Sample(`a\`)
	f.Sample(`-"O R`)
	f.Done()
}

// ---- (2) every text either parses or fails cleanly ----

var c07TextSymbols = append(append([]string{}, c07Symbols...), "[", "]", "k", "^") // "^": negated classes and anchors inside regexp values

func c07CheckClean(text string) string {
	check := func(kind string, err error) string {
		if err == nil {
			return ""
		}
		var se *parse.SyntaxError
		if !errors.As(err, &se) {
			return fmt.Sprintf("%s(%q) returned a %T, not a syntax error: %v", kind, text, err, err)
		}
		if se.Off < 0 || se.Off > len(text) {
			return fmt.Sprintf("%s(%q): error offset %d outside the text (len %d)", kind, text, se.Off, len(text))
		}
		if se.Query != text {
			return fmt.Sprintf("%s(%q): error quotes a different text %q", kind, text, se.Query)
		}
		_ = se.Error()
		return ""
	}
	f, err := NewFilter(text)
	if m := check("NewFilter", err); m != "" {
		return m
	}
	if err == nil {
		// A filter that parsed must be usable.
		f.Match(resWith("k", "v"))
	}
	var pp ProjectionParser
	all, _ := NewFilter("*")
	p, err := pp.Parse(text, all)
	if m := check("Parse", err); m != "" {
		return m
	}
	if err == nil {
		p.Project(resWith("k", "v"))
		all.Match(resWith("k", "v"))
		pp.Residue().Project(resWith("k", "v"))
	}
	return ""
}

func c07ReplayText(raw json.RawMessage) string {
	var b []byte
	if err := json.Unmarshal(raw, &b); err != nil {
		return err.Error()
	}
	var msg string
	if p := mc.Catch(func() { msg = c07CheckClean(string(b)) }); p != "" {
		return p
	}
	return msg
}

func c07Texts(c *mc.Check, maxLen int) {
	f := c.Family("arbitrary-texts", fmt.Sprintf("every text of ≤%d symbols from %q offered to NewFilter and to ProjectionParser.Parse: returns a usable object or a *SyntaxError whose offset lies inside the text; a panic or a case still running after 60 s is a violation; non-trivial = rejected texts", maxLen, c07TextSymbols), c07ReplayText)
	if c.Replaying() {
		return
	}
	f.Bounds["max_len"] = maxLen
	en := mc.NewStrings(c07TextSymbols, maxLen)
	wd := mc.NewWatchdog(60*time.Second, func(desc string) {
		c.Fail(f, "hang", []byte(desc), "parsing did not terminate within 60s")
		os.Exit(c.Finish())
	})
	defer wd.Stop()
	done := mc.ParRange(en.Total(), 2048, c.TimeUp, func(w int, lo, hi uint64) {
		l := f.Local()
		var sym []int
		var buf []byte
		var cur string
		wd.Enter(w, func() string { return cur })
		for i := lo; i < hi; i++ {
			sym, buf = en.Render(i, sym, buf)
			cur = string(buf)
			var msg string
			if p := mc.Catch(func() { msg = c07CheckClean(cur) }); p != "" {
				msg = p
			}
			l.Evals++
			var e1, e2 error
			mc.Catch(func() {
				_, e1 = parse.ParseFilter(cur)
				_, e2 = parse.ParseProjection(cur)
			})
			if e1 != nil || e2 != nil {
				l.Nontrivial++
			}
			l.Outcome(fmt.Sprintf("filter-ok=%v projection-ok=%v", e1 == nil, e2 == nil))
			if msg != "" {
				c.Fail(f, "clean-failure", []byte(cur), msg)
			}
		}
		wd.Leave(w)
		l.Flush()
	})
	if done < en.Total() {
		f.Capped(fmt.Sprintf("time cap: %d of %d", done, en.Total()))
	}
	f.Sample(`k:"a`)
	f.Sample(`k:/[/`)
	f.Done()
}

// ---- (3) reference recogniser: texts in the named classes are rejected ----

type rtok struct {
	kind byte // 'w' word, 'r' regexp, op char, 'A', 'O', 0 EOF
	text string
}

type rejectReason string

const (
	rNone      rejectReason = ""
	rParen     rejectReason = "unbalanced parentheses"
	rQuote     rejectReason = "unterminated quoted word"
	rRegexp    rejectReason = "unterminated regexp"
	rNoColon   rejectReason = "term lacks ':'"
	rNoValue   rejectReason = "term lacks a value"
	rEmptyList rejectReason = "empty fixed list"
	rOrder     rejectReason = "unknown sort order"
	rUnit      rejectReason = ".unit in a projection"
	rConfig    rejectReason = ".config in a filter"
	rOther     rejectReason = "other"
)

// rlex tokenises per the documented common syntax. allowRegexp says whether
// a '/' at the start of a token introduces a regexp (value position).
type rlexer struct {
	s   string
	pos int
}

func (l *rlexer) next(allowRegexp bool) (rtok, rejectReason) {
	for l.pos < len(l.s) {
		r, n := utf8.DecodeRuneInString(l.s[l.pos:])
		if unicode.IsSpace(r) {
			l.pos += n
			continue
		}
		break
	}
	if l.pos >= len(l.s) {
		return rtok{0, ""}, rNone
	}
	ch := l.s[l.pos]
	switch {
	case strings.IndexByte("():@,-*", ch) >= 0:
		l.pos++
		return rtok{ch, string(ch)}, rNone
	case ch == '"':
		// Go string literal
		i := l.pos + 1
		for i < len(l.s) {
			if l.s[i] == '\\' {
				i += 2
				continue
			}
			if l.s[i] == '"' {
				break
			}
			i++
		}
		if i >= len(l.s) {
			return rtok{}, rQuote
		}
		w, err := strconv.Unquote(l.s[l.pos : i+1])
		if err != nil {
			return rtok{}, rOther
		}
		l.pos = i + 1
		return rtok{'w', w}, rNone
	case ch == '/' && allowRegexp:
		// The harness only uses regexps without brackets, groups or escapes.
		i := strings.IndexByte(l.s[l.pos+1:], '/')
		if i < 0 {
			return rtok{}, rRegexp
		}
		l.pos += i + 2
		if l.pos < len(l.s) {
			r, _ := utf8.DecodeRuneInString(l.s[l.pos:])
			if !unicode.IsSpace(r) && strings.IndexRune("():@,-*", r) < 0 {
				return rtok{}, rOther
			}
		}
		return rtok{'r', ""}, rNone
	}
	i := l.pos
	for i < len(l.s) {
		r, n := utf8.DecodeRuneInString(l.s[i:])
		if unicode.IsSpace(r) || strings.ContainsRune("():@,", r) {
			break
		}
		i += n
	}
	w := l.s[l.pos:i]
	l.pos = i
	switch w {
	case "AND":
		return rtok{'A', w}, rNone
	case "OR":
		return rtok{'O', w}, rNone
	}
	return rtok{'w', w}, rNone
}

func (l *rlexer) peek(allowRegexp bool) (rtok, rejectReason) {
	save := l.pos
	t, r := l.next(allowRegexp)
	l.pos = save
	return t, r
}

// refFilter recognises the documented filter grammar.
func refFilter(s string) rejectReason {
	l := &rlexer{s: s}
	if r := refExpr(l, 0); r != rNone {
		return r
	}
	t, r := l.next(false)
	if r != rNone {
		return r
	}
	if t.kind == ')' {
		return rParen
	}
	if t.kind != 0 {
		return rOther
	}
	return rNone
}

func refExpr(l *rlexer, depth int) rejectReason {
	for {
		if r := refAnd(l, depth); r != rNone {
			return r
		}
		t, r := l.peek(false)
		if r != rNone {
			return r
		}
		if t.kind != 'O' {
			return rNone
		}
		l.next(false)
	}
}

func refAnd(l *rlexer, depth int) rejectReason {
	if r := refMatch(l, depth); r != rNone {
		return r
	}
	for {
		t, r := l.peek(false)
		if r != rNone {
			return r
		}
		switch t.kind {
		case 'A':
			l.next(false)
			if r := refMatch(l, depth); r != rNone {
				return r
			}
		case '(', '-', '*', 'w':
			if r := refMatch(l, depth); r != rNone {
				return r
			}
		case ')':
			if depth == 0 {
				return rParen
			}
			return rNone
		case 'O', 0:
			return rNone
		default:
			return rOther
		}
	}
}

func refMatch(l *rlexer, depth int) rejectReason {
	t, r := l.next(false)
	if r != rNone {
		return r
	}
	switch t.kind {
	case '(':
		if r := refExpr(l, depth+1); r != rNone {
			return r
		}
		t, r := l.next(false)
		if r != rNone {
			return r
		}
		if t.kind != ')' {
			return rParen
		}
		return rNone
	case '-':
		return refMatch(l, depth)
	case '*':
		return rNone
	case 'w':
		key := t.text
		t, r := l.next(false)
		if r != rNone {
			return r
		}
		if t.kind != ':' {
			return rNoColon
		}
		v, r := l.next(true)
		if r != rNone {
			return r
		}
		switch v.kind {
		case 'w', 'r':
		case '(':
			for {
				v, r := l.next(true)
				if r != rNone {
					return r
				}
				if v.kind != 'w' && v.kind != 'r' {
					if v.kind == 0 {
						return rParen
					}
					return rNoValue
				}
				v, r = l.next(true)
				if r != rNone {
					return r
				}
				if v.kind == ')' {
					break
				}
				if v.kind == 0 {
					return rParen
				}
				if v.kind != 'O' {
					return rOther
				}
			}
		default:
			return rNoValue
		}
		if key == ".config" {
			return rConfig
		}
		if key == "" {
			return rOther
		}
		return rNone
	case ')':
		if depth == 0 {
			return rParen
		}
		return rOther
	case 0:
		return rOther
	}
	return rOther
}

// refProjection recognises the documented projection grammar.
func refProjection(s string) rejectReason {
	l := &rlexer{s: s}
	n := 0
	for {
		t, r := l.peek(false)
		if r != rNone {
			return r
		}
		if t.kind == 0 {
			return rNone
		}
		if t.kind == ',' && n > 0 {
			l.next(false)
		}
		k, r := l.next(false)
		if r != rNone {
			return r
		}
		if k.kind == ')' || k.kind == '(' {
			return rParen
		}
		if k.kind != 'w' {
			return rOther
		}
		n++
		order := "first"
		fixed := false
		t, r = l.peek(false)
		if r != rNone {
			return r
		}
		if t.kind == '@' {
			l.next(false)
			o, r := l.next(false)
			if r != rNone {
				return r
			}
			switch o.kind {
			case 'w':
				order = o.text
			case '(':
				fixed = true
				cnt := 0
				for {
					w, r := l.next(false)
					if r != rNone {
						return r
					}
					if w.kind == 'w' {
						cnt++
						continue
					}
					if w.kind == ')' {
						if cnt == 0 {
							return rEmptyList
						}
						break
					}
					return rParen
				}
			default:
				return rOther
			}
		}
		if !fixed && order != "first" && order != "alpha" && order != "num" {
			return rOrder
		}
		switch k.text {
		case ".unit":
			return rUnit
		case "":
			return rOther
		case ".config":
			if fixed {
				return rOther
			}
		}
	}
}

var c07FilterPieces = []string{"(", ")", "-", "*", "k:v", "k:", "k", ":v", "AND", "OR", `"un`, `"q"`, "k:/re/", "k:/un", "k:(", ".config:x", ".unit:x", "v"}
var c07ProjPieces = []string{"k", "k@alpha", "k@bogus", "k@(", "k@()", "a", ")", "(", ",", `"un`, ".unit", ".config", "@", ".fullname@num", ".config@(a)", "@num"}

type c07GramCase struct {
	Kind string
	Text string
}

func named(r rejectReason) bool {
	return r != rNone && r != rOther
}

func c07CheckGrammar(kind, text string) (msg string, refR rejectReason, implOK bool) {
	if kind == "filter" {
		refR = refFilter(text)
		_, err := NewFilter(text)
		implOK = err == nil
	} else {
		refR = refProjection(text)
		var pp ProjectionParser
		all, _ := NewFilter("*")
		_, err := pp.Parse(text, all)
		implOK = err == nil
	}
	if named(refR) && implOK {
		return fmt.Sprintf("%s text %q is accepted although it has: %s", kind, text, refR), refR, implOK
	}
	return "", refR, implOK
}

func c07ReplayGrammar(raw json.RawMessage) string {
	var cs c07GramCase
	if err := json.Unmarshal(raw, &cs); err != nil {
		return err.Error()
	}
	var msg string
	if p := mc.Catch(func() { msg, _, _ = c07CheckGrammar(cs.Kind, cs.Text) }); p != "" {
		return p
	}
	return msg
}

func c07Grammar(c *mc.Check, maxLen int) {
	f := c.Family("must-reject", fmt.Sprintf("every sequence of ≤%d pieces (joined by blanks) from %q as a filter and from %q as a projection, classified by a reference recogniser written from the documented grammar: texts with unbalanced parentheses, an unterminated quoted word or regexp, a term lacking ':' or a value, an empty fixed list, an unknown sort order, .unit in a projection or .config in a filter must be rejected; non-trivial = texts in one of those classes", maxLen, c07FilterPieces, c07ProjPieces), c07ReplayGrammar)
	if c.Replaying() {
		return
	}
	f.Bounds["max_pieces"] = maxLen
	for _, kind := range []string{"filter", "projection"} {
		pieces := c07FilterPieces
		if kind == "projection" {
			pieces = c07ProjPieces
		}
		en := mc.NewStrings(pieces, maxLen)
		kind := kind
		mc.ParRange(en.Total(), 1024, c.TimeUp, func(w int, lo, hi uint64) {
			l := f.Local()
			var sym []int
			for i := lo; i < hi; i++ {
				sym = en.Symbols(i, sym)
				parts := make([]string, len(sym))
				for j, k := range sym {
					parts[j] = pieces[k]
				}
				text := strings.Join(parts, " ")
				var msg string
				var rr rejectReason
				var ok bool
				if p := mc.Catch(func() { msg, rr, ok = c07CheckGrammar(kind, text) }); p != "" {
					msg = p
				}
				l.Evals++
				if named(rr) {
					l.Nontrivial++
				}
				switch {
				case rr == rNone && ok:
					l.Outcome(kind + ":both-accept")
				case rr == rNone && !ok:
					l.Outcome(kind + ":reference-accepts-impl-rejects(silent)")
				case named(rr):
					l.Outcome(kind + ":must-reject:" + string(rr))
				default:
					l.Outcome(fmt.Sprintf("%s:other-reject impl-ok=%v", kind, ok))
				}
				if msg != "" {
					c.Fail(f, "must-reject", c07GramCase{kind, text}, msg)
				}
			}
			l.Flush()
		})
	}
	f.Sample(c07GramCase{"filter", `( k:v OR k:`})
	f.Sample(c07GramCase{"projection", `k@() , a`})
	f.Done()
}

func TestVerifC07(t *testing.T) {
	c := mc.NewCheck("C07")
	c.Assume("strconv.Quote produces the double-quoted Go literal of a string")
	c.Assume("reference recogniser written from benchproc/syntax/doc.go; only rejections in the classes the property names are asserted")
	c07Strings(c, mc.Pick(c, 5, 6))
	c07Texts(c, mc.Pick(c, 5, 6))
	c07Grammar(c, mc.Pick(c, 5, 6))
	c07Histories(c, mc.Pick(c, 3, 4))
	if code := c.Finish(); code != 0 {
		os.Exit(code)
	}
}
