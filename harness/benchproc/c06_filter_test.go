//go:build verif

package benchproc

import (
	"encoding/json"
	"fmt"
	"os"
	"strings"
	"testing"

	"golang.org/x/perf/benchfmt"
	mc "golang.org/x/perf/internal/verifmc"
)

// ---- C06: filters keep exactly the measurements their boolean meaning denotes ----

// fnode is a filter AST of the reference evaluator.
type fnode struct {
	op   byte // 'L' leaf, '!' not, '&' and, '|' or
	leaf int
	kids []*fnode
}

type c06Leaf struct {
	text string
	eval func(i int) bool // measurement i of the standard result
}

// The standard result is "X/k=1-4" with measurement i in unit
// c06Unit(i): unit 2 (mod 5) is written as ns/op and reported as sec/op,
// unit 4 (mod 5) is written directly as sec/op, so one base unit occurs
// under two spellings inside one result (and across results seen by one
// Filter value).
func c06Unit(i int) (unit, orig string) {
	switch i % 5 {
	case 0:
		return "ua", ""
	case 1:
		return "ub", ""
	case 2:
		return "sec/op", "ns/op"
	case 3:
		return "uc", ""
	}
	return "sec/op", ""
}

var c06Leaves = []c06Leaf{
	{`.name:X`, func(i int) bool { return true }},
	{`.name:Y`, func(i int) bool { return false }},
	{`.unit:ua`, func(i int) bool { return i%5 == 0 }},
	{`.unit:/^(ub|sec.op)$/`, func(i int) bool { return i%5 == 1 || i%5 == 2 || i%5 == 4 }},
	{`*`, func(i int) bool { return true }},
	{`.unit:(uc OR "ns/op")`, func(i int) bool { return i%5 == 3 || i%5 == 2 }},
	{`/k:(7 OR 1)`, func(i int) bool { return true }},
	{`/gomaxprocs:/^[0-3]$/`, func(i int) bool { return false }},
}

func (n *fnode) eval(i int) bool {
	switch n.op {
	case 'L':
		return c06Leaves[n.leaf].eval(i)
	case '!':
		return !n.kids[0].eval(i)
	case '&':
		for _, k := range n.kids {
			if !k.eval(i) {
				return false
			}
		}
		return true
	}
	for _, k := range n.kids {
		if k.eval(i) {
			return true
		}
	}
	return false
}

// render writes the AST in one of four concrete syntaxes:
// 0 juxtaposition for AND, every composite child parenthesised;
// 1 explicit AND;
// 2 every node wrapped in extra parentheses;
// 3 minimal parentheses relying on precedence (AND binds tighter than OR).
func (n *fnode) render(style int, b *strings.Builder, parent byte) {
	switch n.op {
	case 'L':
		if style == 2 {
			b.WriteString("(" + c06Leaves[n.leaf].text + ")")
		} else {
			b.WriteString(c06Leaves[n.leaf].text)
		}
	case '!':
		b.WriteString("-")
		n.kids[0].render(style, b, '!')
	default:
		paren := true
		if style == 3 {
			// top level needs none; an AND inside an OR needs none.
			paren = !(parent == 0 || (parent == '|' && n.op == '&'))
		}
		if paren {
			b.WriteString("(")
		}
		if style == 2 {
			b.WriteString("(")
		}
		for i, k := range n.kids {
			if i > 0 {
				switch {
				case n.op == '|':
					b.WriteString(" OR ")
				case style == 0 || style == 3:
					b.WriteString(" ")
				default:
					b.WriteString(" AND ")
				}
			}
			k.render(style, b, n.op)
		}
		if style == 2 {
			b.WriteString(")")
		}
		if paren {
			b.WriteString(")")
		}
	}
}

func (n *fnode) text(style int) string {
	var b strings.Builder
	n.render(style, &b, 0)
	return b.String()
}

// treesOfSize enumerates all ASTs with exactly n nodes.
func treesOfSize(n int, memo map[int][]*fnode) []*fnode {
	if t, ok := memo[n]; ok {
		return t
	}
	var out []*fnode
	if n == 1 {
		for i := range c06Leaves {
			out = append(out, &fnode{op: 'L', leaf: i})
		}
		memo[n] = out
		return out
	}
	for _, k := range treesOfSize(n-1, memo) {
		out = append(out, &fnode{op: '!', kids: []*fnode{k}})
	}
	for a := 1; a <= n-2; a++ {
		b := n - 1 - a
		if b < 1 {
			continue
		}
		for _, ka := range treesOfSize(a, memo) {
			for _, kb := range treesOfSize(b, memo) {
				out = append(out, &fnode{op: '&', kids: []*fnode{ka, kb}}, &fnode{op: '|', kids: []*fnode{ka, kb}})
			}
		}
	}
	for a := 1; a <= n-3; a++ {
		for b := 1; a+b <= n-2; b++ {
			cc := n - 1 - a - b
			if cc < 1 {
				continue
			}
			for _, ka := range treesOfSize(a, memo) {
				for _, kb := range treesOfSize(b, memo) {
					for _, kc := range treesOfSize(cc, memo) {
						out = append(out, &fnode{op: '&', kids: []*fnode{ka, kb, kc}}, &fnode{op: '|', kids: []*fnode{ka, kb, kc}})
					}
				}
			}
		}
	}
	memo[n] = out
	return out
}

var c06Sizes = []int{1, 2, 31, 32, 33, 64, 65}

func c06Result(n int) *benchfmt.Result {
	r := &benchfmt.Result{Name: benchfmt.Name("X/k=1-4"), Iters: 1}
	for i := 0; i < n; i++ {
		u, o := c06Unit(i)
		v := benchfmt.Value{Value: float64(i + 1), Unit: u}
		if o != "" {
			v.OrigUnit, v.OrigValue = o, float64(i+1)*1e9
		}
		r.Values = append(r.Values, v)
	}
	return r
}

func descRes(r *benchfmt.Result) string {
	var b strings.Builder
	fmt.Fprintf(&b, "%s %d", r.Name, r.Iters)
	for _, v := range r.Values {
		fmt.Fprintf(&b, " %v %s %v %s", v.Value, v.Unit, v.OrigValue, v.OrigUnit)
	}
	for _, c := range r.Config {
		fmt.Fprintf(&b, " %s=%s/%v", c.Key, c.Value, c.File)
	}
	return b.String()
}

// c06CheckText compiles text with the real parser and compares it with
// want(i) on results of every size.
func c06CheckText(text string, want func(i int) bool, results []*benchfmt.Result) string {
	f, err := NewFilter(text)
	if err != nil {
		return fmt.Sprintf("valid filter %q rejected: %v", text, err)
	}
	for _, res := range results {
		n := len(res.Values)
		before := descRes(res)
		m, _ := f.Match(res)
		if after := descRes(res); after != before {
			return fmt.Sprintf("%q: Match modified the result", text)
		}
		all, anyM := true, false
		for i := 0; i < n; i++ {
			w := want(i)
			if m.Test(i) != w {
				return fmt.Sprintf("%q on %d measurements: Test(%d)=%v want %v", text, n, i, m.Test(i), w)
			}
			all = all && w
			anyM = anyM || w
		}
		if m.Test(-1) || m.Test(n) {
			return fmt.Sprintf("%q on %d measurements: Test out of range is true", text, n)
		}
		if m.All() != all {
			return fmt.Sprintf("%q on %d measurements: All()=%v want %v", text, n, m.All(), all)
		}
		if m.Any() != anyM {
			return fmt.Sprintf("%q on %d measurements: Any()=%v want %v", text, n, m.Any(), anyM)
		}
		// Apply on a clone keeps exactly the matching measurements in order.
		cl := res.Clone()
		ok, _ := f.Apply(cl)
		if ok != anyM {
			return fmt.Sprintf("%q on %d measurements: Apply reports %v want %v", text, n, ok, anyM)
		}
		j := 0
		for i := 0; i < n; i++ {
			if !want(i) {
				continue
			}
			if j >= len(cl.Values) || cl.Values[j] != res.Values[i] {
				return fmt.Sprintf("%q on %d measurements: Apply kept %v, measurement %d expected at position %d", text, n, cl.Values, i, j)
			}
			j++
		}
		if j != len(cl.Values) {
			return fmt.Sprintf("%q on %d measurements: Apply kept %d measurements want %d", text, n, len(cl.Values), j)
		}
	}
	return ""
}

type c06Case struct {
	Text string
	Want []bool // per measurement index mod 5
	List string // optional fixed-list projection parsed with the filter
	// Rejected: a projection text that Parse must reject, offered with the same Filter BEFORE List (if any);
	// a rejected projection leaves the filter as it was
	Rejected string `json:",omitempty"`
	In       bool   `json:",omitempty"` // whether the standard result's values are in every list of List
}

func c06Replay(raw json.RawMessage) string {
	var cs c06Case
	if err := json.Unmarshal(raw, &cs); err != nil {
		return err.Error()
	}
	var results []*benchfmt.Result
	for _, n := range c06Sizes {
		results = append(results, c06Result(n))
	}
	var msg string
	p := mc.Catch(func() {
		if cs.List != "" || cs.Rejected != "" {
			msg = c06CheckProj(cs.Text, cs.Rejected, cs.List, cs.In, func(i int) bool { return cs.Want[i%5] }, results)
		} else {
			msg = c06CheckText(cs.Text, func(i int) bool { return cs.Want[i%5] }, results)
		}
	})
	if p != "" {
		return p
	}
	return msg
}

func wantVec(n *fnode) []bool {
	return []bool{n.eval(0), n.eval(1), n.eval(2), n.eval(3), n.eval(4)}
}

func c06Trees(c *mc.Check, maxNodes int) {
	f := c.Family("filter-asts", fmt.Sprintf("every filter AST with ≤%d nodes over %d leaves (whole-result true/false, literal / regexp / value-list .unit masks incl. a rescaled unit by either spelling, '*', key value-list, regexp on /gomaxprocs) and NOT, AND/OR of arity 2–3, rendered in 4 concrete syntaxes, compiled by the real NewFilter and evaluated on results with %v measurements: Test(i) for every i, All, Any, Match leaves the result untouched, Apply keeps exactly the matching measurements in order; non-trivial = the AST mixes per-measurement and whole-result operands or matches a strict subset", maxNodes, len(c06Leaves), c06Sizes), c06Replay)
	if c.Replaying() {
		return
	}
	f.Bounds["max_nodes"] = maxNodes
	memo := map[int][]*fnode{}
	var all []*fnode
	for n := 1; n <= maxNodes; n++ {
		all = append(all, treesOfSize(n, memo)...)
	}
	f.Bounds["asts"] = len(all)
	done := mc.ParRange(uint64(len(all)), 256, c.TimeUp, func(w int, lo, hi uint64) {
		var results []*benchfmt.Result
		for _, n := range c06Sizes {
			results = append(results, c06Result(n))
		}
		l := f.Local()
		for i := lo; i < hi; i++ {
			t := all[i]
			wv := wantVec(t)
			nTrue := 0
			for _, b := range wv {
				if b {
					nTrue++
				}
			}
			l.Outcome(fmt.Sprintf("matches-%d-of-5-classes", nTrue))
			if nTrue > 0 && nTrue < 5 {
				l.Nontrivial++
			}
			for style := 0; style < 4; style++ {
				text := t.text(style)
				var msg string
				if p := mc.Catch(func() { msg = c06CheckText(text, t.eval, results) }); p != "" {
					msg = p
				}
				l.Evals++
				if msg != "" {
					c.Fail(f, "filter-ast", c06Case{Text: text, Want: wv}, msg)
				}
			}
		}
		l.Flush()
	})
	if done < uint64(len(all)) {
		f.Capped(fmt.Sprintf("time cap: %d of %d ASTs", done, len(all)))
	}
	f.Sample(c06Case{Text: all[len(all)/2].text(0), Want: wantVec(all[len(all)/2])})
	f.Sample(c06Case{Text: all[len(all)-1].text(3), Want: wantVec(all[len(all)-1])})
	f.Done()
}

// c06CheckList parses a fixed-list projection together with the user filter:
// a result is then kept iff its value is in the list and the filter matches.
// c06CheckProj compiles the filter, offers it a projection that must be rejected (optional) and then one with
// fixed value lists (optional): afterwards measurement i is kept iff the result is in every list of the accepted
// projection and the filter expression holds.
func c06CheckProj(text, rejected, proj string, in bool, want func(i int) bool, results []*benchfmt.Result) string {
	f, err := NewFilter(text)
	if err != nil {
		return fmt.Sprintf("valid filter %q rejected: %v", text, err)
	}
	var pp ProjectionParser
	if rejected != "" {
		if _, err := pp.Parse(rejected, f); err == nil {
			return fmt.Sprintf("projection %q is accepted", rejected)
		}
	}
	if proj != "" {
		if _, err := pp.Parse(proj, f); err != nil {
			return fmt.Sprintf("projection %q rejected: %v", proj, err)
		}
	}
	for _, res := range results {
		m, _ := f.Match(res)
		for i := range res.Values {
			w := (proj == "" || in) && want(i)
			if m.Test(i) != w {
				return fmt.Sprintf("filter %q after the rejected projection %q and with projection %q on %d measurements: Test(%d)=%v want %v", text, rejected, proj, len(res.Values), i, m.Test(i), w)
			}
		}
	}
	if proj == "" {
		return ""
	}
	// A parser and a filter are separate objects: (a) ONE parser that has already attached a value list to another
	// filter (one that matches nothing, one that matches everything) gives this filter its own expression and the
	// list, no more; (b) ONE filter given lists by two parsers in turn keeps every list it was given.
	for _, other := range []string{"-*", "*"} {
		var pp2 ProjectionParser
		fo, _ := NewFilter(other)
		if _, err := pp2.Parse(proj, fo); err != nil {
			return fmt.Sprintf("projection %q rejected on filter %q: %v", proj, other, err)
		}
		f2, _ := NewFilter(text)
		if _, err := pp2.Parse(proj, f2); err != nil {
			return fmt.Sprintf("projection %q rejected on the parser's second filter: %v", proj, err)
		}
		var pa, pb ProjectionParser
		f3, _ := NewFilter(text)
		pa.Parse(proj, f3)
		pb.Parse(`/k@(1 2 7 8 "")`, f3) // a list that holds the standard result's value: no further restriction
		pb.Parse(`.name@(NoSuchName)`, f3)
		pa.Parse(proj, f3)
		for _, res := range results {
			m2, _ := f2.Match(res)
			mo, _ := fo.Match(res)
			m3, _ := f3.Match(res)
			for i := range res.Values {
				if w := in && want(i); m2.Test(i) != w {
					return fmt.Sprintf("filter %q given projection %q by a parser that had served filter %q before: Test(%d)=%v want %v", text, proj, other, i, m2.Test(i), w)
				}
				if w := in && other == "*"; mo.Test(i) != w {
					return fmt.Sprintf("filter %q with projection %q, after its parser served another filter: Test(%d)=%v want %v", other, proj, i, mo.Test(i), w)
				}
				if m3.Test(i) {
					return fmt.Sprintf("filter %q given %q by one parser, .name@(NoSuchName) by another, and %q again by the first: Test(%d)=true although no result is named NoSuchName", text, proj, proj, i)
				}
			}
		}
	}
	return ""
}

func c06Lists(c *mc.Check, maxNodes int) {
	projs := []string{`/k@(1)`, `/k@(7 1)`, `/k@(7)`, `/k@(7 8 "")`, `.name,/k@(2 1 3)`, `/k@(1),/gomaxprocs@(4)`, `/k@(1),/gomaxprocs@(3)`}
	rejects := []string{`/k@(7),b@bogus`, `/k@(7),.unit`, `.name@(Y),.config@(a)`, `/k@(7 8),""`, `/gomaxprocs@(3),/k@(`}
	f := c.Family("fixed-list-projections", fmt.Sprintf("every filter AST with ≤%d nodes × %d projections with fixed value lists parsed onto the filter, alone and after each of %d projection texts that must be REJECTED although they begin with a valid fixed-list field: a measurement is kept iff the result's value is in every list of the ACCEPTED projection and the filter matches it (a failed Parse leaves the Filter unchanged); non-trivial = list excludes the result or filter is not constant", maxNodes, len(projs), len(rejects)), c06Replay)
	if c.Replaying() {
		return
	}
	memo := map[int][]*fnode{}
	var all []*fnode
	for n := 1; n <= maxNodes; n++ {
		all = append(all, treesOfSize(n, memo)...)
	}
	f.Bounds["asts"] = len(all)
	mc.ParRange(uint64(len(all)), 128, c.TimeUp, func(w int, lo, hi uint64) {
		var results []*benchfmt.Result
		for _, n := range []int{1, 33, 65} {
			results = append(results, c06Result(n))
		}
		l := f.Local()
		for i := lo; i < hi; i++ {
			t := all[i]
			text := t.text(0)
			for pi, proj := range projs {
				in := pi != 2 && pi != 3 && pi != 6
				// every accepted projection alone, and after each projection text that must be rejected although
				// it starts with a valid fixed-list field (the filter must come out of the failed Parse unchanged)
				for ri := -1; ri < len(rejects); ri++ {
					rej := ""
					if ri >= 0 {
						if pi > 1 {
							continue
						}
						rej = rejects[ri]
					}
					var msg string
					if p := mc.Catch(func() { msg = c06CheckProj(text, rej, proj, in, t.eval, results) }); p != "" {
						msg = p
					}
					l.Evals++
					l.Nontrivial++
					l.Outcome(fmt.Sprintf("in-list=%v after-rejected=%v", in, rej != ""))
					if msg != "" {
						c.Fail(f, "fixed-list", c06Case{Text: text, Want: wantVec(t), List: proj, Rejected: rej, In: in}, msg)
					}
				}
			}
			// a rejected projection and nothing else: the filter means what it meant
			for _, rej := range rejects {
				var msg string
				if p := mc.Catch(func() { msg = c06CheckProj(text, rej, "", true, t.eval, results) }); p != "" {
					msg = p
				}
				l.Evals++
				l.Nontrivial++
				l.Outcome("rejected-only")
				if msg != "" {
					c.Fail(f, "fixed-list", c06Case{Text: text, Want: wantVec(t), Rejected: rej}, msg)
				}
			}
		}
		l.Flush()
	})
	f.Sample(c06Case{Text: all[40].text(0), Want: wantVec(all[40]), List: projs[1], In: true})
	f.Done()
}

func TestVerifC06(t *testing.T) {
	c := mc.NewCheck("C06")
	c.Assume("reference boolean evaluator in the harness; key extraction is checked by C05, unit spelling by C04")
	c06Trees(c, mc.Pick(c, 6, 7))
	c06Lists(c, mc.Pick(c, 4, 5))
	c06Streams(c, mc.Pick(c, 4, 5))
	c06Words(c, mc.Pick(c, 4, 5))
	if code := c.Finish(); code != 0 {
		os.Exit(code)
	}
}
