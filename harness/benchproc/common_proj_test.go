//go:build verif

package benchproc

import (
	"fmt"
	"reflect"
	"sort"
	"strings"

	"golang.org/x/perf/benchfmt"
	mc "golang.org/x/perf/internal/verifmc"
	ref "golang.org/x/perf/internal/verifref"
)

// presult is a result of the projection alphabets, described as data.
type presult struct {
	Name  string
	Cfg   [][3]string // key, value, "f"|"i"
	Units []string
}

func (p presult) build() *benchfmt.Result {
	r := &benchfmt.Result{Name: benchfmt.Name(p.Name), Iters: 1}
	for _, c := range p.Cfg {
		r.Config = append(r.Config, benchfmt.Config{Key: c[0], Value: []byte(c[1]), File: c[2] == "f"})
	}
	for i, u := range p.Units {
		r.Values = append(r.Values, benchfmt.Value{Value: float64(i + 1), Unit: u})
	}
	return r
}

func (p presult) cfg(key string) string {
	for _, c := range p.Cfg {
		if c[0] == key {
			return c[1]
		}
	}
	return ""
}

func (p presult) fileConfig() string {
	var kv []string
	for _, c := range p.Cfg {
		if c[2] == "f" {
			kv = append(kv, c[0]+"\x01"+c[1])
		}
	}
	sort.Strings(kv)
	return strings.Join(kv, "\x02")
}

// exprKey strips an order suffix: "k@alpha" -> "k".
func exprKey(expr string) string {
	if i := strings.IndexByte(expr, '@'); i >= 0 {
		return expr[:i]
	}
	return expr
}

// specifics collects, for a set of projection expressions parsed by one
// parser, the specific file keys and the specific name keys.
func specifics(exprs []string) (cfgKeys map[string]bool, nameKeys []string) {
	cfgKeys = map[string]bool{}
	for _, e := range exprs {
		for _, part := range strings.Split(e, ",") {
			k := exprKey(part)
			switch {
			case k == ".config" || k == ".fullname":
			case k == ".name" || strings.HasPrefix(k, "/"):
				nameKeys = append(nameKeys, k)
			default:
				cfgKeys[k] = true
			}
		}
	}
	return
}

// refTuple is the reference value of one projection expression (possibly a
// comma-separated list of fields) on a result, given all expressions parsed
// by the same parser. Missing values are empty and empty trailing or inner
// values are indistinguishable from missing ones.
func refTuple(expr string, all []string, p presult) string {
	cfgKeys, nameKeys := specifics(all)
	var out []string
	for _, part := range strings.Split(expr, ",") {
		k := exprKey(part)
		switch {
		case k == ".config":
			var kv []string
			for _, c := range p.Cfg {
				if c[2] == "f" && !cfgKeys[c[0]] {
					kv = append(kv, c[0]+"="+c[1])
				}
			}
			sort.Strings(kv)
			out = append(out, "{"+strings.Join(kv, ";")+"}")
		case k == ".fullname":
			out = append(out, ref.NameWithout(p.Name, nameKeys))
		case k == ".name" || strings.HasPrefix(k, "/"):
			out = append(out, ref.NameKey(p.Name, k))
		default:
			out = append(out, p.cfg(k))
		}
	}
	return strings.Join(out, "\x00")
}

// refResidue is the reference value of the residue projection.
func refResidue(all []string, p presult) string {
	haveCfg, haveFull := false, false
	for _, e := range all {
		for _, part := range strings.Split(e, ",") {
			switch exprKey(part) {
			case ".config":
				haveCfg = true
			case ".fullname":
				haveFull = true
			}
		}
	}
	var parts []string
	if !haveCfg {
		parts = append(parts, refTuple(".config", all, p))
	}
	if !haveFull {
		parts = append(parts, refTuple(".fullname", all, p))
	}
	return strings.Join(parts, "\x00")
}

// keyFields checks Key.Get on every flattened field against the extracted
// values and returns a message on mismatch.
func keyFields(proj *Projection, key Key, expr string, all []string, p presult) string {
	cfgKeys, nameKeys := specifics(all)
	// completeness of the flattened view: every named field, and every file key this result configures (specific
	// keys excluded) under a group, is among the flattened fields — and a key with a non-empty value prints it
	flat := map[string]bool{}
	for _, f := range proj.FlattenedFields() {
		flat[f.Name] = true
	}
	nonEmpty := false
	for _, top := range proj.Fields() {
		if !top.IsTuple {
			if !flat[top.Name] {
				return fmt.Sprintf("projection %q: field %q is missing from FlattenedFields", expr, top.Name)
			}
			continue
		}
		for _, c := range p.Cfg {
			if c[2] == "f" && !cfgKeys[c[0]] && c[1] != "" {
				nonEmpty = true
				if !flat[c[0]] {
					return fmt.Sprintf("projection %q after projecting %v: the file key %q of this result is missing from FlattenedFields (%d flattened fields)", expr, p, c[0], len(flat))
				}
			}
		}
	}
	if nonEmpty && key.String() == "" {
		return fmt.Sprintf("projection %q on %v: Key.String() is empty although the key has non-empty values", expr, p)
	}
	for _, f := range proj.FlattenedFields() {
		var want string
		switch {
		case f.Name == ".fullname":
			want = ref.NameWithout(p.Name, nameKeys)
		case f.Name == ".name" || strings.HasPrefix(f.Name, "/"):
			want = ref.NameKey(p.Name, f.Name)
		case f.Name == ".unit":
			continue
		default:
			want = p.cfg(f.Name)
			if inGroup(proj, f) {
				// sub-field of .config: file keys only, specific keys excluded
				if cfgKeys[f.Name] {
					return fmt.Sprintf("projection %q: group .config contains the specific key %q", expr, f.Name)
				}
				want = ""
				for _, c := range p.Cfg {
					if c[0] == f.Name && c[2] == "f" {
						want = c[1]
					}
				}
			}
		}
		if got := key.Get(f); got != want {
			return fmt.Sprintf("projection %q on %v: Get(%s) = %q want %q", expr, p, f.Name, got, want)
		}
	}
	return ""
}

func inGroup(proj *Projection, f *Field) bool {
	for _, top := range proj.Fields() {
		if top.IsTuple {
			for _, s := range top.Sub {
				if s == f {
					return true
				}
			}
		}
	}
	return false
}

// projCanon is the canonicaliser for parser/projection heaps. Omitted:
// Projection.interns (string interning changes identity, never value).
// Closures are dumped by nil-ness only: the state they capture (the
// name→field table of a .config group, fixed-order tables) duplicates state
// that is visible in the dumped structures.
func projCanon() *mc.Canon {
	return &mc.Canon{
		SkipFields: map[string]bool{"Projection.interns": true},
		SkipTypes:  map[reflect.Type]bool{},
	}
}
