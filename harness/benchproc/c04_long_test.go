//go:build verif

package benchproc

import (
	"encoding/json"
	"fmt"
	"strings"

	"golang.org/x/perf/benchfmt"
	mc "golang.org/x/perf/internal/verifmc"
	ref "golang.org/x/perf/internal/verifref"
)

// ---- C04: long inputs whose units change somewhere ----
//
// An input longer than the reader's buffer is read in several refills, so what a
// column's unit was on the previous line may live in bytes that have since
// been overwritten. The unit of one column changes at EVERY line position in
// turn, to a unit of the same length and to one of another length.

type c04LongCase struct {
	Lines int
	At    int
	From  string
	To    string
}

func c04LongCheck(cs c04LongCase) string {
	var b strings.Builder
	for i := 0; i < cs.Lines; i++ {
		u := cs.From
		if i >= cs.At {
			u = cs.To
		}
		fmt.Fprintf(&b, "BenchmarkEncode 1000 %d %s 7 allocs/op\n", 100+i, u)
	}
	rd := benchfmt.NewReader(strings.NewReader(b.String()), "long")
	i := 0
	for rd.Scan() {
		res, ok := rd.Result().(*benchfmt.Result)
		if !ok {
			return fmt.Sprintf("line %d: %v", i+1, rd.Result())
		}
		u := cs.From
		if i >= cs.At {
			u = cs.To
		}
		base, factors, _ := ref.BaseUnit(u)
		want := float64(100 + i)
		for _, f := range factors {
			want *= f
		}
		v := res.Values[0]
		if v.Unit != base || !(v.Value >= want*(1-1e-12) && v.Value <= want*(1+1e-12)) {
			return fmt.Sprintf("line %d of %d (unit changes from %q to %q at line %d): %d %s read as %v %s (written pair %v %q), base unit is %s", i+1, cs.Lines, cs.From, cs.To, cs.At+1, 100+i, u, v.Value, v.Unit, v.OrigValue, v.OrigUnit, base)
		}
		if base != u && (v.OrigUnit != u || v.OrigValue != float64(100+i)) {
			return fmt.Sprintf("line %d: %d %s: written pair reported as (%v, %q)", i+1, 100+i, u, v.OrigValue, v.OrigUnit)
		}
		if base == u && v.OrigUnit != "" {
			return fmt.Sprintf("line %d: %d %s has nothing to normalise but a written pair (%v, %q)", i+1, 100+i, u, v.OrigValue, v.OrigUnit)
		}
		i++
	}
	if i != cs.Lines {
		return fmt.Sprintf("%d of %d lines read", i, cs.Lines)
	}
	return ""
}

func c04Long(c *mc.Check) {
	replay := func(raw json.RawMessage) string {
		var cs c04LongCase
		if err := json.Unmarshal(raw, &cs); err != nil {
			return err.Error()
		}
		var msg string
		if p := mc.Catch(func() { msg = c04LongCheck(cs) }); p != "" {
			return p
		}
		return msg
	}
	lines := mc.Pick(c, 320, 700)
	pairs := [][2]string{{"MB/s", "B/op"}, {"B/op", "MB/s"}, {"ns/op", "B/op"}, {"B/op", "ns/op"}, {"ns/op", "MB/s"}, {"xs/op", "ns/op"}}
	f := c.Family("unit-change-positions", fmt.Sprintf("inputs of %d benchmark lines (three to six refills of the reader's 4 KiB buffer) in which the unit of the first measurement changes at EVERY line position in turn, for the unit pairs %v (equal and different lengths, to and from units that need rescaling): every measurement of every line is reported in its base unit with the right value and written pair; non-trivial = every input", lines, pairs), replay)
	if c.Replaying() {
		return
	}
	var cases []c04LongCase
	for _, p := range pairs {
		for at := 1; at < lines; at++ {
			cases = append(cases, c04LongCase{lines, at, p[0], p[1]})
		}
	}
	done := mc.ParRange(uint64(len(cases)), 16, c.TimeUp, func(w int, lo, hi uint64) {
		l := f.Local()
		for i := lo; i < hi; i++ {
			var msg string
			if p := mc.Catch(func() { msg = c04LongCheck(cases[i]) }); p != "" {
				msg = p
			}
			l.Evals++
			l.Nontrivial++
			l.Outcome(fmt.Sprintf("ok=%v", msg == ""))
			if msg != "" {
				c.Fail(f, "unit-norm", cases[i], msg)
			}
		}
		l.Flush()
	})
	if done < uint64(len(cases)) {
		f.Capped(fmt.Sprintf("time cap: %d of %d", done, len(cases)))
	}
	f.Sample(c04LongCase{320, 137, "MB/s", "B/op"})
	f.Done()
}
