//go:build verif

package benchtab

import (
	"bytes"
	"fmt"
	"strings"

	"golang.org/x/perf/benchfmt"
	"golang.org/x/perf/benchmath"
	"golang.org/x/perf/benchproc"
)

// ---- C15: datasets and the body both passes execute ----

type c15Dataset struct {
	Name  string
	Files []string // texts; file i is labelled f<i>
	Table string
	Row   string
	Col   string
}

var c15Datasets = []c15Dataset{
	{
		// (i) one table, 2×2 cells; the note key varies inside a cell (warning path)
		Name: "2x2-warning",
		Files: []string{
			"goos: a\nnote: x\nBenchmarkA 1 100 ns/op\nBenchmarkB 1 200 ns/op\nnote: y\nBenchmarkA 1 101 ns/op\nBenchmarkB 1 202 ns/op\n",
			"goos: a\nnote: x\nBenchmarkA 1 130 ns/op\nBenchmarkB 1 231 ns/op\nBenchmarkA 1 131 ns/op\n",
		},
		Table: "goos", Row: ".fullname", Col: ".file",
	},
	{
		// (ii) two tables × 1×2 cells, one unit with assume=exact
		Name: "2tables-exact",
		Files: []string{
			"Unit x/op assume=exact\nBenchmarkA 1 100 ns/op 7 x/op\nBenchmarkA 1 102 ns/op 7 x/op\n",
			"BenchmarkA 1 150 ns/op 9 x/op\nBenchmarkA 1 151 ns/op 8 x/op\n",
		},
		Table: ".config", Row: ".fullname", Col: ".file",
	},
	{
		// (iii) three columns, sub-name keys; row B has no cell in the FIRST (baseline) column but cells in both
		// later ones
		Name: "3cols-missing",
		Files: []string{
			"BenchmarkA/k=1 1 10 ns/op\nBenchmarkA/k=2 1 20 ns/op\nBenchmarkA/k=3 1 30 ns/op\nBenchmarkB/k=2 1 40 ns/op\nBenchmarkB/k=3 1 60 ns/op\nBenchmarkA/k=1 1 11 ns/op\n",
		},
		Table: ".config", Row: ".name", Col: "/k",
	},
	{
		// (iv) one column of four rows with irregular values: any summation
		// over the rows in a different order changes the last bits of the geomean
		Name: "4rows-irregular",
		Files: []string{
			"BenchmarkA 1 101.3 ns/op\nBenchmarkB 1 57.77 ns/op\nBenchmarkC 1 1234.5 ns/op\nBenchmarkD 1 3.14159 ns/op\nBenchmarkE 1 0.7071 ns/op\n",
		},
		Table: ".config", Row: ".fullname", Col: ".file",
	},
	{
		// (v) rows keyed by the growing .config group alone; the FIRST result has no file configuration at all
		// (the group is flattened while it is still empty), later results introduce its keys
		Name: "config-rows-late-keys",
		Files: []string{
			"BenchmarkA 1 1 ns/op\ngoos: b\nBenchmarkA 1 2 ns/op\ngoos: a\nBenchmarkA 1 3 ns/op\ngoarch: x\nBenchmarkA 1 4 ns/op\n",
		},
		Table: ".fullname", Row: ".config", Col: ".file",
	},
	{
		// (vi) cells merging results that differ in TWO unprojected keys, three distinct combinations of them (the
		// warning names both keys; the keys of a cell are collected from a map)
		Name: "residue-two-keys",
		Files: []string{
			"goos: l\na: 1\nb: 1\nBenchmarkA 1 100 ns/op\na: 2\nBenchmarkA 1 101 ns/op\na: 1\nb: 2\nBenchmarkA 1 102 ns/op\nBenchmarkB 1 7 ns/op\n",
			"goos: l\na: 1\nb: 2\nBenchmarkA 1 110 ns/op\nb: 1\nBenchmarkA 1 111 ns/op\na: 3\nBenchmarkA 1 112 ns/op\n",
		},
		Table: "goos", Row: ".fullname", Col: ".file",
	},
	{
		// (vii) rows sorted by a requested order (@num) over spellings of numbers: zero-padded, plain and fractional
		// values interleave; the row keys are collected from a map, so only a total order gives one arrangement
		Name: "rows-in-num-order",
		Files: []string{
			"BenchmarkA/p=050 1 5 ns/op\nBenchmarkA/p=75 1 7 ns/op\nBenchmarkA/p=62.5 1 6 ns/op\nBenchmarkA/p=025 1 2 ns/op\nBenchmarkA/p=12.5 1 1 ns/op\n",
		},
		Table: ".config", Row: "/p@num", Col: ".file",
	},
}

// c15LargeDatasets is a ladder of cell sizes around powers of two (2^10 and
// 2^12, one below, at, one above): two columns whose A cells hold that many
// values in no particular order, next to a small row. Used by the free-running
// passes only (the controlled pass explores the small datasets).
func c15LargeDatasets() []c15Dataset {
	var out []c15Dataset
	for _, n := range []int{1023, 1024, 1025, 4097} {
		var f0, f1 strings.Builder
		for i := 0; i < n; i++ {
			fmt.Fprintf(&f0, "BenchmarkA 1 %d ns/op\n", 1000+(i*7919)%1009)
			fmt.Fprintf(&f1, "BenchmarkA 1 %d ns/op\n", 1010+(i*104729)%997)
		}
		f0.WriteString("BenchmarkB 1 5 ns/op\nBenchmarkB 1 7 ns/op\nBenchmarkB 1 6 ns/op\n")
		f1.WriteString("BenchmarkB 1 6 ns/op\nBenchmarkB 1 9 ns/op\nBenchmarkB 1 8 ns/op\n")
		out = append(out, c15Dataset{
			Name:  fmt.Sprintf("cells-of-%d-values", n),
			Files: []string{f0.String(), f1.String(), f1.String() + f0.String()},
			Table: ".config", Row: ".fullname", Col: ".file",
		})
	}
	return out
}

// c15Body builds everything afresh, adds the results, computes the tables and
// renders them as text and CSV. It returns the three byte streams joined.
func c15Body(ds c15Dataset) string {
	filter, err := benchproc.NewFilter("*")
	if err != nil {
		panic(err)
	}
	var parser benchproc.ProjectionParser
	tableBy, _, err := parser.ParseWithUnit(ds.Table, filter)
	if err != nil {
		panic(err)
	}
	rowBy, err := parser.Parse(ds.Row, filter)
	if err != nil {
		panic(err)
	}
	colBy, err := parser.Parse(ds.Col, filter)
	if err != nil {
		panic(err)
	}
	residue := parser.Residue()
	stat := NewBuilder(tableBy, rowBy, colBy, residue)
	var rd benchfmt.Reader
	for i, text := range ds.Files {
		rd.Reset(strings.NewReader(text), fmt.Sprintf("f%d", i), ".file", fmt.Sprintf("f%d", i))
		for rd.Scan() {
			if res, ok := rd.Result().(*benchfmt.Result); ok {
				if ok, _ := filter.Apply(res); ok {
					stat.Add(res)
				}
			}
		}
	}
	thr := benchmath.DefaultThresholds
	tables := stat.ToTables(TableOpts{Confidence: 0.95, Thresholds: &thr, Units: rd.Units()})
	var text, csv, warn bytes.Buffer
	if err := tables.ToText(&text, false); err != nil {
		panic(err)
	}
	if err := tables.ToCSV(&csv, &warn); err != nil {
		panic(err)
	}
	return text.String() + "\x00" + csv.String() + "\x00" + warn.String()
}
