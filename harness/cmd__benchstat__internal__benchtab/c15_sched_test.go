//go:build verif && verifsched

package benchtab

import (
	"encoding/json"
	"fmt"
	"os"
	"path/filepath"
	"runtime"
	"strconv"
	"testing"

	mc "golang.org/x/perf/internal/verifmc"
)

// ---- C15 controlled pass: every schedule and map order up to the deviation bound ----

type c15Case struct {
	Dataset    int
	GOMAXPROCS int
	Choices    []int
	// Cross: compare the default schedule's bytes under GOMAXPROCS with those under GOMAXPROCS=1
	Cross bool `json:",omitempty"`
}

func c15Replay(raw json.RawMessage) string {
	var cs c15Case
	if err := json.Unmarshal(raw, &cs); err != nil {
		return err.Error()
	}
	ds := c15Datasets[cs.Dataset]
	old := runtime.GOMAXPROCS(cs.GOMAXPROCS)
	defer runtime.GOMAXPROCS(old)
	ref := c15Reference(ds)
	if cs.Cross {
		runtime.GOMAXPROCS(1)
		ref1 := c15Reference(ds)
		if ref1 != ref {
			return "GOMAXPROCS=1 vs GOMAXPROCS=" + strconv.Itoa(cs.GOMAXPROCS) + ": " + c15Diff(ref1, ref)
		}
		return ""
	}
	var out string
	mc.ResetGlobals()
	x := mc.Explore1(cs.Choices, 1<<20, func() { out = c15Body(ds) })
	if x.Failure != "" {
		return x.Failure
	}
	if out != ref {
		return c15Diff(ref, out)
	}
	return ""
}

func c15Reference(ds c15Dataset) string {
	var ref string
	mc.ResetGlobals()
	x := mc.Explore1(nil, 1<<20, func() { ref = c15Body(ds) })
	if x.Failure != "" {
		panic("reference execution failed: " + x.Failure)
	}
	return ref
}

func c15Diff(ref, out string) string {
	i := 0
	for i < len(ref) && i < len(out) && ref[i] == out[i] {
		i++
	}
	lo := max(0, i-60)
	return fmt.Sprintf("output differs from the default schedule's output at byte %d:\n default: …%q\n this schedule: …%q", i, ref[lo:min(len(ref), i+80)], out[lo:min(len(out), i+80)])
}

// selfTest shows that the explorer finds what it should on two tiny classic
// programs: a lost update needs one preemption, a lock-order deadlock too.
func c15SelfTest(c *mc.Check) {
	f := c.Family("scheduler-selftest", "the explorer on two classic programs: (1) two goroutines doing a non-atomic read-modify-write on a shared counter — at bound 0 only the result 2 is seen, at bound 1 also the lost update 1; (2) two goroutines taking two mutexes in opposite order — no deadlock at bound 0, a deadlock at bound 1; non-trivial = all executions", nil)
	if c.Replaying() || os.Getenv("VERIF_SHARD") != "" && os.Getenv("VERIF_SHARD") != "0" {
		return
	}
	for bound := 0; bound <= 1; bound++ {
		results := map[int]bool{}
		var counter mc.Map
		e := &mc.Explorer{Bound: bound, Horizon: 10000,
			Body: func() {
				counter.Reset()
				counter.Store("n", 0)
				var wg mc.WaitGroup
				wg.Add(2)
				for i := 0; i < 2; i++ {
					mc.Go(func() {
						v, _ := counter.Load("n")
						counter.Store("n", v.(int)+1)
						wg.Done()
					})
				}
				wg.Wait()
				v, _ := counter.Load("n")
				results[v.(int)] = true
			}}
		e.Run()
		f.Count(e.Executions, e.Executions)
		f.Outcome(fmt.Sprintf("lost-update bound=%d results=%v", bound, len(results)), 1)
		want := 1 + bound
		if len(results) != want {
			c.Fail(f, "selftest", bound, fmt.Sprintf("lost-update program at bound %d: %d distinct results, expected %d", bound, len(results), want))
		}
		deadlocks := 0
		e2 := &mc.Explorer{Bound: bound, Horizon: 10000,
			Body: func() {
				var a, b mc.Mutex
				var wg mc.WaitGroup
				wg.Add(2)
				mc.Go(func() { a.Lock(); b.Lock(); b.Unlock(); a.Unlock(); wg.Done() })
				mc.Go(func() { b.Lock(); a.Lock(); a.Unlock(); b.Unlock(); wg.Done() })
				wg.Wait()
			},
			OnFail: func(ch []int, x *mc.Execution, msg string) { deadlocks++ }}
		e2.Run()
		f.Count(e2.Executions, e2.Executions)
		f.Outcome(fmt.Sprintf("lock-order bound=%d deadlocks=%v", bound, deadlocks > 0), 1)
		if (deadlocks > 0) != (bound == 1) {
			c.Fail(f, "selftest", bound, fmt.Sprintf("lock-order program at bound %d: %d deadlocking executions", bound, deadlocks))
		}
	}
	f.Sample("two goroutines: v := Load(n); Store(n, v+1)")
	f.Done()
}

func c15Explore(c *mc.Check, bound int) {
	shard, _ := strconv.Atoi(os.Getenv("VERIF_SHARD"))
	nshards, _ := strconv.Atoi(os.Getenv("VERIF_NSHARDS"))
	if nshards == 0 {
		nshards = 1
	}
	f := c.Family("schedules", fmt.Sprintf("for each of %d datasets (2×2 cells with a residue warning; two tables with an exact-assumption unit; three columns with a missing cell; one column of five rows with irregular values; cells merging results that differ in two unprojected keys; rows in a requested numeric order over several spellings of numbers; rows keyed by the growing .config group whose first result has no configuration) × GOMAXPROCS ∈ {1,2,3} (it sizes the semaphore): iterative-context-bounding DFS over the mechanically instrumented real Builder.ToTables + ToText + ToCSV: every interleaving of the cell goroutines, the column goroutines and the main goroutine at WaitGroup/Once/sync.Map/channel operations, and every order in which each range over a map delivers its keys, with at most %d deviations (a preemption of a goroutine that could have continued, or a map key picked out of canonical order); caches cold at the start of every execution; oracle: text, CSV and warning bytes identical to the default schedule's — which is itself identical for every GOMAXPROCS —, no deadlock, no panic; the root schedule is replayed twice and must reproduce its decisions and bytes; non-trivial = executions with ≥1 deviation", len(c15Datasets), bound), c15Replay)
	if c.Replaying() {
		return
	}
	f.Bounds["deviation_bound"] = bound
	f.Bounds["deviation_bound_gomaxprocs_2_3"] = mc.Pick(c, bound-1, bound)
	f.Bounds["gomaxprocs"] = []int{1, 2, 3}
	f.Bounds["shard"] = fmt.Sprintf("%d/%d", shard, nshards)
	refDir := os.Getenv("VERIF_C15_REFDIR")
	traces := map[string]bool{}
	var maxPoints int
	for di, ds := range c15Datasets {
		var ref1 string
		for _, gmp := range []int{1, 2, 3} {
			old := runtime.GOMAXPROCS(gmp)
			ref := c15Reference(ds)
			// the output is the same function of the input for every GOMAXPROCS
			if gmp == 1 {
				ref1 = ref
			} else if ref != ref1 && shard == 0 {
				c.Fail(f, "gomaxprocs", c15Case{Dataset: di, GOMAXPROCS: gmp, Cross: true}, fmt.Sprintf("dataset %s: GOMAXPROCS=1 vs GOMAXPROCS=%d: %s", ds.Name, gmp, c15Diff(ref1, ref)))
			}
			// replay determinism of the root schedule
			var out2 string
			mc.ResetGlobals()
			x1 := mc.Explore1(nil, 1<<20, func() { out2 = c15Body(ds) })
			mc.ResetGlobals()
			x2 := mc.Explore1(nil, 1<<20, func() { out2 = c15Body(ds) })
			if len(x1.Points) != len(x2.Points) || out2 != ref {
				fmt.Printf("HARNESS-ERROR: the default schedule of dataset %s does not replay deterministically (%d vs %d decisions)\n", ds.Name, len(x1.Points), len(x2.Points))
				os.Exit(2)
			}
			if refDir != "" && shard == 0 && gmp == 1 {
				os.MkdirAll(refDir, 0o755)
				os.WriteFile(filepath.Join(refDir, ds.Name+".ref"), []byte(ref), 0o644)
			}
			var out string
			// GOMAXPROCS only sizes the semaphore (2·GOMAXPROCS): with 1 it
			// blocks the main goroutine while cells are being computed, with
			// 2 and 3 it never does for these datasets. The quick tier spends
			// its full bound on the blocking configuration.
			bound := bound
			if !c.Thorough() && gmp > 1 {
				bound--
			}
			e := &mc.Explorer{Bound: bound, Horizon: 1 << 20, Shard: shard, NShards: nshards, Stop: c.TimeUp,
				Body: func() { mc.ResetGlobals(); out = c15Body(ds) },
				Check: func(x *mc.Execution) string {
					if out != ref {
						return c15Diff(ref, out)
					}
					return ""
				},
				OnFail: func(ch []int, x *mc.Execution, msg string) {
					c.Fail(f, "schedule", c15Case{Dataset: di, GOMAXPROCS: gmp, Choices: ch}, fmt.Sprintf("dataset %s GOMAXPROCS=%d: %s", ds.Name, gmp, msg))
				}}
			e.Run()
			runtime.GOMAXPROCS(old)
			f.Count(e.Executions, e.Executions-e.ByCost[0])
			for k := range e.Traces {
				traces[fmt.Sprintf("%d/%d/%s", di, gmp, k)] = true
			}
			if e.MaxPoints > maxPoints {
				maxPoints = e.MaxPoints
			}
			for cost, n := range e.ByCost {
				f.Outcome(fmt.Sprintf("deviations=%d", cost), n)
			}
			// For the model-checking evidence: every execution is one
			// schedule executed on the implementation; its decisions are the
			// transitions taken.
			f.SpaceStats(e.Executions, e.Decisions, e.MaxPoints, false)
			if e.Capped {
				f.Capped(fmt.Sprintf("time cap in dataset %s GOMAXPROCS=%d", ds.Name, gmp))
			}
		}
	}
	f.Set("distinct_goroutine_completion_orders", len(traces))
	f.Set("max_decisions_per_execution", maxPoints)
	f.Set("registered_global_caches", mc.Globals())
	f.Sample(c15Case{Dataset: 0, GOMAXPROCS: 2, Choices: []int{0, 0, 1}})
	f.Done()
}

func TestVerifC15(t *testing.T) {
	c := mc.NewCheck("C15")
	mc.KeyCanon.SkipFields = map[string]bool{"keyNode.proj": true}
	c.Assume("sequentially consistent interleavings at synchronisation operations; data races are only visible to the separate free-running -race pass")
	c.Assume("instrumentation (verifinstr) preserves semantics; cross-checked by comparing the default schedule's bytes with the uninstrumented build's output in the race pass")
	c15SelfTest(c)
	c15Explore(c, mc.Pick(c, 2, 2))
	if code := c.Finish(); code != 0 {
		os.Exit(code)
	}
}
