//go:build verif && !verifsched

package benchtab

import (
	"bytes"
	"encoding/json"
	"fmt"
	"os"
	"path/filepath"
	"runtime"
	"sort"
	"strings"
	"testing"
	"time"

	"golang.org/x/perf/benchfmt"
	"golang.org/x/perf/benchmath"
	"golang.org/x/perf/benchproc"
	mc "golang.org/x/perf/internal/verifmc"
)

// ---- C15 free-running pass (uninstrumented code, real goroutines, -race) ----

// c15BodyTimed runs c15Body and reports a run that has not returned after two minutes (a run takes milliseconds):
// the process is then wedged — typically a deadlock of the fan-out's own limiter — so the violation is reported and
// the process ends at once.
func c15BodyTimed(c *mc.Check, f *mc.Family, ds c15Dataset, what string) string {
	done := make(chan string, 1)
	go func() { done <- c15Body(ds) }()
	select {
	case out := <-done:
		return out
	case <-time.After(2 * time.Minute):
		c.Fail(f, "hang", ds.Name, fmt.Sprintf("dataset %s, %s: benchstat's table computation has not returned after 2 minutes (GOMAXPROCS=%d)", ds.Name, what, runtime.GOMAXPROCS(0)))
		f.Capped("a run did not return")
		f.Done()
		c.Finish()
		os.Exit(1)
	}
	return ""
}

func c15Free(c *mc.Check, reps int) {
	f := c.Family("free-running-race-pass", fmt.Sprintf("SAMPLING (not exhaustive): the uninstrumented Builder.ToTables + ToText + ToCSV built with -race and run with real goroutines for GOMAXPROCS ∈ {1,2,4,16} × %d datasets × %d repetitions, and × 4 datasets whose cells hold 1023, 1024, 1025 and 4097 values in three columns (a tenth of the repetitions); every run's bytes must equal the first run's and the bytes the controlled pass produced for the default schedule (ties the instrumented build to the real one); any data race report fails the process; non-trivial = every run", len(c15Datasets), reps), nil)
	if c.Replaying() {
		return
	}
	f.Bounds["repetitions"] = reps
	f.Capped("sampling by nature: free-running executions are not enumerated")
	refDir := os.Getenv("VERIF_C15_REFDIR")
	large := c15LargeDatasets()
	f.Bounds["large_cell_datasets"] = len(large)
	for di, ds := range append(append([]c15Dataset{}, c15Datasets...), large...) {
		var first string
		reps := reps
		if di >= len(c15Datasets) {
			reps = max(3, reps/10)
		}
		for _, gmp := range []int{1, 2, 4, 16} {
			old := runtime.GOMAXPROCS(gmp)
			for r := 0; r < reps; r++ {
				out := c15BodyTimed(c, f, ds, fmt.Sprintf("free run %d", r))
				if first == "" {
					first = out
					if refDir != "" {
						if ref, err := os.ReadFile(filepath.Join(refDir, ds.Name+".ref")); err == nil && string(ref) != out {
							c.Fail(f, "instrumented-vs-real", ds.Name, "the instrumented build's default-schedule output differs from the uninstrumented build's output")
						}
					}
				}
				f.Count(1, 1)
				if out != first {
					f.Outcome("differs", 1)
					c.Fail(f, "free-run-differs", ds.Name, fmt.Sprintf("dataset %s GOMAXPROCS=%d run %d: output differs from the first run", ds.Name, gmp, r))
				} else {
					f.Outcome("identical", 1)
				}
			}
			runtime.GOMAXPROCS(old)
		}
	}
	f.Sample(c15Datasets[0].Name)
	f.Done()
}

// cellsOf renders every cell of the tables keyed by (table, row, column).
func cellsOf(lines []string) (map[string]string, string) {
	return cellsOfRow(lines, ".fullname")
}

func cellsOfRow(lines []string, row string) (map[string]string, string) {
	filter, _ := benchproc.NewFilter("*")
	var parser benchproc.ProjectionParser
	tableBy, _, _ := parser.ParseWithUnit(".config", filter)
	rowBy, _ := parser.Parse(row, filter)
	colBy, _ := parser.Parse("goos", filter)
	residue := parser.Residue()
	stat := NewBuilder(tableBy, rowBy, colBy, residue)
	text := "note: n\n" + strings.Join(lines, "\n") + "\n"
	rd := benchfmt.NewReader(strings.NewReader(text), "f")
	for rd.Scan() {
		if res, ok := rd.Result().(*benchfmt.Result); ok {
			stat.Add(res)
		}
	}
	thr := benchmath.DefaultThresholds
	tables := stat.ToTables(TableOpts{Confidence: 0.95, Thresholds: &thr, Units: rd.Units()})
	out := map[string]string{}
	for ti, t := range tables.Tables {
		for k, cell := range t.Cells {
			desc := fmt.Sprintf("%v [%v,%v] n=%d %v", cell.Summary.Center, cell.Summary.Lo, cell.Summary.Hi, len(cell.Sample.Values), cell.Sample.Values)
			if cell.Baseline != nil {
				desc += " | " + cell.Comparison.FormatDelta(cell.Baseline.Summary.Center, cell.Summary.Center) + " " + cell.Comparison.String()
			}
			for _, w := range cell.Sample.Warnings {
				desc += " !" + w.Error()
			}
			out[tables.Keys[ti].String()+"|"+k.Row.String()+"|"+k.Col.String()] = desc
		}
	}
	var txt bytes.Buffer
	tables.ToText(&txt, false)
	return out, txt.String()
}

func c15Permutations(c *mc.Check, k int) {
	base := []string{
		"BenchmarkA 1 100 ns/op 7 B/op",
		"BenchmarkB/k=1 1 200 ns/op",
		"BenchmarkA 1 104 ns/op 9 allocs/op", // same row, same first unit, same number of values, another second unit
		"BenchmarkC 1 50 ns/op",
		"BenchmarkB/k=1 1 220 ns/op",
		"BenchmarkA 1 90 ns/op 7 B/op",
		"BenchmarkC 1 51 ns/op 2 allocs/op",
	}[:k]
	// a second pool, projected by rows of SEVERAL fields: two benchmarks whose (.name, /k) tuples differ but
	// concatenate to the same bytes, three lines each, and a bystander
	base2 := []string{
		"BenchmarkB/k=11 1 100 ns/op",
		"BenchmarkB/k=11 1 104 ns/op",
		"BenchmarkB1/k=1 1 200 ns/op",
		"BenchmarkB1/k=1 1 210 ns/op",
		"BenchmarkB/k=11 1 90 ns/op",
		"BenchmarkA 1 5 ns/op",
		"BenchmarkB1/k=1 1 190 ns/op",
	}[:min(k+1, 7)]
	replay := func(raw json.RawMessage) string {
		var perm []int
		json.Unmarshal(raw, &perm)
		if len(perm) > 0 && perm[0] < 0 {
			// pool 2: the permutation follows the marker
			return c15CheckPermRow(base2, perm[1:], ".name,/k")
		}
		return c15CheckPerm(base, perm)
	}
	f := c.Family("line-permutations", fmt.Sprintf("every one of the %d! orders of %d benchmark lines inside one configuration block, and every order of a second pool of one line more projected by rows of two fields (.name,/k) in which two benchmarks' tuples concatenate to the same bytes: the number of cells is the number of distinct (benchmark, unit) pairs and the set of cells (table, row, column → centre, interval, samples, delta, p, warnings) is identical to that of the original order (row order may differ, content may not); non-trivial = non-identity permutations", k, k), replay)
	if c.Replaying() {
		return
	}
	mc.Permutations(k, func(perm []int) bool {
		msg := c15CheckPerm(base, perm)
		ident := true
		for i, p := range perm {
			if i != p {
				ident = false
			}
		}
		nt := int64(1)
		if ident {
			nt = 0
		}
		f.Count(1, nt)
		if msg != "" {
			f.Outcome("differs", 1)
			c.Fail(f, "line-permutation", append([]int{}, perm...), msg)
		} else {
			f.Outcome("same-cells", 1)
		}
		return true
	})
	f.Bounds["pool2_lines"] = len(base2)
	mc.Permutations(len(base2), func(perm []int) bool {
		msg := c15CheckPermRow(base2, perm, ".name,/k")
		f.Count(1, 1)
		if msg != "" {
			f.Outcome("differs", 1)
			c.Fail(f, "line-permutation", append([]int{-1}, perm...), msg)
		} else {
			f.Outcome("same-cells", 1)
		}
		return !c.TimeUp()
	})
	f.Sample([]int{1, 0, 2, 3})
	f.Done()
}

func c15CheckPerm(base []string, perm []int) string {
	return c15CheckPermRow(base, perm, ".fullname")
}

func c15CheckPermRow(base []string, perm []int, row string) string {
	want, _ := cellsOfRow(base, row)
	// the number of cells is known from the lines themselves: one per distinct benchmark name and unit
	names := map[string]bool{}
	for _, l := range base {
		fs := strings.Fields(l)
		for i := 3; i < len(fs); i += 2 {
			names[fs[0]+" "+fs[i]] = true
		}
	}
	if len(want) != len(names) {
		return fmt.Sprintf("original order: %d cells for %d distinct (benchmark, unit) pairs", len(want), len(names))
	}
	lines := make([]string, len(perm))
	for i, p := range perm {
		lines[i] = base[p]
	}
	got, _ := cellsOfRow(lines, row)
	var keys []string
	for k := range want {
		keys = append(keys, k)
	}
	sort.Strings(keys)
	if len(got) != len(want) {
		return fmt.Sprintf("order %v: %d cells, original order %d", perm, len(got), len(want))
	}
	for _, k := range keys {
		if got[k] != want[k] {
			return fmt.Sprintf("order %v: cell %s is %q, in the original order %q", perm, k, got[k], want[k])
		}
	}
	return ""
}

func c15Repeated(c *mc.Check) {
	f := c.Family("repeated-runs", "each dataset run 10 times in one process (process-wide caches cold, then warm): byte-identical output; non-trivial = runs after the first", nil)
	if c.Replaying() {
		return
	}
	for _, ds := range append(append([]c15Dataset{}, c15Datasets...), c15LargeDatasets()[:2]...) {
		first := c15BodyTimed(c, f, ds, "repeated run 0")
		for r := 1; r < 10; r++ {
			f.Count(1, 1)
			if out := c15BodyTimed(c, f, ds, fmt.Sprintf("repeated run %d", r)); out != first {
				f.Outcome("differs", 1)
				c.Fail(f, "repeated-run", ds.Name, fmt.Sprintf("dataset %s: run %d differs from run 0", ds.Name, r))
			} else {
				f.Outcome("identical", 1)
			}
		}
	}
	f.Sample(c15Datasets[1].Name)
	f.Done()
}

func TestVerifC15(t *testing.T) {
	c := mc.NewCheck("C15")
	c15Free(c, mc.Pick(c, 20, 300))
	c15Permutations(c, mc.Pick(c, 5, 6))
	c15Repeated(c)
	if code := c.Finish(); code != 0 {
		os.Exit(code)
	}
}
