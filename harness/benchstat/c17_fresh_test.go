//go:build verif

package benchstat

import (
	"bytes"
	"fmt"
	"testing"

	mc "golang.org/x/perf/internal/verifmc"
)

// ---- C17: first calls of a fresh process (see mc.FirstCalls) ----

func c17Text(alpha float64, order Order, geo bool, cfgs ...string) string {
	c := &Collection{Alpha: alpha, AddGeoMean: geo, Order: order}
	for i, t := range cfgs {
		c.AddConfig(fmt.Sprintf("c%d", i), []byte(t))
	}
	var b bytes.Buffer
	FormatText(&b, c.Tables())
	var cb bytes.Buffer
	FormatCSV(&cb, c.Tables(), false)
	return b.String() + "\x02" + cb.String()
}

const (
	c17Old = "BenchmarkA 1 10 ns/op 100 MB/s\nBenchmarkA 1 11 ns/op 101 MB/s\nBenchmarkA 1 12 ns/op 99 MB/s\nBenchmarkA 1 10.5 ns/op 100 MB/s\nBenchmarkA 1 90 ns/op 100 MB/s\nBenchmarkB 1 5 ns/op\nBenchmarkB 1 5 ns/op\n"
	c17New = "BenchmarkA 1 20 ns/op 50 MB/s\nBenchmarkA 1 21 ns/op 51 MB/s\nBenchmarkA 1 22 ns/op 49 MB/s\nBenchmarkA 1 20.5 ns/op 50 MB/s\nBenchmarkA 1 20 ns/op 50 MB/s\nBenchmarkB 1 5 ns/op\nBenchmarkB 1 6 ns/op\n"
)

var c17Calls = []mc.Call{
	{"one configuration", func() string { return c17Text(0, nil, false, c17Old) }},
	{"two configurations", func() string { return c17Text(0, nil, false, c17Old, c17New) }},
	{"two, geomean", func() string { return c17Text(0.05, nil, true, c17Old, c17New) }},
	{"two, by delta", func() string { return c17Text(1, ByDelta, false, c17Old, c17New) }},
	{"two, reverse by name", func() string { return c17Text(0.5, Reverse(ByName), true, c17Old, c17New) }},
	{"three configurations", func() string { return c17Text(0, nil, true, c17Old, c17New, c17Old) }},
	{"t-test", func() string {
		c := &Collection{DeltaTest: TTest}
		c.AddConfig("a", []byte(c17Old))
		c.AddConfig("b", []byte(c17New))
		var b bytes.Buffer
		FormatText(&b, c.Tables())
		return b.String()
	}},
	{"no test", func() string {
		c := &Collection{DeltaTest: NoDeltaTest}
		c.AddConfig("a", []byte(c17Old))
		c.AddConfig("b", []byte(c17New))
		var b bytes.Buffer
		FormatText(&b, c.Tables())
		return b.String()
	}},
}

func TestVerifC17Fresh(t *testing.T) {
	if !mc.FirstCallsChild(c17Calls, "VERIF_C17_CALLS") {
		t.Skip()
	}
}
