//go:build verif

package benchstat

import (
	"bytes"
	"encoding/json"
	"fmt"
	"math"
	"math/big"
	"os"
	"sort"
	"strings"
	"testing"

	"golang.org/x/perf/internal/stats"
	mc "golang.org/x/perf/internal/verifmc"
)

// ---- C17: the legacy benchstat library's tables follow its documented statistics ----

// value patterns (all dyadic so that sums are exact)
var c17Patterns = map[string][]float64{
	"single":   {8},
	"two":      {8, 8.5},
	"constant": {4, 4, 4, 4, 4},
	"zeros":    {0, 0, 0, 0},
	"incr":     {10, 11, 12, 13, 14},
	"outlier":  {10, 10.5, 11, 1000, 10.25},
	"lowout":   {0.125, 10, 10.5, 11, 10.25},
	"ten":      {20, 21, 22, 23, 24, 25, 26, 27, 500, 1},
	"ties":     {3, 3, 5, 5, 5, 7},
	"midout":   {19, 10, 11, 12, 13, 14}, // 19 lies between the 1.0·IQR and the 1.5·IQR fence
	// the quartiles coincide although the values are not all equal: the fence is a single point (needs ≥7 values)
	// constant values that binary floating point cannot represent: a mean computed as sum/n leaves [min, max].
	// Only paired with themselves (large-tables): with other patterns the deltas of different rows differ by
	// rounding noise only, and their order under a delta sort is not decided by the property.
	"const3":    {0.1, 0.1, 0.1},
	"const10":   {0.1, 0.1, 0.1, 0.1, 0.1, 0.1, 0.1, 0.1, 0.1, 0.1},
	"const7":    {0.7, 0.7, 0.7, 0.7, 0.7, 0.7, 0.7},
	"flatstray": {3, 3, 3, 3, 40, 3, 3, 3, 3, 3},
	"flatboth":  {0.5, 3, 3, 3, 3, 3, 3, 3, 96},
}

var c17PatternNames = []string{"single", "two", "constant", "zeros", "incr", "outlier", "lowout", "ten", "ties", "midout", "flatstray", "flatboth"}

type c17Spec struct {
	Configs  int
	Layout   [][]string // per config: benchmark names in order
	Units    []string
	Pats     []string  // per config: value pattern
	Shift    []float64 // per config: multiplier applied to the pattern
	Groups   bool      // two label blocks (pkg: p1 / pkg: p2) per config
	Test     string    // "u", "t", "none", "default"
	Alpha    float64
	Order    string // "", "name", "delta", "rname", "rdelta"
	GeoMean  bool
	SplitPkg bool
	// AltUnits: every second repetition of a benchmark line reports its units in reverse order, so consecutive
	// lines of one benchmark carry different units in the same column
	AltUnits bool `json:",omitempty"`
	// GroupNames: the values of the pkg label of the two blocks (default p1, p2); a value may contain '/', as may a
	// benchmark name, so that group and name read the same when joined: (enc, A/B) and (enc/A, B)
	GroupNames []string `json:",omitempty"`
}

func (s c17Spec) groupNames() []string {
	if len(s.GroupNames) == 2 {
		return s.GroupNames
	}
	return []string{"p1", "p2"}
}

// values returns the measurements of (config, benchmark index, unit index).
func (s c17Spec) values(ci, bi, ui int) []float64 {
	base := c17Patterns[s.Pats[ci]]
	out := make([]float64, len(base))
	for i, v := range base {
		out[i] = v * s.Shift[ci] * float64(1+bi) * math.Ldexp(1, ui)
	}
	return out
}

func (s c17Spec) text(ci int) string {
	var b strings.Builder
	blocks := []string{""}
	if s.Groups {
		blocks = s.groupNames()
	}
	for gi, blk := range blocks {
		if blk != "" {
			fmt.Fprintf(&b, "pkg: %s\n", blk)
		}
		// interleave repetitions so that repeats of a benchmark are not adjacent
		maxLen := 0
		for range s.Layout[ci] {
			if l := len(c17Patterns[s.Pats[ci]]); l > maxLen {
				maxLen = l
			}
		}
		for rep := 0; rep < maxLen; rep++ {
			for bi, bench := range s.Layout[ci] {
				if bench == "" {
					continue
				}
				var line strings.Builder
				fmt.Fprintf(&line, "Benchmark%s 1", bench)
				for k := range s.Units {
					ui := k
					if s.AltUnits && rep%2 == 1 {
						ui = len(s.Units) - 1 - k
					}
					u := s.Units[ui]
					vs := s.values(ci, s.benchIndex(bench), ui)
					_ = bi
					v := vs[rep]
					if gi == 1 {
						v *= 4
					}
					fmt.Fprintf(&line, " %v %s", v, u)
				}
				b.WriteString(line.String() + "\n")
			}
		}
	}
	return b.String()
}

func (s c17Spec) benchIndex(name string) int {
	return int(name[0] - 'A')
}

// ---- reference ----

func ratOf(x float64) *big.Rat { return new(big.Rat).SetFloat64(x) }

// r8 returns the R8 percentile of sorted xs in exact rationals.
func r8(sorted []float64, num, den int64) *big.Rat {
	N := big.NewRat(int64(len(sorted)), 1)
	h := new(big.Rat).Add(N, big.NewRat(1, 3))
	h.Mul(h, big.NewRat(num, den))
	h.Add(h, big.NewRat(1, 3))
	fl := new(big.Int).Quo(h.Num(), h.Denom())
	k := int(fl.Int64())
	frac := new(big.Rat).Sub(h, new(big.Rat).SetInt(fl))
	switch {
	case k <= 0:
		return ratOf(sorted[0])
	case k >= len(sorted):
		return ratOf(sorted[len(sorted)-1])
	}
	d := new(big.Rat).Sub(ratOf(sorted[k]), ratOf(sorted[k-1]))
	d.Mul(d, frac)
	return d.Add(d, ratOf(sorted[k-1]))
}

// retained returns the values within 1.5 IQR of the quartiles in input order;
// ambiguous is set if some value lies so close to a fence that floating-point
// rounding of the fence legitimately decides either way.
func retained(values []float64) (out []float64, ambiguous bool) {
	sorted := append([]float64{}, values...)
	sort.Float64s(sorted)
	q1, q3 := r8(sorted, 1, 4), r8(sorted, 3, 4)
	iqr := new(big.Rat).Sub(q3, q1)
	w := new(big.Rat).Mul(iqr, big.NewRat(3, 2))
	lo := new(big.Rat).Sub(q1, w)
	hi := new(big.Rat).Add(q3, w)
	scale := math.Max(math.Abs(sorted[0]), math.Abs(sorted[len(sorted)-1]))
	eps := new(big.Rat).SetFloat64(scale * 1e-12)
	for _, v := range values {
		rv := ratOf(v)
		for _, fence := range []*big.Rat{lo, hi} {
			d := new(big.Rat).Sub(rv, fence)
			// With a zero interquartile range the fences are data values
			// and exact in floating point as well.
			if d.Abs(d).Cmp(eps) <= 0 && scale > 0 && iqr.Sign() != 0 {
				ambiguous = true
			}
		}
		if rv.Cmp(lo) >= 0 && rv.Cmp(hi) <= 0 {
			out = append(out, v)
		}
	}
	return
}

type expCell struct {
	present        bool
	kept           []float64
	n              int
	min, mean, max float64
}

type expRow struct {
	bench, group string
	cells        []expCell
	delta, note  string
	change       int
	pct          float64
	geomean      bool
	// key is the exact rational sort key |pct|·change of ByDelta.
	key *big.Rat
}

type expTable struct {
	metric string
	rows   []expRow
}

func refMetric(unit string) string {
	m := map[string]string{"ns/op": "time/op", "ns/GC": "time/GC", "B/op": "alloc/op", "MB/s": "speed"}
	if s, ok := m[unit]; ok {
		return s
	}
	for s, suff := range m {
		if strings.HasSuffix(unit, "-"+s) {
			return strings.TrimSuffix(unit, "-"+s) + "-" + suff
		}
	}
	return unit
}

func exactMean(xs []float64) *big.Rat {
	s := new(big.Rat)
	for _, x := range xs {
		s.Add(s, ratOf(x))
	}
	return s.Quo(s, big.NewRat(int64(len(xs)), 1))
}

func meanOf(xs []float64) float64 {
	s := new(big.Rat)
	for _, x := range xs {
		s.Add(s, ratOf(x))
	}
	f, _ := s.Quo(s, big.NewRat(int64(len(xs)), 1)).Float64()
	return f
}

func (s c17Spec) reference() (tables []expTable, ambiguous bool) {
	alpha := s.Alpha
	if alpha == 0 {
		alpha = 0.05
	}
	groups := []string{""}
	if s.Groups && s.SplitPkg {
		groups = []string{"pkg:" + s.groupNames()[0], "pkg:" + s.groupNames()[1]}
	}
	// first-appearance order of benchmarks per group across configs
	var benches []string
	for ci := 0; ci < s.Configs; ci++ {
		for _, b := range s.Layout[ci] {
			if b == "" {
				continue
			}
			found := false
			for _, x := range benches {
				if x == b {
					found = true
				}
			}
			if !found {
				benches = append(benches, b)
			}
		}
	}
	for ui, unit := range s.Units {
		t := expTable{metric: refMetric(unit)}
		var allRows []expRow
		for gi, g := range groups {
			for _, b := range benches {
				row := expRow{bench: b}
				if len(groups) > 1 {
					row.group = g
				}
				var rvals [][]float64
				for ci := 0; ci < s.Configs; ci++ {
					has := false
					for _, x := range s.Layout[ci] {
						if x == b {
							has = true
						}
					}
					if !has {
						row.cells = append(row.cells, expCell{})
						rvals = append(rvals, nil)
						continue
					}
					vs := s.values(ci, s.benchIndex(b), ui)
					var all []float64
					switch {
					case !s.Groups:
						all = vs
					case s.SplitPkg:
						all = append([]float64{}, vs...)
						if gi == 1 {
							for i := range all {
								all[i] *= 4
							}
						}
					default:
						// both label blocks fall into one key: concatenated
						all = append([]float64{}, vs...)
						for _, v := range vs {
							all = append(all, v*4)
						}
					}
					kept, amb := retained(all)
					ambiguous = ambiguous || amb
					cell := expCell{present: true, n: len(kept), kept: kept}
					cell.min, cell.max = kept[0], kept[0]
					for _, v := range kept {
						cell.min, cell.max = math.Min(cell.min, v), math.Max(cell.max, v)
					}
					cell.mean = meanOf(kept)
					row.cells = append(row.cells, cell)
					rvals = append(rvals, kept)
				}
				allRows = append(allRows, row)
				if s.Configs == 2 {
					if !row.cells[0].present || !row.cells[1].present {
						continue // rows missing one side are not shown in an old/new table
					}
					old, nw := row.cells[0], row.cells[1]
					pval, reason := -1.0, ""
					switch s.Test {
					case "none":
					case "t":
						r, err := stats.TwoSampleWelchTTest(stats.Sample{Xs: rvals[0]}, stats.Sample{Xs: rvals[1]}, stats.LocationDiffers)
						if err != nil {
							reason = errReason(err)
						} else {
							pval = r.P
						}
						// the library's answer is only used for its last bits: when the test applies and what it
						// yields is decided here from the textbook definition (exact means and variances)
						wp, wreason := refWelch(rvals[0], rvals[1])
						if wreason != reason || (reason == "" && !(math.Abs(pval-wp) <= 1e-9*(1+wp))) {
							t.metric += fmt.Sprintf(" [Welch t-test of %v and %v: library gives p=%v %s, textbook p=%v %s]", rvals[0], rvals[1], pval, reason, wp, wreason)
							pval, reason = wp, wreason
						}
					default:
						r, err := stats.MannWhitneyUTest(rvals[0], rvals[1], stats.LocationDiffers)
						if err != nil {
							reason = errReason(err)
						} else {
							pval = r.P
						}
					}
					row.delta = "~"
					switch {
					case reason != "":
						row.note = reason
					case pval < alpha:
						if nw.mean == old.mean {
							row.delta = "0.00%"
						} else {
							pct := (nw.mean/old.mean - 1) * 100
							row.pct = pct
							if om := exactMean(rvals[0]); om.Sign() == 0 {
								// infinite or NaN delta: its place in a delta order is undefined
								if strings.HasSuffix(s.Order, "delta") {
									ambiguous = true
								}
								row.key = new(big.Rat)
							} else {
								ex := new(big.Rat).Quo(exactMean(rvals[1]), om)
								ex.Sub(ex, big.NewRat(1, 1))
								row.key = ex.Abs(ex)
							}
							row.delta = fmt.Sprintf("%+.2f%%", pct)
							higherBetter := t.metric == "speed"
							if (pct > 0) == higherBetter {
								row.change = 1
							} else {
								row.change = -1
								row.key.Neg(row.key)
							}
						}
					}
					if row.note == "" && s.Test != "none" {
						row.note = fmt.Sprintf("(p=%0.3f n=%d+%d)", pval, old.n, nw.n)
					}
				}
				t.rows = append(t.rows, row)
			}
		}
		if len(t.rows) == 0 {
			continue
		}
		// ordering: stable sort
		less := func(a, b expRow) bool { return false }
		keyOf := func(r expRow) *big.Rat {
			if r.key == nil {
				return new(big.Rat)
			}
			return r.key
		}
		byDelta := func(a, b expRow) bool { return keyOf(a).Cmp(keyOf(b)) < 0 }
		switch s.Order {
		case "name":
			less = func(a, b expRow) bool { return a.bench < b.bench }
		case "rname":
			less = func(a, b expRow) bool { return b.bench < a.bench }
		case "delta":
			less = byDelta
		case "rdelta":
			less = func(a, b expRow) bool { return byDelta(b, a) }
		}
		if s.Order != "" {
			stableSort(t.rows, less)
		}
		if s.GeoMean {
			gm := expRow{bench: "[Geo mean]", geomean: true}
			maxCount := 0
			delta := s.Configs == 2
			var gms []float64
			for ci := 0; ci < s.Configs; ci++ {
				// the non-zero means of every benchmark measured in this unit
				// under this configuration (whether or not its row is shown)
				var means []float64
				for _, r := range allRows {
					if r.cells[ci].present && r.cells[ci].mean != 0 {
						means = append(means, r.cells[ci].mean)
					}
				}
				if len(means) > maxCount {
					maxCount = len(means)
				}
				if len(means) == 0 {
					gm.cells = append(gm.cells, expCell{})
					delta = false
					continue
				}
				lg := 0.0
				for _, m := range means {
					lg += math.Log(m)
				}
				g := math.Exp(lg / float64(len(means)))
				gms = append(gms, g)
				gm.cells = append(gm.cells, expCell{present: true, mean: g})
			}
			if maxCount > 1 {
				if delta {
					gm.pct = (gms[1]/gms[0] - 1) * 100
					gm.delta = fmt.Sprintf("%+.2f%%", gm.pct)
				}
				t.rows = append(t.rows, gm)
			}
		}
		tables = append(tables, t)
	}
	return tables, ambiguous
}

func stableSort(rows []expRow, less func(a, b expRow) bool) {
	// insertion sort is stable
	for i := 1; i < len(rows); i++ {
		for j := i; j > 0 && less(rows[j], rows[j-1]); j-- {
			rows[j], rows[j-1] = rows[j-1], rows[j]
		}
	}
}

// refWelch is Welch's two-sample t-test (two-sided) from its definition: it needs at least two values on each side
// and at least one side with spread; the statistic and the degrees of freedom come from exact means and variances.
func refWelch(x1, x2 []float64) (p float64, reason string) {
	if len(x1) <= 1 || len(x2) <= 1 {
		return -1, "(too few samples)"
	}
	ev := func(xs []float64) (mean, variance float64) {
		m := exactMean(xs)
		ss := new(big.Rat)
		for _, x := range xs {
			d := new(big.Rat).Sub(ratOf(x), m)
			ss.Add(ss, d.Mul(d, d))
		}
		ss.Quo(ss, big.NewRat(int64(len(xs)-1), 1))
		mf, _ := m.Float64()
		vf, _ := ss.Float64()
		return mf, vf
	}
	m1, v1 := ev(x1)
	m2, v2 := ev(x2)
	if v1 == 0 && v2 == 0 {
		return -1, "(zero variance)"
	}
	n1, n2 := float64(len(x1)), float64(len(x2))
	a, b := v1/n1, v2/n2
	dof := (a + b) * (a + b) / (a*a/(n1-1) + b*b/(n2-1))
	t := (m1 - m2) / math.Sqrt(a+b)
	return 2 * (1 - stats.TDist{V: dof}.CDF(math.Abs(t))), ""
}

func errReason(err error) string {
	switch err {
	case stats.ErrZeroVariance:
		return "(zero variance)"
	case stats.ErrSampleSize:
		return "(too few samples)"
	case stats.ErrSamplesEqual:
		return "(all equal)"
	}
	return "(" + err.Error() + ")"
}

func (s c17Spec) collection() *Collection {
	c := &Collection{Alpha: s.Alpha, AddGeoMean: s.GeoMean}
	switch s.Test {
	case "u":
		c.DeltaTest = UTest
	case "t":
		c.DeltaTest = TTest
	case "none":
		c.DeltaTest = NoDeltaTest
	}
	switch s.Order {
	case "name":
		c.Order = ByName
	case "rname":
		c.Order = Reverse(ByName)
	case "delta":
		c.Order = ByDelta
	case "rdelta":
		c.Order = Reverse(ByDelta)
	}
	if s.SplitPkg {
		c.SplitBy = []string{"pkg"}
	}
	for ci := 0; ci < s.Configs; ci++ {
		c.AddConfig(fmt.Sprintf("cfg%d", ci), []byte(s.text(ci)))
	}
	return c
}

func relEq(a, b float64) bool {
	if a == b {
		return true
	}
	return math.Abs(a-b) <= 1e-12*math.Max(math.Abs(a), math.Abs(b))
}

func compareTables(got []*Table, want []expTable, s c17Spec) string {
	if len(got) != len(want) {
		return fmt.Sprintf("%d tables, want %d", len(got), len(want))
	}
	for ti, wt := range want {
		gt := got[ti]
		if gt.Metric != wt.metric {
			return fmt.Sprintf("table %d metric %q want %q (tables follow unit order)", ti, gt.Metric, wt.metric)
		}
		if len(gt.Rows) != len(wt.rows) {
			var names []string
			for _, r := range gt.Rows {
				names = append(names, r.Group+"/"+r.Benchmark)
			}
			return fmt.Sprintf("table %s: %d rows %v, want %d", wt.metric, len(gt.Rows), names, len(wt.rows))
		}
		// Rows whose exact sort keys are equal and non-zero may come out in
		// either order: their float keys can differ by rounding noise.
		rows := append([]expRow{}, wt.rows...)
		for ri := range rows {
			gr := gt.Rows[ri]
			if gr.Benchmark == rows[ri].bench && gr.Group == rows[ri].group {
				continue
			}
			swapped := false
			if strings.HasSuffix(s.Order, "delta") && rows[ri].key != nil && rows[ri].key.Sign() != 0 {
				for rj := ri + 1; rj < len(rows); rj++ {
					if rows[rj].key != nil && rows[rj].key.Cmp(rows[ri].key) == 0 && gr.Benchmark == rows[rj].bench && gr.Group == rows[rj].group {
						rows[ri], rows[rj] = rows[rj], rows[ri]
						swapped = true
						break
					}
				}
			}
			if !swapped {
				return fmt.Sprintf("table %s row %d is %q/%q, want %q/%q (row order)", wt.metric, ri, gr.Group, gr.Benchmark, rows[ri].group, rows[ri].bench)
			}
		}
		for ri, wr := range rows {
			gr := gt.Rows[ri]
			if gr.Benchmark != wr.bench || gr.Group != wr.group {
				return fmt.Sprintf("table %s row %d is %q/%q, want %q/%q (row order)", wt.metric, ri, gr.Group, gr.Benchmark, wr.group, wr.bench)
			}
			if len(gr.Metrics) != len(wr.cells) {
				return fmt.Sprintf("table %s row %s: %d cells want %d", wt.metric, wr.bench, len(gr.Metrics), len(wr.cells))
			}
			for ci, wc := range wr.cells {
				gm := gr.Metrics[ci]
				if !wc.present {
					if gm.Unit != "" || len(gm.Values) != 0 {
						return fmt.Sprintf("table %s row %s config %d: expected an empty cell", wt.metric, wr.bench, ci)
					}
					continue
				}
				if wr.geomean {
					if !relEq(gm.Mean, wc.mean) {
						return fmt.Sprintf("table %s geomean of config %d = %v want %v", wt.metric, ci, gm.Mean, wc.mean)
					}
					continue
				}
				// min ≤ mean ≤ max is stated without a tolerance: the mean of retained values never leaves their range
				if len(gm.RValues) > 0 && !(gm.Min <= gm.Mean && gm.Mean <= gm.Max) {
					return fmt.Sprintf("table %s row %s config %d: min=%v mean=%v max=%v are not in order (retained %v)", wt.metric, wr.bench, ci, gm.Min, gm.Mean, gm.Max, gm.RValues)
				}
				if len(gm.RValues) != wc.n || !relEq(gm.Min, wc.min) || !relEq(gm.Max, wc.max) || !relEq(gm.Mean, wc.mean) {
					return fmt.Sprintf("table %s row %s config %d: retained n=%d min=%v mean=%v max=%v, want n=%d min=%v mean=%v max=%v (values %v)", wt.metric, wr.bench, ci, len(gm.RValues), gm.Min, gm.Mean, gm.Max, wc.n, wc.min, wc.mean, wc.max, gm.Values)
				}
				if fmt.Sprint(gm.RValues) != fmt.Sprint(wc.kept) {
					return fmt.Sprintf("table %s row %s config %d: retained values %v, want %v (those within 1.5 IQR, in input order)", wt.metric, wr.bench, ci, gm.RValues, wc.kept)
				}
				if !(gm.Min <= gm.Mean && gm.Mean <= gm.Max) {
					return fmt.Sprintf("table %s row %s: min %v mean %v max %v out of order", wt.metric, wr.bench, gm.Min, gm.Mean, gm.Max)
				}
			}
			if s.Configs == 2 {
				// The delta string is the rendering of the row's own percentage,
				// which must agree with the reference to 1e-12; a percentage that
				// sits on a rounding boundary of %.2f may render either way.
				deltaOK := gr.Delta == wr.delta
				if !deltaOK && strings.HasSuffix(wr.delta, "%") && wr.delta != "0.00%" {
					deltaOK = gr.Delta == fmt.Sprintf("%+.2f%%", gr.PctDelta)
				}
				if !deltaOK || gr.Change != wr.change || !relEq(gr.PctDelta, wr.pct) {
					return fmt.Sprintf("table %s row %s: delta %q change %d pct %v, want %q %d %v (note %q)", wt.metric, wr.bench, gr.Delta, gr.Change, gr.PctDelta, wr.delta, wr.change, wr.pct, gr.Note)
				}
				if gr.Note != wr.note {
					return fmt.Sprintf("table %s row %s: note %q want %q", wt.metric, wr.bench, gr.Note, wr.note)
				}
			}
		}
	}
	return ""
}

func c17Check(s c17Spec) (msg string, ambiguous bool) {
	want, amb := s.reference()
	if amb {
		return "", true
	}
	c := s.collection()
	got := c.Tables()
	if m := compareTables(got, want, s); m != "" {
		return m, false
	}
	// Rendering must not fail and must mention every row.
	var tb, cb bytes.Buffer
	FormatText(&tb, got)
	FormatCSV(&cb, got, false)
	for _, t := range want {
		for _, r := range t.rows {
			if !strings.Contains(tb.String(), r.bench) || !strings.Contains(cb.String(), r.bench) {
				return fmt.Sprintf("rendered output lacks row %q", r.bench), false
			}
		}
	}
	// Asking for the tables again reports the same thing.
	again := c.Tables()
	if m := compareTables(again, want, s); m != "" {
		return "second call of Tables() on the same collection: " + m, false
	}
	return "", false
}

func c17Replay(raw json.RawMessage) string {
	var s c17Spec
	if err := json.Unmarshal(raw, &s); err != nil {
		return err.Error()
	}
	var msg string
	if p := mc.Catch(func() { msg, _ = c17Check(s) }); p != "" {
		return p
	}
	return msg
}

func c17Specs(thorough bool) []c17Spec {
	layouts := [][][]string{
		{{"A"}, {"A"}, {"A"}},
		{{"A", "B"}, {"A", "B"}, {"B", "A"}},
		{{"B", "A"}, {"A", "B"}, {"A"}},
		{{"A", "B", "C"}, {"A", "C"}, {"C", "B", "A"}},
		{{"C", "A"}, {"A", "B", "C"}, {"B"}},
	}
	unitSets := [][]string{{"ns/op"}, {"MB/s"}, {"ns/op", "B/op"}, {"x-ns/op", "MB/s"}, {"x-MB/s", "widgets"}}
	shifts := [][]float64{{1, 1, 1}, {1, 1.25, 2}, {1, 0.5, 0.75}, {2, 1, 1}}
	pats := c17PatternNames
	if !thorough {
		pats = []string{"single", "constant", "zeros", "incr", "outlier", "ten", "ties", "midout"}
	}
	var specs []c17Spec
	for _, lay := range layouts {
		for ui, us := range unitSets {
			for _, nc := range []int{1, 2, 3} {
				for _, p0 := range pats {
					for _, p1 := range pats {
						if nc == 1 && p1 != pats[0] {
							continue
						}
						for si, sh := range shifts {
							if !thorough && (si+ui)%2 == 1 && nc != 2 {
								continue
							}
							base := c17Spec{Configs: nc, Layout: lay[:nc], Units: us, Pats: []string{p0, p1, p0}[:nc], Shift: sh[:nc]}
							specs = append(specs, base)
						}
					}
				}
			}
		}
	}
	// group labels and sub-benchmark names that contain the separator of the other: the pairs (enc, A/B) and
	// (enc/A, B) — and (p, C/x) and (p/C, x) — are different keys that read the same when joined with '/'
	for _, lay := range [][][]string{
		{{"A/B", "B"}, {"A/B", "B"}, {"B", "A/B"}},
		{{"B", "A/B", "C"}, {"A/B", "B"}, {"C"}},
	} {
		for _, gn := range [][]string{{"enc", "enc/A"}, {"enc/A", "enc"}} {
			for _, us := range unitSets[:3] {
				for _, nc := range []int{1, 2, 3} {
					for _, pp := range [][2]string{{"incr", "incr"}, {"ten", "outlier"}, {"single", "constant"}} {
						specs = append(specs, c17Spec{Configs: nc, Layout: lay[:nc], Units: us, Pats: []string{pp[0], pp[1], pp[0]}[:nc], Shift: shifts[1][:nc], GroupNames: gn})
					}
				}
			}
		}
	}
	return specs
}

type c17Setting struct {
	Test          string
	Alpha         float64
	Order         string
	Geo, Grp, Spl bool
}

func c17Settings(thorough bool) []c17Setting {
	var out []c17Setting
	for _, t := range []string{"default", "u", "t", "none"} {
		for _, a := range []float64{0, 0.05, 0.5, 1} {
			for _, o := range []string{"", "name", "delta", "rname", "rdelta"} {
				for _, g := range []bool{false, true} {
					for _, grp := range [][2]bool{{false, false}, {true, true}, {true, false}} {
						out = append(out, c17Setting{t, a, o, g, grp[0], grp[1]})
					}
				}
			}
		}
	}
	if thorough {
		return out
	}
	// quick: every value of every setting appears, in a covering subset
	var q []c17Setting
	for i, s := range out {
		if i%19 == 0 || (s.Test == "default" && s.Order == "" && !s.Grp && !s.Geo) {
			q = append(q, s)
		}
	}
	return q
}

func c17Tables(c *mc.Check) {
	specs := c17Specs(c.Thorough())
	settings := c17Settings(c.Thorough())
	f := c.Family("collections-x-settings", fmt.Sprintf("%d collections (1–3 configurations × 5 benchmark layouts with repeats, gaps and different orders × 5 unit sets incl. MB/s, x-MB/s and x-ns/op × pairs of value patterns %v × 4 scalings) × %d settings (test ∈ {default,U,T,none} × alpha ∈ {0→0.05, 0.05, 0.5, 1} × order ∈ {none, name, delta, reversed} × geomean × grouping): per key the retained values = those within 1.5 IQR of the exact R8 quartiles in input order, min ≤ mean ≤ max of those; delta shown ⇔ p < alpha, = (new/old−1)·100, direction by metric (only speed ⇒ higher is better), '~' + reason or p and retained sizes otherwise; tables in unit order, rows in first-appearance order or stably sorted; geomean over non-zero means; Tables() twice reports the same; non-trivial = collections with ≥2 configurations", len(specs), c17PatternNames, len(settings)), c17Replay)
	if c.Replaying() {
		return
	}
	f.Bounds["collections"] = len(specs)
	f.Bounds["settings"] = len(settings)
	done := mc.ParRange(uint64(len(specs)), 4, c.TimeUp, func(w int, lo, hi uint64) {
		l := f.Local()
		for i := lo; i < hi; i++ {
			for _, st := range settings {
				s := specs[i]
				s.Test, s.Alpha, s.Order, s.GeoMean, s.Groups, s.SplitPkg = st.Test, st.Alpha, st.Order, st.Geo, st.Grp, st.Spl
				var msg string
				var amb bool
				if p := mc.Catch(func() { msg, amb = c17Check(s) }); p != "" {
					msg = p
				}
				l.Evals++
				if s.Configs >= 2 {
					l.Nontrivial++
				}
				switch {
				case amb:
					l.Outcome("skipped: a value within 1e-12 of an outlier fence, or an infinite delta under a delta order")
				case msg == "":
					l.Outcome(fmt.Sprintf("configs=%d ok", s.Configs))
				}
				if msg != "" {
					sig := "legacy-table"
					if strings.HasPrefix(msg, "second call of Tables()") {
						sig = "tables-twice"
					}
					c.Fail(f, sig, s, msg)
				}
			}
		}
		l.Flush()
	})
	if done < uint64(len(specs)) {
		f.Capped(fmt.Sprintf("time cap: %d of %d collections", done, len(specs)))
	}
	f.Sample(specs[len(specs)/3])
	f.Done()
}

// ---- large tables: sort stability beyond the size at which sort.Slice still happens to be stable ----

func c17LargeSpecs(thorough bool) []c17Spec {
	sizes := []int{13, 16, 20}
	if thorough {
		sizes = []int{12, 13, 14, 15, 16, 17, 20, 23, 26}
	}
	var specs []c17Spec
	for _, n := range sizes {
		names := make([]string, n)
		for i := range names {
			names[i] = string(rune('A' + i))
		}
		step := 7
		if n%7 == 0 {
			step = 5
		}
		scr := make([]string, n)
		rev := make([]string, n)
		for i := range names {
			scr[i] = names[(i*step+3)%n]
			rev[i] = names[n-1-i]
		}
		for _, lay := range [][][]string{{scr, rev}, {rev, scr}, {names, scr}} {
			for _, pp := range [][2]string{{"single", "single"}, {"incr", "incr"}, {"constant", "incr"}, {"ties", "two"}, {"flatstray", "flatstray"}, {"flatboth", "constant"}, {"incr", "flatboth"}, {"const3", "const10"}, {"const7", "const7"}} {
				for _, sh := range [][]float64{{1, 1}, {1, 1.25}} {
					if strings.HasPrefix(pp[0], "const") && pp[0] != "constant" && sh[1] != 1 {
						continue // non-dyadic values: equal deltas would differ by rounding noise between rows
					}
					specs = append(specs, c17Spec{Configs: 2, Layout: lay, Units: []string{"ns/op"}, Pats: pp[:], Shift: sh})
				}
			}
		}
	}
	// lines of one benchmark whose unit columns change from one repetition to the next
	for _, lay := range [][][]string{{{"A"}, {"A"}}, {{"A", "B"}, {"B", "A"}}} {
		for _, us := range [][]string{{"ns/op", "B/op"}, {"ns/op", "MB/s", "B/op"}, {"x-ns/op", "widgets", "MB/s"}} {
			for _, pp := range [][2]string{{"incr", "incr"}, {"ties", "two"}} {
				specs = append(specs, c17Spec{Configs: 2, Layout: lay, Units: us, Pats: pp[:], Shift: []float64{1, 1.25}, AltUnits: true})
			}
		}
	}
	return specs
}

func c17Large(c *mc.Check) {
	specs := c17LargeSpecs(c.Thorough())
	var settings []c17Setting
	for _, t := range []string{"default", "none"} {
		for _, o := range []string{"", "name", "delta", "rname", "rdelta"} {
			for _, grp := range [][2]bool{{false, false}, {true, true}, {true, false}} {
				settings = append(settings, c17Setting{t, 0.05, o, false, grp[0], grp[1]})
			}
		}
	}
	f := c.Family("large-tables", fmt.Sprintf("%d collections of two configurations with 12–26 benchmarks in scrambled and reversed orders (all rows insignificant so that every row ties under a delta order; equal deltas; the same names in two groups so that rows tie under a name order), and collections whose lines report their units in a different column order from one repetition to the next, × %d settings (test × every order × grouping): same oracle as collections-x-settings — rows with equal sort keys keep their first-appearance order, which an unstable sort only happens to do for small tables; non-trivial = every collection", len(specs), len(settings)), c17Replay)
	if c.Replaying() {
		return
	}
	f.Bounds["collections"] = len(specs)
	f.Bounds["settings"] = len(settings)
	mc.ParRange(uint64(len(specs)), 1, c.TimeUp, func(w int, lo, hi uint64) {
		l := f.Local()
		for i := lo; i < hi; i++ {
			for _, st := range settings {
				s := specs[i]
				s.Test, s.Alpha, s.Order, s.GeoMean, s.Groups, s.SplitPkg = st.Test, st.Alpha, st.Order, st.Geo, st.Grp, st.Spl
				if strings.HasPrefix(s.Pats[0], "const") && s.Pats[0] != "constant" && s.Groups && !s.SplitPkg {
					// two blocks merged into one sample: the sample is no longer constant, and the float means of
					// the two configurations (3 and 10 repetitions of non-dyadic values) differ by rounding noise
					continue
				}
				var msg string
				var amb bool
				if p := mc.Catch(func() { msg, amb = c17Check(s) }); p != "" {
					msg = p
				}
				l.Evals++
				l.Nontrivial++
				switch {
				case amb:
					l.Outcome("skipped: ambiguous")
				case msg == "":
					l.Outcome(fmt.Sprintf("rows=%d order=%q ok", len(s.Layout[0]), s.Order))
				}
				if msg != "" {
					c.Fail(f, "legacy-table", s, msg)
				}
			}
		}
		l.Flush()
	})
	f.Sample(specs[0])
	f.Done()
}

// ---- histories: results added and tables requested in any order ----

var c17HistOps = []string{"a0", "a1", "a2", "b0", "b1", "T"}

func c17Block(op string) (cfg, bench string, vals []float64) {
	switch op {
	case "a0":
		return "a", "A", []float64{10, 11, 12, 13, 14}
	case "a1":
		return "a", "A", []float64{200, 201, 202, 203, 204, 205, 206}
	case "a2":
		return "a", "B", []float64{7, 8, 9}
	case "b0":
		return "b", "A", []float64{20, 21, 22, 23, 24}
	case "b1":
		return "b", "A", []float64{18, 19}
	}
	return "", "", nil
}

func c17CheckHistory(ops []string) string {
	c := &Collection{}
	var configs, benches []string
	vals := map[[2]string][]float64{}
	for step, op := range ops {
		if op != "T" {
			cfg, bench, vs := c17Block(op)
			var b strings.Builder
			for _, v := range vs {
				fmt.Fprintf(&b, "Benchmark%s 1 %v ns/op\n", bench, v)
			}
			c.AddConfig(cfg, []byte(b.String()))
			configs = append(configs, cfg)
			found := false
			for _, x := range benches {
				if x == bench {
					found = true
				}
			}
			if !found {
				benches = append(benches, bench)
			}
			k := [2]string{cfg, bench}
			vals[k] = append(vals[k], vs...)
			continue
		}
		if len(configs) == 0 {
			continue
		}
		// reference for the state reached so far
		t := expTable{metric: "time/op"}
		for _, bench := range benches {
			row := expRow{bench: bench}
			var rv [][]float64
			for _, cfg := range configs {
				all, ok := vals[[2]string{cfg, bench}]
				if !ok {
					row.cells = append(row.cells, expCell{})
					rv = append(rv, nil)
					continue
				}
				kept, amb := retained(all)
				if amb {
					return ""
				}
				cell := expCell{present: true, n: len(kept), kept: kept}
				cell.min, cell.max = kept[0], kept[0]
				for _, v := range kept {
					cell.min, cell.max = math.Min(cell.min, v), math.Max(cell.max, v)
				}
				cell.mean = meanOf(kept)
				row.cells = append(row.cells, cell)
				rv = append(rv, kept)
			}
			if len(configs) == 2 {
				if !row.cells[0].present || !row.cells[1].present {
					continue
				}
				row.delta = "~"
				r, err := stats.MannWhitneyUTest(rv[0], rv[1], stats.LocationDiffers)
				if err != nil {
					row.note = errReason(err)
				} else {
					if r.P < 0.05 {
						if row.cells[1].mean == row.cells[0].mean {
							row.delta = "0.00%"
						} else {
							row.pct = (row.cells[1].mean/row.cells[0].mean - 1) * 100
							row.delta = fmt.Sprintf("%+.2f%%", row.pct)
							row.change = 1
							if row.pct > 0 {
								row.change = -1
							}
						}
					}
					row.note = fmt.Sprintf("(p=%0.3f n=%d+%d)", r.P, row.cells[0].n, row.cells[1].n)
				}
			}
			t.rows = append(t.rows, row)
		}
		want := []expTable{t}
		if len(t.rows) == 0 {
			want = nil
		}
		if m := compareTables(c.Tables(), want, c17Spec{Configs: len(configs)}); m != "" {
			return fmt.Sprintf("Tables() after step %d of %v: %s", step, ops, m)
		}
	}
	return ""
}

func c17Histories(c *mc.Check, depth int) {
	replay := func(raw json.RawMessage) string {
		var ops []string
		json.Unmarshal(raw, &ops)
		var msg string
		if p := mc.Catch(func() { msg = c17CheckHistory(ops) }); p != "" {
			return p
		}
		return msg
	}
	f := c.Family("add-and-ask-histories", fmt.Sprintf("every sequence of ≤%d operations from {add more values for an existing key, add a new benchmark, add to a second configuration, ask for Tables()} on one collection: every Tables() answer equals the reference computed from everything added so far (retained values, means, delta, p and sizes), whatever was asked before; non-trivial = sequences with a Tables() call followed by an addition and another Tables() call", depth), replay)
	if c.Replaying() {
		return
	}
	en := mc.NewStrings(c17HistOps, depth)
	mc.ParRange(en.Total(), 64, c.TimeUp, func(w int, lo, hi uint64) {
		l := f.Local()
		var sym []int
		for i := max(lo, 1); i < hi; i++ {
			sym = en.Symbols(i, sym)
			ops := make([]string, len(sym))
			for j, k := range sym {
				ops[j] = c17HistOps[k]
			}
			if ops[len(ops)-1] != "T" {
				continue
			}
			var msg string
			if p := mc.Catch(func() { msg = c17CheckHistory(ops) }); p != "" {
				msg = p
			}
			l.Evals++
			seenT, addAfter := false, false
			for _, o := range ops[:len(ops)-1] {
				if o == "T" {
					seenT = true
				} else if seenT {
					addAfter = true
				}
			}
			if addAfter {
				l.Nontrivial++
				l.Outcome("ask-add-ask")
			} else {
				l.Outcome("plain")
			}
			if msg != "" {
				c.Fail(f, "history", ops, msg)
			}
		}
		l.Flush()
	})
	f.Sample([]string{"a0", "T", "a1", "T"})
	f.Done()
}

func TestVerifC17(t *testing.T) {
	c := mc.NewCheck("C17")
	c.Assume("p-values of the chosen test come from internal/stats (checked by C11/C12) on the retained values computed by the reference")
	c.Assume("values within 1e-12 (relative) of an outlier fence are skipped: floating-point rounding of the fence legitimately decides them either way")
	c17Tables(c)
	c17Large(c)
	c17Histories(c, mc.Pick(c, 5, 6))
	mc.FirstCalls(c, c17Calls, "TestVerifC17Fresh", "VERIF_C17_CALLS")
	if code := c.Finish(); code != 0 {
		os.Exit(code)
	}
}
