//go:build verif

package benchunit

import (
	"encoding/json"
	"fmt"
	"math"
	"math/big"
	"os"
	"sort"
	"strconv"
	"strings"
	"testing"

	mc "golang.org/x/perf/internal/verifmc"
	ref "golang.org/x/perf/internal/verifref"
)

// ---- C10: scaled numbers keep at least three significant digits, correctly rounded ----

type prefixDef struct {
	name string
	f    *big.Rat
}

func pow(b, e int64) *big.Rat {
	if e >= 0 {
		return new(big.Rat).SetInt(new(big.Int).Exp(big.NewInt(b), big.NewInt(e), nil))
	}
	return new(big.Rat).SetFrac(big.NewInt(1), new(big.Int).Exp(big.NewInt(b), big.NewInt(-e), nil))
}

// Prefix tables, largest first, written from the SI / IEC definitions.
var siPrefixes = []prefixDef{{"T", pow(10, 12)}, {"G", pow(10, 9)}, {"M", pow(10, 6)}, {"k", pow(10, 3)}, {"", pow(10, 0)}, {"m", pow(10, -3)}, {"µ", pow(10, -6)}, {"n", pow(10, -9)}}
var iecPrefixes = []prefixDef{{"Ti", pow(2, 40)}, {"Gi", pow(2, 30)}, {"Mi", pow(2, 20)}, {"Ki", pow(2, 10)}, {"", pow(2, 0)}}

func prefixesOf(cls Class) []prefixDef {
	if cls == Binary {
		return iecPrefixes
	}
	return siPrefixes
}

type scaled struct {
	mant    *big.Rat
	digits  string // mantissa digits without sign and point
	intLen  int
	prec    int
	prefix  int // index into the class's table
	sigfigs int
}

// parseScaled splits "-12.34k" into its parts.
func parseScaled(s string, cls Class) (scaled, string) {
	var out scaled
	t := strings.TrimPrefix(s, "-")
	i := 0
	for i < len(t) && (t[i] == '.' || (t[i] >= '0' && t[i] <= '9')) {
		i++
	}
	num, pre := t[:i], t[i:]
	out.prefix = -1
	for pi, p := range prefixesOf(cls) {
		if p.name == pre {
			out.prefix = pi
		}
	}
	if out.prefix < 0 {
		return out, fmt.Sprintf("unknown prefix %q in %q", pre, s)
	}
	ip, fp, _ := strings.Cut(num, ".")
	if ip == "" {
		return out, fmt.Sprintf("no integer part in %q", s)
	}
	out.intLen = len(ip)
	out.prec = len(fp)
	out.digits = ip + fp
	m, ok := new(big.Rat).SetString(num)
	if !ok {
		return out, fmt.Sprintf("cannot parse mantissa of %q", s)
	}
	out.mant = m
	d := strings.TrimLeft(out.digits, "0")
	out.sigfigs = len(d)
	return out, ""
}

var tolerance = new(big.Rat).SetFrac(big.NewInt(1), new(big.Int).Lsh(big.NewInt(1), 50))

// checkScale checks one value; it returns the parsed output too.
func checkScale(v float64, cls Class) (scaled, string) {
	sc := CommonScale([]float64{v}, cls)
	s := sc.Format(v)
	if s2 := Scale(v, cls); s2 != s {
		return scaled{}, fmt.Sprintf("Scale(%v) = %q but CommonScale(..).Format = %q", v, s2, s)
	}
	ps, msg := parseScaled(s, cls)
	if msg != "" {
		return ps, msg
	}
	if (v < 0) != strings.HasPrefix(s, "-") && v != 0 {
		if !(strings.Trim(s, "-0.") == prefixesOf(cls)[ps.prefix].name) { // "-0.000" is fine for tiny negatives
			return ps, fmt.Sprintf("sign of %q does not match %v", s, v)
		}
	}
	pfx := prefixesOf(cls)
	F := pfx[ps.prefix].f
	if ps.prec != sc.Prec {
		return ps, fmt.Sprintf("%q has %d decimals, Scaler.Prec = %d", s, ps.prec, sc.Prec)
	}
	// mantissa × factor equals the value to within half a unit of the last
	// printed digit (plus 2^-50 relative for the floating-point division).
	av := new(big.Rat).SetFloat64(math.Abs(v))
	diff := new(big.Rat).Mul(ps.mant, F)
	diff.Sub(diff, av)
	diff.Abs(diff)
	half := new(big.Rat).Mul(F, pow(10, int64(-ps.prec)))
	half.Quo(half, big.NewRat(2, 1))
	allowed := new(big.Rat).Add(half, new(big.Rat).Mul(av, tolerance))
	if diff.Cmp(allowed) > 0 {
		return ps, fmt.Sprintf("Scale(%v,%v) = %q is off by more than half a unit of its last digit", v, cls, s)
	}
	if v == 0 {
		return ps, ""
	}
	one := big.NewRat(1, 1)
	limit := big.NewRat(1000, 1)
	if cls == Binary {
		limit = big.NewRat(1024, 1)
	}
	if ps.mant.Cmp(one) >= 0 {
		// A prefix in range exists.
		if cls == Decimal && ps.sigfigs != 4 && !(ps.prefix == 0 && ps.mant.Cmp(limit) >= 0) {
			return ps, fmt.Sprintf("Scale(%v,Decimal) = %q has %d significant digits, want exactly 4", v, s, ps.sigfigs)
		}
		if cls == Binary && ps.sigfigs < 4 {
			return ps, fmt.Sprintf("Scale(%v,Binary) = %q has %d significant digits, want at least 4", v, s, ps.sigfigs)
		}
		if ps.mant.Cmp(limit) >= 0 && ps.prefix != 0 {
			return ps, fmt.Sprintf("Scale(%v,%v) = %q: mantissa not below %v although a larger prefix exists", v, cls, s, limit)
		}
	} else {
		if ps.prefix != len(pfx)-1 {
			return ps, fmt.Sprintf("Scale(%v,%v) = %q: mantissa below 1 although a smaller prefix exists", v, cls, s)
		}
		small := new(big.Rat).Mul(pfx[len(pfx)-1].f, pow(10, -8))
		if av.Cmp(small) >= 0 && ps.sigfigs < 3 {
			return ps, fmt.Sprintf("Scale(%v,%v) = %q has only %d significant digits", v, cls, s, ps.sigfigs)
		}
	}
	return ps, ""
}

type c10Case struct {
	V     string // hex float
	Class string
}

func clsOf(s string) Class {
	if s == "Binary" {
		return Binary
	}
	return Decimal
}

func c10Replay(raw json.RawMessage) string {
	var cs c10Case
	if err := json.Unmarshal(raw, &cs); err != nil {
		return err.Error()
	}
	v, err := strconv.ParseFloat(cs.V, 64)
	if err != nil {
		return err.Error()
	}
	var msg string
	if p := mc.Catch(func() { _, msg = checkScale(v, clsOf(cs.Class)) }); p != "" {
		return p
	}
	return msg
}

func hexf(v float64) string { return strconv.FormatFloat(v, 'x', -1, 64) }

// thresholds returns every value at which the output format changes, for a
// class: 99.995, 9.9995 and .99995 of every prefix, 1000 (1024) of every
// prefix, and the precision thresholds below the smallest prefix.
func thresholds(cls Class) []float64 {
	var out []float64
	for _, p := range prefixesOf(cls) {
		f, _ := p.f.Float64()
		for _, m := range []float64{99.995, 9.9995, .99995, 999.95, 1000, 1, 10, 100, 1023.95, 1024, 1023.9488} {
			out = append(out, m*f)
		}
	}
	last := prefixesOf(cls)
	f, _ := last[len(last)-1].f.Float64()
	for e := -1; e >= -9; e-- {
		out = append(out, 9.9995*math.Pow(10, float64(e))*f, math.Pow(10, float64(e))*f)
	}
	return out
}

func c10Neighbourhoods(c *mc.Check, n int) {
	f := c.Family("threshold-neighbourhoods", fmt.Sprintf("for both unit classes: the %d floats around every format-changing threshold of every prefix (99.995, 9.9995, .99995, 999.95, 1000/1024 × factor, and the precision thresholds below the smallest prefix), both signs; each formatted by the real scaler and checked in exact rationals: |mantissa×factor − value| ≤ half a unit of the last digit (+2^-50 relative), exactly 4 (binary: ≥4) significant digits and mantissa below 1000 (1024) whenever a prefix is in range, ≥3 significant digits down to 1e-8 of the smallest prefix, and along each neighbourhood the chosen prefix and the printed value never decrease; non-trivial = every value", 2*n+1), c10Replay)
	if c.Replaying() {
		return
	}
	f.Bounds["ulps_each_side"] = n
	type job struct {
		cls Class
		t   float64
	}
	var jobs []job
	for _, cls := range []Class{Decimal, Binary} {
		for _, t := range thresholds(cls) {
			jobs = append(jobs, job{cls, t})
		}
	}
	f.Bounds["thresholds"] = len(jobs)
	mc.ParRange(uint64(len(jobs)), 1, c.TimeUp, func(w int, lo, hi uint64) {
		l := f.Local()
		for j := lo; j < hi; j++ {
			cls, t := jobs[j].cls, jobs[j].t
			vals := mc.UlpNeighbourhood(t, n)
			var prev scaled
			var prevV *big.Rat
			for i, v := range vals {
				for _, sign := range []float64{1, -1} {
					var ps scaled
					var msg string
					if p := mc.Catch(func() { ps, msg = checkScale(sign*v, cls) }); p != "" {
						msg = p
					}
					l.Evals++
					l.Nontrivial++
					if msg != "" {
						c.Fail(f, "scale", c10Case{hexf(sign * v), cls.String()}, msg)
						continue
					}
					if sign < 0 {
						continue
					}
					l.Outcome(fmt.Sprintf("%v prec=%d prefix=%d", cls, ps.prec, ps.prefix))
					pv := new(big.Rat).Mul(ps.mant, prefixesOf(cls)[ps.prefix].f)
					if i > 0 && prevV != nil {
						if ps.prefix > prev.prefix {
							c.Fail(f, "scale-monotone", c10Case{hexf(v), cls.String()}, fmt.Sprintf("prefix shrinks as the value grows at %v", v))
						}
						if pv.Cmp(prevV) < 0 {
							c.Fail(f, "scale-monotone", c10Case{hexf(v), cls.String()}, fmt.Sprintf("printed value decreases as the value grows at %v", v))
						}
					}
					prev, prevV = ps, pv
				}
			}
		}
		l.Flush()
	})
	f.Sample(c10Case{hexf(999.95e3), "Decimal"})
	f.Sample(c10Case{hexf(1023.9488 * 1024), "Binary"})
	f.Done()
}

func c10Lattice(c *mc.Check, expLo, expHi int) {
	f := c.Family("decimal-lattice", fmt.Sprintf("every 4-significant-digit decimal d.ddd×10^e and every 5-digit tie d.dddd5×10^e-ish value (d.ddd5), e∈%d…%d, each with its two float neighbours, in both classes; same oracle; non-trivial = every value", expLo, expHi), c10Replay)
	if c.Replaying() {
		return
	}
	f.Bounds["exp_lo"], f.Bounds["exp_hi"] = expLo, expHi
	type job struct {
		e int
	}
	n := expHi - expLo + 1
	mc.ParRange(uint64(n*9), 1, c.TimeUp, func(w int, lo, hi uint64) {
		l := f.Local()
		for j := lo; j < hi; j++ {
			e := expLo + int(j)/9
			lead := int(j)%9 + 1
			for m := lead * 1000; m < (lead+1)*1000; m++ {
				for _, tie := range []string{"", "5", "4999", "5001"} {
					s := fmt.Sprintf("%d%se%d", m, tie, e-3-len(tie))
					v0, err := strconv.ParseFloat(s, 64)
					if err != nil {
						continue
					}
					vs := []float64{v0}
					if tie == "" || tie == "5" {
						vs = append(vs, math.Nextafter(v0, 0), math.Nextafter(v0, math.Inf(1)))
					}
					for _, v := range vs {
						for _, cls := range []Class{Decimal, Binary} {
							var msg string
							if p := mc.Catch(func() { _, msg = checkScale(v, cls) }); p != "" {
								msg = p
							}
							l.Evals++
							l.Nontrivial++
							if msg != "" {
								c.Fail(f, "scale", c10Case{hexf(v), cls.String()}, msg)
							}
						}
					}
				}
			}
			l.Outcome(fmt.Sprintf("exp=%d", e))
		}
		l.Flush()
	})
	f.Sample(c10Case{hexf(9.9995e5), "Decimal"})
	f.Done()
}

func c10Common(c *mc.Check) {
	mags := []float64{0, 1e-12, 3e-10, 0.99994e-9, 0.99996e-9, 5e-7, 0.001, 0.5, 0.99995, 1, 9.9994, 9.9995, 99.99, 100, 999.94, 999.95, 1000, 1023.9, 1024, 5e4, 1e6, 1048576, 3e9, 1e12, 999.95e12, 5e15, -2, -3e-7, -1e6, -0.0}
	replay := func(raw json.RawMessage) string {
		var vs []float64
		json.Unmarshal(raw, &vs)
		return c10CheckCommon(vs)
	}
	f := c.Family("common-scale", fmt.Sprintf("every multiset of ≤3 values from %d magnitudes (zeros, negatives, both sides of thresholds): CommonScale equals the scale of the smallest non-zero magnitude alone, in both classes, for every ordering; non-trivial = ≥2 distinct non-zero magnitudes", len(mags)), replay)
	if c.Replaying() {
		return
	}
	for n := 1; n <= 3; n++ {
		mc.Multisets(len(mags), n, func(m []int) {
			vs := make([]float64, n)
			for i, k := range m {
				vs[i] = mags[k]
			}
			msg := ""
			if p := mc.Catch(func() { msg = c10CheckCommon(vs) }); p != "" {
				msg = p
			}
			nz := map[float64]bool{}
			for _, v := range vs {
				if v != 0 {
					nz[math.Abs(v)] = true
				}
			}
			nt := int64(0)
			if len(nz) >= 2 {
				nt = 1
			}
			f.Count(1, nt)
			f.Outcome(fmt.Sprintf("distinct-nonzero=%d", len(nz)), 1)
			if msg != "" {
				c.Fail(f, "common-scale", append([]float64{}, vs...), msg)
			}
		})
	}
	f.Sample([]float64{0, 1e6, -3e-7})
	f.Done()
}

func c10CheckCommon(vs []float64) string {
	min := 0.0
	for _, v := range vs {
		a := math.Abs(v)
		if a != 0 && (min == 0 || a < min) {
			min = a
		}
	}
	for _, cls := range []Class{Decimal, Binary} {
		want := CommonScale([]float64{min}, cls)
		perm := append([]float64{}, vs...)
		for r := 0; r < len(perm); r++ {
			perm = append(perm[1:], perm[0])
			got := CommonScale(perm, cls)
			if got != want {
				return fmt.Sprintf("CommonScale(%v,%v) = %+v, scale of the smallest non-zero magnitude %v is %+v", perm, cls, got, min, want)
			}
		}
		rev := append([]float64{}, vs...)
		sort.Sort(sort.Reverse(sort.Float64Slice(rev)))
		if got := CommonScale(rev, cls); got != want {
			return fmt.Sprintf("CommonScale(%v,%v) = %+v want %+v", rev, cls, got, want)
		}
		if min != 0 {
			if _, msg := checkScale(min, cls); msg != "" {
				return msg
			}
		}
	}
	return ""
}

func c10NoOp(c *mc.Check) {
	replay := func(raw json.RawMessage) string {
		var s string
		json.Unmarshal(raw, &s)
		v, _ := strconv.ParseFloat(s, 64)
		return c10CheckNoOp(v)
	}
	f := c.Family("noop-scale", "NoOpScaler.Format on every power of two 2^e (e∈−1074…1023) and its two neighbours, on every threshold neighbourhood value, and on d·10^e (d∈1..9, e∈−30…30): the output has no prefix, reads back to the same float bit for bit and has the minimal number of significant digits; non-trivial = every value", replay)
	if c.Replaying() {
		return
	}
	var vals []float64
	for e := -1074; e <= 1023; e++ {
		b := math.Ldexp(1, e)
		vals = append(vals, b, math.Nextafter(b, 0), math.Nextafter(b, math.Inf(1)), -b)
	}
	for _, t := range thresholds(Decimal) {
		vals = append(vals, mc.UlpNeighbourhood(t, 3)...)
	}
	for d := 1; d <= 9; d++ {
		for e := -30; e <= 30; e++ {
			v, _ := strconv.ParseFloat(fmt.Sprintf("%de%d", d, e), 64)
			vals = append(vals, v, 0.1*v+v)
		}
	}
	vals = append(vals, 0, math.MaxFloat64, 5e-324)
	for _, v := range vals {
		msg := ""
		if p := mc.Catch(func() { msg = c10CheckNoOp(v) }); p != "" {
			msg = p
		}
		f.Count(1, 1)
		if msg != "" {
			f.Outcome("violation", 1)
			c.Fail(f, "noop", hexf(v), msg)
		} else {
			f.Outcome("roundtrip", 1)
		}
	}
	f.Sample(hexf(0.1))
	f.Done()
}

func c10CheckNoOp(v float64) string {
	s := NoOpScaler.Format(v)
	back, err := strconv.ParseFloat(s, 64)
	if err != nil {
		return fmt.Sprintf("NoOpScaler.Format(%v) = %q does not parse: %v", v, s, err)
	}
	if math.Float64bits(back) != math.Float64bits(v) {
		return fmt.Sprintf("NoOpScaler.Format(%v) = %q reads back as %v", v, s, back)
	}
	digits := func(t string) int {
		t = strings.TrimLeft(t, "-+")
		if i := strings.IndexAny(t, "eE"); i >= 0 {
			t = t[:i]
		}
		t = strings.ReplaceAll(t, ".", "")
		t = strings.Trim(t, "0")
		return len(t)
	}
	if min := digits(strconv.FormatFloat(v, 'e', -1, 64)); digits(s) != min {
		return fmt.Sprintf("NoOpScaler.Format(%v) = %q uses %d significant digits, the shortest round-tripping decimal has %d", v, s, digits(s), min)
	}
	return ""
}

func c10Class(c *mc.Check, maxTok int) {
	toks := []string{"B", "MB", "bytes", "ns", "op", "KB", "b", "/", "*", "-", " ",
		// a multi-byte space is a separator; a letter whose UTF-8 encoding ends in the byte 0xA0 / 0x85 (which are spaces as
		// code points) is part of its word
		"\u2003", "à", "Å"}
	replay := func(raw json.RawMessage) string {
		var u string
		json.Unmarshal(raw, &u)
		_, _, bin := ref.BaseUnit(u)
		if (ClassOf(u) == Binary) != bin {
			return fmt.Sprintf("ClassOf(%q) = %v, bytes in numerator = %v", u, ClassOf(u), bin)
		}
		Tidy(1, u)
		if (ClassOf(u) == Binary) != bin {
			return fmt.Sprintf("after Tidy(1, %q): ClassOf = %v, bytes in numerator = %v", u, ClassOf(u), bin)
		}
		return ""
	}
	f := c.Family("class-of-unit", fmt.Sprintf("every unit of ≤%d tokens from %q: binary exactly when B, MB or bytes is a numerator component (unit model), asked before and after the unit has been through Tidy, and of the tidied spelling; non-trivial = unit mentions bytes somewhere", maxTok, toks), replay)
	if c.Replaying() {
		return
	}
	en := mc.NewStrings(toks, maxTok)
	mc.ParRange(en.Total(), 4096, c.TimeUp, func(w int, lo, hi uint64) {
		l := f.Local()
		var sym []int
		var buf []byte
		for i := lo; i < hi; i++ {
			sym, buf = en.Render(i, sym, buf)
			u := string(buf)
			_, _, bin := ref.BaseUnit(u)
			got := ClassOf(u) == Binary
			l.Evals++
			if strings.Contains(u, "B") || strings.Contains(u, "bytes") {
				l.Nontrivial++
			}
			l.Outcome(fmt.Sprintf("binary=%v", bin))
			if got != bin {
				c.Fail(f, "class", u, fmt.Sprintf("ClassOf(%q) = %v, bytes in numerator = %v", u, ClassOf(u), bin))
			}
			// the class is a function of the unit alone: also after the unit has been through Tidy (every unit a
			// Reader sees has), and for the tidied spelling
			_, tu := Tidy(1, u)
			if again := ClassOf(u) == Binary; again != bin {
				c.Fail(f, "class", u, fmt.Sprintf("after Tidy(1, %q): ClassOf(%q) = %v, bytes in numerator = %v", u, u, ClassOf(u), bin))
			}
			if _, _, tbin := ref.BaseUnit(tu); (ClassOf(tu) == Binary) != tbin {
				c.Fail(f, "class", u, fmt.Sprintf("ClassOf(%q) (the tidied spelling of %q) = %v, bytes in numerator = %v", tu, u, ClassOf(tu), tbin))
			}
		}
		l.Flush()
	})
	f.Sample("ns/B")
	f.Done()
}

func TestVerifC10(t *testing.T) {
	c := mc.NewCheck("C10")
	c.Assume("exhaustive over the stated lattices and ulp-neighbourhoods, not over all float64 values")
	c.Assume("half a unit of the last digit is allowed an extra 2^-50 relative error for the floating-point division by the factor")
	c10Neighbourhoods(c, mc.Pick(c, 1024, 32768))
	c10Lattice(c, mc.Pick(c, -12, -13), mc.Pick(c, 15, 17))
	c10Common(c)
	c10NoOp(c)
	c10Class(c, mc.Pick(c, 5, 6))
	if !c.Sweep() {
		c10Fresh(c)
	}
	if code := c.Finish(); code != 0 {
		os.Exit(code)
	}
}
