//go:build verif

package benchunit

import (
	"fmt"
	"strings"
	"testing"

	mc "golang.org/x/perf/internal/verifmc"
)

// ---- C10: the answer of a call does not depend on what the process did before ----
//
// The scaler works from tables. If any of them is built on first use, the
// first call of a process — and which call that is — becomes part of the
// state. Every call of a small alphabet is made as the FIRST call of a fresh
// process, alone and followed by every other call, and must give what the
// same call gives in this (long-running, fully warmed) process, whose answers
// the other families check against the exact oracle.

func fmtAll(s Scaler, vs ...float64) string {
	var out []string
	for _, v := range vs {
		out = append(out, s.Format(v))
	}
	return strings.Join(out, " ")
}

var c10Calls = []mc.Call{
	{"Scale(0.5,Binary)", func() string { return Scale(0.5, Binary) }},
	{"Scale(0.5,Decimal)", func() string { return Scale(0.5, Decimal) }},
	{"Scale(1536,Binary)", func() string { return Scale(1536, Binary) }},
	{"Scale(1e-12,Decimal)", func() string { return Scale(1e-12, Decimal) }},
	{"Scale(3e-5,Binary)", func() string { return Scale(3e-5, Binary) }},
	{"Scale(0.00099995,Binary)", func() string { return Scale(0.00099995, Binary) }},
	{"CommonScale([0.5 1536 3],Binary)", func() string { return fmtAll(CommonScale([]float64{0.5, 1536, 3}, Binary), 0.5, 1536, 3) }},
	{"CommonScale([1e-12 5],Decimal)", func() string { return fmtAll(CommonScale([]float64{1e-12, 5}, Decimal), 1e-12, 5) }},
	{"CommonScale([0 0],Binary)", func() string { return fmtAll(CommonScale([]float64{0, 0}, Binary), 0) }},
	{"Scale(999.95,Decimal)", func() string { return Scale(999.95, Decimal) }},
	{"Scale(1023.99,Binary)", func() string { return Scale(1023.99, Binary) }},
	{"Scale(-2.5e9,Decimal)", func() string { return Scale(-2.5e9, Decimal) }},
	{"ClassOf(MB/s)", func() string { return fmt.Sprint(ClassOf("MB/s"), ClassOf("ns/op")) }},
	{"NoOpScaler.Format(0.1)", func() string { return NoOpScaler.Format(0.1) }},
	{"Tidy(1,ns/op)", func() string { v, u := Tidy(1, "ns/op"); return fmt.Sprint(v, u) }},
	{"Tidy(3,MB*ns/x)", func() string { v, u := Tidy(3, "MB*ns/x"); return fmt.Sprint(v, u) }},
}

// TestVerifC10Fresh is the body of the fresh process.
func TestVerifC10Fresh(t *testing.T) {
	if !mc.FirstCallsChild(c10Calls, "VERIF_C10_CALLS") {
		t.Skip()
	}
}

func c10Fresh(c *mc.Check) {
	mc.FirstCalls(c, c10Calls, "TestVerifC10Fresh", "VERIF_C10_CALLS")
}
