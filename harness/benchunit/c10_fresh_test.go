//go:build verif

package benchunit

import (
	"encoding/json"
	"fmt"
	"os"
	"strconv"
	"strings"
	"testing"

	mc "golang.org/x/perf/internal/verifmc"
)

// ---- C10: the answer of a call does not depend on what the process did before ----
//
// The scaler works from tables. If any of them is built on first use, the
// first call of a process — and which call that is — becomes part of the
// state. Every call of a small alphabet is made as the FIRST call of a fresh
// process, alone and followed by every other call, and must give what the
// same call gives in this (long-running, fully warmed) process, whose answers
// the other families check against the exact oracle.

type c10Call struct {
	name string
	run  func() string
}

func fmtAll(s Scaler, vs ...float64) string {
	var out []string
	for _, v := range vs {
		out = append(out, s.Format(v))
	}
	return strings.Join(out, " ")
}

var c10Calls = []c10Call{
	{"Scale(0.5,Binary)", func() string { return Scale(0.5, Binary) }},
	{"Scale(0.5,Decimal)", func() string { return Scale(0.5, Decimal) }},
	{"Scale(1536,Binary)", func() string { return Scale(1536, Binary) }},
	{"Scale(1e-12,Decimal)", func() string { return Scale(1e-12, Decimal) }},
	{"Scale(3e-5,Binary)", func() string { return Scale(3e-5, Binary) }},
	{"Scale(0.00099995,Binary)", func() string { return Scale(0.00099995, Binary) }},
	{"CommonScale([0.5 1536 3],Binary)", func() string { return fmtAll(CommonScale([]float64{0.5, 1536, 3}, Binary), 0.5, 1536, 3) }},
	{"CommonScale([1e-12 5],Decimal)", func() string { return fmtAll(CommonScale([]float64{1e-12, 5}, Decimal), 1e-12, 5) }},
	{"CommonScale([0 0],Binary)", func() string { return fmtAll(CommonScale([]float64{0, 0}, Binary), 0) }},
	{"Scale(999.95,Decimal)", func() string { return Scale(999.95, Decimal) }},
	{"Scale(1023.99,Binary)", func() string { return Scale(1023.99, Binary) }},
	{"Scale(-2.5e9,Decimal)", func() string { return Scale(-2.5e9, Decimal) }},
	{"ClassOf(MB/s)", func() string { return fmt.Sprint(ClassOf("MB/s"), ClassOf("ns/op")) }},
	{"NoOpScaler.Format(0.1)", func() string { return NoOpScaler.Format(0.1) }},
	{"Tidy(1,ns/op)", func() string { v, u := Tidy(1, "ns/op"); return fmt.Sprint(v, u) }},
	{"Tidy(3,MB*ns/x)", func() string { v, u := Tidy(3, "MB*ns/x"); return fmt.Sprint(v, u) }},
}

// TestVerifC10Fresh is the body of the fresh process.
func TestVerifC10Fresh(t *testing.T) {
	spec := os.Getenv("VERIF_C10_CALLS")
	if spec == "" {
		t.Skip()
	}
	var out []string
	for _, s := range strings.Split(spec, ",") {
		i, _ := strconv.Atoi(s)
		var r string
		if p := mc.Catch(func() { r = c10Calls[i].run() }); p != "" {
			r = "panic: " + strings.SplitN(p, "\n", 2)[0]
		}
		out = append(out, r)
	}
	mc.FreshPrint(strings.Join(out, "\x01"))
}

func c10CheckFresh(seq []int, warm []string) string {
	var spec []string
	for _, i := range seq {
		spec = append(spec, strconv.Itoa(i))
	}
	got, err := mc.FreshExec("TestVerifC10Fresh", "VERIF_C10_CALLS="+strings.Join(spec, ","))
	if err != nil {
		return err.Error()
	}
	parts := strings.Split(got, "\x01")
	if len(parts) != len(seq) {
		return fmt.Sprintf("fresh process answered %d of %d calls", len(parts), len(seq))
	}
	for k, i := range seq {
		if parts[k] != warm[i] {
			var before []string
			for _, j := range seq[:k] {
				before = append(before, c10Calls[j].name)
			}
			return fmt.Sprintf("%s = %q as call %d of a fresh process (after %v), but %q in a process that has used the package before", c10Calls[i].name, parts[k], k+1, before, warm[i])
		}
	}
	return ""
}

func c10Fresh(c *mc.Check) {
	warm := make([]string, len(c10Calls))
	for i, cl := range c10Calls {
		warm[i] = cl.run()
	}
	replay := func(raw json.RawMessage) string {
		var seq []int
		if err := json.Unmarshal(raw, &seq); err != nil {
			return err.Error()
		}
		return c10CheckFresh(seq, warm)
	}
	var names []string
	for _, cl := range c10Calls {
		names = append(names, cl.name)
	}
	f := c.Family("first-calls-of-a-fresh-process", fmt.Sprintf("every call of %v as the FIRST call of a new process (the test binary re-executed), alone and followed by every other call (all ordered pairs): each answer equals the answer of the same call in the long-running process, whose answers the other families check against the exact oracle — so tables built on first use, by whichever entry point comes first, cannot change a result; non-trivial = pairs", names), replay)
	if c.Replaying() {
		return
	}
	var seqs [][]int
	for i := range c10Calls {
		seqs = append(seqs, []int{i})
	}
	for i := range c10Calls {
		for j := range c10Calls {
			if i != j {
				seqs = append(seqs, []int{i, j})
			}
		}
	}
	f.Bounds["calls"] = len(c10Calls)
	f.Bounds["fresh_processes"] = len(seqs)
	done := mc.ParRange(uint64(len(seqs)), 1, c.TimeUp, func(w int, lo, hi uint64) {
		l := f.Local()
		for k := lo; k < hi; k++ {
			msg := c10CheckFresh(seqs[k], warm)
			l.Evals++
			if len(seqs[k]) > 1 {
				l.Nontrivial++
			}
			if msg != "" {
				l.Outcome("differs")
				c.Fail(f, "fresh-process", seqs[k], msg)
			} else {
				l.Outcome("same as warm")
			}
		}
		l.Flush()
	})
	if done < uint64(len(seqs)) {
		f.Capped(fmt.Sprintf("time cap: %d of %d processes", done, len(seqs)))
	}
	f.Sample([]int{0, 1})
	f.Done()
}
