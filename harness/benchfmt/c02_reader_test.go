//go:build verif

package benchfmt

import (
	"bytes"
	"encoding/json"
	"fmt"
	"io"
	"os"
	"path/filepath"
	"strings"
	"testing"
	"time"

	mc "golang.org/x/perf/internal/verifmc"
	ref "golang.org/x/perf/internal/verifref"
)

// ---- C02: the reader follows the format on every input ----

// coreLines is the alphabet whose state space is run to its fixpoint: set,
// change, delete and re-add on three keys (slot reuse and swap-delete),
// benchmark lines with and without rescaled units, unit metadata (new,
// duplicate via the base unit, conflicting), foreign lines, and a file
// boundary (Reset of the same Reader).
var c02Core = []string{
	"a: v",
	"a: w",
	"a:",
	"b: v",
	"b:",
	"c: long-value",
	"c:",
	"BenchmarkX 1 1 u",
	"BenchmarkY/k=1-4 2 3 ns/op 4 MB/s",
	"BenchmarkX",
	"BenchmarkX 1",
	"Unit ns/op better=lower",
	"Unit sec/op better=lower assume=exact",
	"Unit ns/op better=higher",
	"PASS",
	"",
	"\x00RESET",
}

var c02Full = append(append([]string{}, c02Core...),
	"a:\tv",
	"a:  ",
	"a: x y ",
	"é: v",
	"key:value",
	"Key: v",
	"a b: v",
	"a\xff: v",
	"\xffa: v",
	"ü: é",
	"a: v\r",
	"Benchmark",
	"Benchmark 1 1 u",
	"BenchmarkX x 1 u",
	"BenchmarkX 1 1",
	"BenchmarkX 1 x u",
	"BenchmarkX\u00a01\u20031\u00a0u",
	"BenchmarkX 99999999999999999999 1 u",
	"BenchmarkX 1 1 u 2 v 3 w",
	"BenchmarkX 1 NaN u -1e-320 v",
	"BenchmarkX 1 0 ns/op +Inf MB/s -0 ns/op",
	"BenchmarkX 9223372036854775807 9223372036854775808 u 9999999999999999999 v 203.18687664732286 w",
	"BenchmarkX\t1\t1\tu\t",
	"Unit",
	"Unit u",
	"Unit u k",
	"Unit u =v k=v",
	"Unit u k=v j=w",
	"Unit u k=x",
	"Unitx u k=v",
	"U",
	" a: v",
	"ok  \tpkg\t1s",
)

const c02Probe = "BenchmarkProbe-8 7 5 ns/op 6 B/op"

// phased delivers a sequence of texts; each text is handed out in one Read
// call, and before a text is handed out the hook for that phase runs. The
// hook for the last phase therefore runs when the Reader has consumed every
// line of the earlier phases and drained its queue — the canonical point at
// which the state key is taken.
type phased struct {
	texts [][]byte
	hooks []func()
	i     int
}

func (p *phased) Read(b []byte) (int, error) {
	for p.i < len(p.texts) {
		if p.hooks[p.i] != nil {
			p.hooks[p.i]()
			p.hooks[p.i] = nil
		}
		if len(p.texts[p.i]) == 0 {
			p.i++
			continue
		}
		n := copy(b, p.texts[p.i])
		p.texts[p.i] = p.texts[p.i][n:]
		if len(p.texts[p.i]) == 0 {
			p.i++
		}
		return n, nil
	}
	return 0, io.EOF
}

type cloneRec struct {
	cl   *Result
	dump string
}

// c02Run replays a history of lines (with file boundaries) on one real
// Reader and the reference model in lock step. It returns the state key and
// a violation message.
func c02Run(lines []string, canon *mc.Canon, fullCompare bool) (key string, fail string) {
	// Split into files at the RESET marker.
	files := [][]string{nil}
	for _, l := range lines {
		if l == "\x00RESET" {
			files = append(files, nil)
			continue
		}
		files[len(files)-1] = append(files[len(files)-1], l)
	}
	model := ref.NewFmtModel()
	var rd Reader
	var clones []cloneRec
	ccanon := &mc.Canon{}
	for fi, fl := range files {
		last := fi == len(files)-1
		text := []byte{}
		for _, l := range fl {
			text = append(text, l...)
			text = append(text, '\n')
		}
		// Even files carry a tool label that no file key can collide with;
		// odd files additionally carry the label a=v, which the file lines
		// "a: v" (restating it exactly), "a: w" and "a:" then take over.
		labels := []string{".tool", "T"}
		if fi%2 == 1 {
			labels = []string{".tool", "U", ".x", "1", "a", "v"}
		}
		model.Reset(labels...)
		// Records produced by lines before the last op of the history were
		// compared when that shorter history was itself a transition (BFS
		// expands only checked histories); they are still cloned so that the
		// clone invariant covers them.
		var want []ref.Rec
		checked := 0
		if last && !fullCompare && len(fl) > 0 {
			nl := bytes.LastIndexByte(text[:len(text)-1], '\n') + 1
			want = model.Feed(text[:nl])
			checked = len(want)
			want = append(want, model.Feed(text[nl:])...)
		} else {
			want = model.Feed(text)
			if !last && !fullCompare {
				checked = len(want)
			}
		}
		src := &phased{texts: [][]byte{text}, hooks: []func(){nil}}
		if last {
			// Take the key once the text is consumed, then feed the probe.
			src.texts = append(src.texts, []byte(c02Probe+"\n"))
			src.hooks = append(src.hooks, func() {
				key = canon.Key(&rd) + "\x00" + modelKey(model)
			})
		}
		name := fmt.Sprintf("f%d", fi%2)
		rd.Reset(src, name, labels...)
		if last {
			want = append(want, model.Feed([]byte(c02Probe+"\n"))...)
		}
		n := 0
		for rd.Scan() {
			rec := rd.Result()
			if n >= len(want) {
				return key, fmt.Sprintf("file %d: extra record %s", fi, describe(rec))
			}
			if n < checked {
				if r, ok := rec.(*Result); ok {
					cl := r.Clone()
					clones = append(clones, cloneRec{cl, ccanon.Key(cl)})
				}
				n++
				continue
			}
			got := describe(rec)
			if got != want[n].String() {
				return key, fmt.Sprintf("file %d record %d: got %s want %s", fi, n, got, want[n].String())
			}
			if fn, _ := rec.Pos(); fn != name {
				return key, fmt.Sprintf("file %d record %d: Pos file %q want %q", fi, n, fn, name)
			}
			if r, ok := rec.(*Result); ok {
				if m := configConsistent(r); m != "" {
					return key, fmt.Sprintf("file %d record %d: %s", fi, n, m)
				}
				cl := r.Clone()
				if d := describe(cl); d != got {
					return key, fmt.Sprintf("file %d record %d: clone %s differs from original %s", fi, n, d, got)
				}
				clones = append(clones, cloneRec{cl, ccanon.Key(cl)})
			}
			n++
		}
		if err := rd.Err(); err != nil {
			return key, fmt.Sprintf("file %d: unexpected Err %v", fi, err)
		}
		if n != len(want) {
			return key, fmt.Sprintf("file %d: got %d records, want %d (next wanted: %s)", fi, n, len(want), want[n].String())
		}
	}
	// A result cloned by the caller never changes as reading continues.
	for i, c := range clones {
		if ccanon.Key(c.cl) != c.dump {
			return key, fmt.Sprintf("clone of result %d changed while reading continued: now %s", i, describe(c.cl))
		}
	}
	// Accumulated unit metadata agrees with the model.
	if m := unitsAgree(rd.Units(), model); m != "" {
		return key, m
	}
	return key, ""
}

func modelKey(m *ref.FmtModel) string {
	r := ref.Rec{Kind: "result", Config: m.Config}
	var us []string
	for k, v := range m.Units {
		us = append(us, k[0]+"\x01"+k[1]+"\x01"+v)
	}
	sortStrings(us)
	return r.String() + "\x02" + strings.Join(us, "\x02")
}

func sortStrings(s []string) {
	for i := 1; i < len(s); i++ {
		for j := i; j > 0 && s[j] < s[j-1]; j-- {
			s[j], s[j-1] = s[j-1], s[j]
		}
	}
}

func unitsAgree(um UnitMetadataMap, m *ref.FmtModel) string {
	if len(um) != len(m.Units) {
		return fmt.Sprintf("Units() has %d entries, model %d", len(um), len(m.Units))
	}
	for k, v := range m.Units {
		got := um[UnitMetadataKey{k[0], k[1]}]
		if got == nil || got.Value != v {
			return fmt.Sprintf("Units()[%q,%q] = %v, want %q", k[0], k[1], got, v)
		}
	}
	return ""
}

func c02ReplayLines(raw json.RawMessage) string {
	var lines []string
	if err := json.Unmarshal(raw, &lines); err != nil {
		return "bad case: " + err.Error()
	}
	var msg string
	if p := mc.Catch(func() { _, msg = c02Run(lines, readerCanon(), true) }); p != "" {
		return p
	}
	return msg
}

func c02Space(c *mc.Check, name string, alpha []string, depth int, maxStates int) {
	f := c.Family(name, "explicit-state BFS over histories of lines fed to one real Reader (with file boundaries); "+
		"state key = canonical heap dump of the Reader + reference-model state; every transition compares all records, "+
		"positions, clones and unit metadata with the format model and then probes the state with a benchmark line; "+
		"non-trivial = every transition (each is a distinct history)", c02ReplayLines)
	if c.Replaying() {
		return
	}
	f.Bounds["alphabet"] = len(alpha)
	f.Bounds["max_depth"] = depth
	canons := make([]*mc.Canon, mc.Workers())
	for i := range canons {
		canons[i] = readerCanon()
	}
	sp := &mc.Space{
		NOps: len(alpha), MaxDepth: depth, MaxStates: maxStates, Stop: c.TimeUp,
		Step: func(w int, hist []int) (string, string, bool) {
			lines := histLines(alpha, hist)
			var key, msg string
			if p := mc.Catch(func() { key, msg = c02Run(lines, canons[w], false) }); p != "" {
				msg = p
			}
			return key, msg, false
		},
		OnFail: func(hist []int, msg string) {
			c.Fail(f, "reader-history", histLines(alpha, hist), msg)
		},
	}
	sp.Run()
	f.SpaceStats(sp.States, sp.Transitions, sp.Depth, sp.Fixpoint)
	f.Count(sp.Transitions, sp.Transitions)
	f.Outcome("merged-into-known-state", sp.Merged)
	f.Outcome("new-state", sp.States)
	if sp.Capped != "" {
		f.Capped(sp.Capped)
	} else if !sp.Fixpoint {
		f.Set("note", "all histories up to max_depth enumerated; frontier not empty")
	}
	f.Sample(histLines(alpha, []int{0, 7, 2, 8}))
	f.Sample(histLines(alpha, []int{0, 3, 2, 0, 7}))
	f.Done()
}

// ---- E1: every symbol string ----

var c02Symbols = []string{"Benchmark", "Unit", "a", "K", ":", " ", "\t", "\n", "\r", "1", "x", "=", "\xff", "é", "\u00a0", "ns/op"}

func c02RunText(text []byte) string {
	model := ref.NewFmtModel()
	model.Reset(".tool", "T", "a", "1")
	want := model.Feed(text)
	var rd0 Reader
	rd := &rd0
	rd.Reset(bytes.NewReader(text), "f", ".tool", "T", "a", "1")
	n := 0
	budget := len(text) + 3
	for rd.Scan() {
		budget--
		if budget < 0 {
			return "Scan returned true more often than the text has bytes"
		}
		rec := rd.Result()
		if n >= len(want) {
			return "extra record " + describe(rec)
		}
		if got := describe(rec); got != want[n].String() {
			return fmt.Sprintf("record %d: got %s want %s", n, got, want[n].String())
		}
		if r, ok := rec.(*Result); ok {
			if m := configConsistent(r); m != "" {
				return m
			}
		}
		n++
	}
	if err := rd.Err(); err != nil {
		return fmt.Sprintf("unexpected Err %v", err)
	}
	if n != len(want) {
		return fmt.Sprintf("got %d records, want %d (next wanted %s)", n, len(want), want[n].String())
	}
	return unitsAgree(rd.Units(), model)
}

func c02ReplayText(raw json.RawMessage) string {
	var text []byte
	if err := json.Unmarshal(raw, &text); err != nil {
		var s string
		if err2 := json.Unmarshal(raw, &s); err2 != nil {
			return "bad case: " + err.Error()
		}
		text = []byte(s)
	}
	var msg string
	if p := mc.Catch(func() { msg = c02RunText(text) }); p != "" {
		return p
	}
	return msg
}

func c02Strings(c *mc.Check, maxLen int) {
	f := c.Family("symbol-strings", "every sequence of ≤maxLen symbols from the alphabet, read by the real Reader and compared record for record with the format model; "+
		"non-trivial = the model expects at least one record or a configuration change", c02ReplayText)
	if c.Replaying() {
		return
	}
	en := mc.NewStrings(c02Symbols, maxLen)
	f.Bounds["symbols"] = c02Symbols
	f.Bounds["max_len"] = maxLen
	wd := mc.NewWatchdog(60*time.Second, func(desc string) {
		c.Fail(f, "hang", []byte(desc), "reader did not terminate within 60s on this input")
		os.Exit(c.Finish())
	})
	defer wd.Stop()
	done := mc.ParRange(en.Total(), 4096, c.TimeUp, func(w int, lo, hi uint64) {
		l := f.Local()
		var sym []int
		var buf []byte
		var cur []byte
		wd.Enter(w, func() string { return string(cur) })
		for i := lo; i < hi; i++ {
			sym, buf = en.Render(i, sym, buf)
			cur = buf
			var msg string
			if p := mc.Catch(func() { msg = c02RunText(buf) }); p != "" {
				msg = p
			}
			l.Evals++
			if msg != "" {
				c.Fail(f, "reader-text", append([]byte{}, buf...), msg)
				l.Outcome("violation")
				continue
			}
			// classify
			m := ref.NewFmtModel()
			recs := m.Feed(buf)
			switch {
			case len(recs) > 0:
				l.Nontrivial++
				l.Outcome("records:" + recs[0].Kind)
			case len(m.Config) > 0:
				l.Nontrivial++
				l.Outcome("config-only")
			default:
				l.Outcome("ignored")
			}
		}
		wd.Leave(w)
		l.Flush()
	})
	if done < en.Total() {
		f.Capped(fmt.Sprintf("time cap: %d of %d strings", done, en.Total()))
	}
	f.Sample("Benchmarka 1 1 x\n")
	f.Sample("a: 1\nBenchmarkx 1 1 ns/op")
	f.Done()
}

// ---- intern table overflow ----

func c02Intern(c *mc.Check) {
	f := c.Family("intern-overflow", "texts with N distinct keys / units / metadata values around the intern table size (1024), early ones re-used afterwards; compared with the format model; "+
		"non-trivial = N ≥ 1024", c02ReplayText)
	if c.Replaying() {
		return
	}
	ns := []int{10, 1023, 1024, 1025, 1100, 2100}
	for _, n := range ns {
		for _, kind := range []string{"keys", "units", "meta"} {
			var b bytes.Buffer
			for i := 0; i < n; i++ {
				switch kind {
				case "keys":
					fmt.Fprintf(&b, "k%d: v%d\n", i, i)
					if i%97 == 0 {
						fmt.Fprintf(&b, "BenchmarkX 1 1 u\n")
					}
				case "units":
					fmt.Fprintf(&b, "BenchmarkX 1 %d unit%d 2 unit%d-ns\n", i, i, i)
				case "meta":
					fmt.Fprintf(&b, "Unit u%d-ns k%d=v%d\n", i%700, i, i)
				}
			}
			// Re-use early ones.
			for i := 0; i < 5; i++ {
				fmt.Fprintf(&b, "k%d: again\nk%d:\nBenchmarkX 1 1 unit%d\nUnit u%d-ns k%d=v%d k%d=other\n", i, i+1, i, i, i, i, i+1)
			}
			fmt.Fprintf(&b, "BenchmarkEnd 1 1 ns/op\n")
			var msg string
			text := b.Bytes()
			if p := mc.Catch(func() { msg = c02RunText(text) }); p != "" {
				msg = p
			}
			nt := int64(0)
			if n >= 1024 {
				nt = 1
			}
			f.Count(1, nt)
			f.Outcome(fmt.Sprintf("%s:ok=%v", kind, msg == ""), 1)
			if msg != "" {
				c.Fail(f, "intern-"+kind, text, msg)
			}
		}
	}
	f.Sample("k0: v0 … k2099: v2099, k0: again, k1:, BenchmarkX 1 1 unit0 …")
	f.Done()
}

// ---- long lines ----

func c02Long(c *mc.Check) {
	f := c.Family("long-lines", "lines of length around the scanner limit (65535/65536/65537 bytes) in four positions; reading terminates without panic, and either Err is set with the records before the long line agreeing with the model, or all records agree; "+
		"non-trivial = every case", nil)
	if c.Replaying() {
		return
	}
	for _, n := range []int{4095, 4096, 4097, 65534, 65535, 65536, 65537, 200000} {
		for _, shape := range []string{"config", "bench", "foreign", "unit"} {
			pad := strings.Repeat("x", n)
			var long string
			switch shape {
			case "config":
				long = "a: " + pad
			case "bench":
				long = "Benchmark" + pad + " 1 1 u"
			case "foreign":
				long = "# " + pad
			case "unit":
				long = "Unit u k=" + pad
			}
			text := []byte("b: 1\nBenchmarkA 1 1 u\n" + long + "\nBenchmarkB 1 1 u\n")
			var msg string
			outcome := ""
			p := mc.Catch(func() {
				model := ref.NewFmtModel()
				model.Reset()
				want := model.Feed(text)
				rd := NewReader(bytes.NewReader(text), "f")
				i := 0
				for rd.Scan() {
					if i >= len(want) {
						msg = "extra record"
						return
					}
					if got := describe(rd.Result()); got != want[i].String() {
						msg = fmt.Sprintf("record %d: got %.80s want %.80s", i, got, want[i].String())
						return
					}
					i++
					if i > 10 {
						msg = "too many records"
						return
					}
				}
				if rd.Err() != nil {
					outcome = "err-set"
					if len(long) <= ref.MaxLine {
						msg = fmt.Sprintf("Err set for a line of %d bytes: %v", len(long), rd.Err())
					}
					if i < 1 {
						msg = "records before the long line were lost"
					}
					return
				}
				outcome = "all-read"
				if i != len(want) {
					msg = fmt.Sprintf("got %d records want %d", i, len(want))
				}
			})
			if p != "" {
				msg = p
			}
			f.Count(1, 1)
			f.Outcome(outcome, 1)
			if msg != "" {
				c.Fail(f, "long-line", fmt.Sprintf("%s/%d", shape, n), msg)
			}
		}
	}
	f.Sample("b: 1⏎BenchmarkA 1 1 u⏎a: x…(65536)⏎BenchmarkB 1 1 u⏎")
	f.Done()
}

// ---- Files: sequences of files through one Files value ----

var c02FileTexts = []string{
	"a: 1\nBenchmarkA 1 1 ns/op\n",
	"b: 2\nBenchmarkB 1 1 u\na:\nBenchmarkC 1 2 u",
	"Unit ns/op better=lower\nBenchmarkD 1 1 ns/op\n",
	"Unit sec/op better=higher\nUnit u assume=exact\nBenchmarkE 1 1 u\n",
	"",
	"BenchmarkF 1 1 u\nBenchmarkBad x\nc: 3",
}

type c02FilesCase struct {
	Texts  []int
	Modes  []int // 0 plain, 1 duplicate of the first path, 2 label=path
	Labels bool
}

func c02RunFiles(dir string, cs c02FilesCase) string {
	var paths []string
	var plain []string
	for i, ti := range cs.Texts {
		p := filepath.Join(dir, fmt.Sprintf("t%d", ti))
		if cs.Modes[i] == 1 && i > 0 {
			p = plain[0]
		}
		plain = append(plain, p)
		if cs.Modes[i] == 2 {
			paths = append(paths, fmt.Sprintf("L%d=%s", i, p))
		} else {
			paths = append(paths, p)
		}
	}
	// Expected labels.
	count := map[string]int{}
	for i, p := range paths {
		if !(cs.Labels && cs.Modes[i] == 2) {
			count[p]++
		}
	}
	seen := map[string]int{}
	model := ref.NewFmtModel()
	var want []ref.Rec
	var wantFile []string
	for i, p := range paths {
		label, path := p, p
		if cs.Labels && cs.Modes[i] == 2 {
			label, path = fmt.Sprintf("L%d", i), plain[i]
		} else if count[p] > 1 {
			label = fmt.Sprintf("%s#%d", p, seen[p])
			seen[p]++
		}
		if !cs.Labels && cs.Modes[i] == 2 {
			// label=path is not a file when labels are not allowed.
			return ""
		}
		text, err := os.ReadFile(path)
		if err != nil {
			return "harness: " + err.Error()
		}
		model.Reset(".file", label)
		recs := model.Feed(text)
		want = append(want, recs...)
		for range recs {
			wantFile = append(wantFile, path)
		}
	}
	fs := &Files{Paths: paths, AllowLabels: cs.Labels}
	n := 0
	for fs.Scan() {
		rec := fs.Result()
		if n >= len(want) {
			return "extra record " + describe(rec)
		}
		if got := describe(rec); got != want[n].String() {
			return fmt.Sprintf("record %d: got %s want %s", n, got, want[n].String())
		}
		if fn, _ := rec.Pos(); fn != wantFile[n] {
			return fmt.Sprintf("record %d: Pos file %q want %q", n, fn, wantFile[n])
		}
		n++
	}
	if fs.Err() != nil {
		return "Err: " + fs.Err().Error()
	}
	if n != len(want) {
		return fmt.Sprintf("got %d records want %d", n, len(want))
	}
	um := UnitMetadataMap(fs.Units())
	return unitsAgree(um, model)
}

func c02Files(c *mc.Check, maxFiles int) {
	dir, err := os.MkdirTemp("", "verif-c02-")
	if err != nil {
		panic(err)
	}
	defer os.RemoveAll(dir)
	for i, t := range c02FileTexts {
		os.WriteFile(filepath.Join(dir, fmt.Sprintf("t%d", i)), []byte(t), 0o644)
	}
	replay := func(raw json.RawMessage) string {
		var cs c02FilesCase
		if err := json.Unmarshal(raw, &cs); err != nil {
			return err.Error()
		}
		d, _ := os.MkdirTemp("", "verif-c02r-")
		defer os.RemoveAll(d)
		for i, t := range c02FileTexts {
			os.WriteFile(filepath.Join(d, fmt.Sprintf("t%d", i)), []byte(t), 0o644)
		}
		var msg string
		if p := mc.Catch(func() { msg = c02RunFiles(d, cs) }); p != "" {
			return p
		}
		return msg
	}
	f := c.Family("files", "every sequence of ≤maxFiles files from 6 file texts × {plain, duplicate path, label=path} × AllowLabels, read through one Files value and compared with the model (per-file .file label, #N disambiguation, no configuration leakage, unit metadata carried, conflicts reported); "+
		"non-trivial = ≥2 files", replay)
	if c.Replaying() {
		return
	}
	f.Bounds["max_files"] = maxFiles
	nt := len(c02FileTexts)
	for n := 1; n <= maxFiles; n++ {
		mc.Sequences(nt, n, func(ts []int) {
			mc.Sequences(3, n, func(ms []int) {
				for _, labels := range []bool{true, false} {
					cs := c02FilesCase{append([]int{}, ts...), append([]int{}, ms...), labels}
					var msg string
					if p := mc.Catch(func() { msg = c02RunFiles(dir, cs) }); p != "" {
						msg = p
					}
					ntv := int64(0)
					if n >= 2 {
						ntv = 1
					}
					f.Count(1, ntv)
					if msg != "" {
						f.Outcome("violation", 1)
						c.Fail(f, "files", cs, msg)
					} else {
						f.Outcome("agree", 1)
					}
				}
			})
		})
	}
	f.Sample(c02FilesCase{[]int{0, 1}, []int{0, 1}, true})
	f.Done()
}

func TestVerifC02(t *testing.T) {
	c := mc.NewCheck("C02")
	c.Assume("format reference model internal/verifref (written from the format documentation)")
	c.Assume("bufio.Scanner line splitting (stdlib)")
	c02Space(c, "space-core", c02Core, mc.Pick(c, 10, 40), 0)
	c02Space(c, "space-full", c02Full, mc.Pick(c, 4, 6), mc.Pick(c, 400000, 3000000))
	c02Strings(c, mc.Pick(c, 5, 6))
	c02Intern(c)
	c02Long(c)
	c02Clones(c)
	c02Files(c, mc.Pick(c, 2, 3))
	c02Reset(c)
	if code := c.Finish(); code != 0 {
		os.Exit(code)
	}
}
