//go:build verif

package benchfmt

import (
	"bytes"
	"encoding/json"
	"fmt"
	"strings"
	"unicode"
	"unicode/utf8"

	mc "golang.org/x/perf/internal/verifmc"
)

// ---- C01: configuration keys and values as strings ----
//
// The stream is built through the API (what the Reader would have made of the
// text is not consulted), written, and read back.

var c01kSymbols = []string{"a", "µ", "é", "д", "ß", "1", "-", "/", "=", "_", "."}

// c01ValidKey: the documented shape of a configuration key — it begins with a
// lower-case letter (any script), contains no space and no upper-case letter;
// a colon ends it.
func c01ValidKey(k string) bool {
	if k == "" || !utf8.ValidString(k) {
		return false
	}
	first, _ := utf8.DecodeRuneInString(k)
	if !unicode.IsLower(first) {
		return false
	}
	for _, r := range k {
		if unicode.IsSpace(r) || unicode.IsUpper(r) || r == ':' {
			return false
		}
	}
	return true
}

func c01kCheck(key string) string {
	var out bytes.Buffer
	w := NewWriter(&out)
	mk := func(val string, withKey bool) *Result {
		r := &Result{Name: Name("X"), Iters: 1, Values: []Value{{Value: 1, Unit: "u"}}}
		r.Config = append(r.Config, Config{Key: "zz", Value: []byte("w"), File: true})
		if withKey {
			r.Config = append(r.Config, Config{Key: key, Value: []byte(val), File: true})
		}
		return r
	}
	// set, changed, deleted, re-added
	steps := []struct {
		val string
		has bool
	}{{"v", true}, {"v2 x", true}, {"", false}, {"v", true}}
	for _, st := range steps {
		if err := w.Write(mk(st.val, st.has)); err != nil {
			return fmt.Sprintf("Write: %v", err)
		}
	}
	rd := NewReader(bytes.NewReader(out.Bytes()), "back")
	i := 0
	for rd.Scan() {
		switch rec := rd.Result().(type) {
		case *SyntaxError:
			return fmt.Sprintf("reading back %q: %v", out.String(), rec)
		case *Result:
			if i >= len(steps) {
				return fmt.Sprintf("more results read back than written (output %q)", out.String())
			}
			got := map[string]string{}
			for _, c := range rec.Config {
				if c.File {
					got[c.Key] = string(c.Value)
				}
			}
			want := map[string]string{"zz": "w"}
			if steps[i].has {
				want[key] = steps[i].val
			}
			if fmt.Sprint(got) != fmt.Sprint(want) {
				return fmt.Sprintf("result %d written with file configuration %q, read back with %q (output %q)", i, want, got, out.String())
			}
			i++
		}
	}
	if i != len(steps) {
		return fmt.Sprintf("%d results written, %d read back (output %q)", len(steps), i, out.String())
	}
	return ""
}

func c01Keys(c *mc.Check, maxLen int) {
	replay := func(raw json.RawMessage) string {
		var b []byte
		if err := json.Unmarshal(raw, &b); err != nil {
			return err.Error()
		}
		var msg string
		if p := mc.Catch(func() { msg = c01kCheck(string(b)) }); p != "" {
			return p
		}
		return msg
	}
	f := c.Family("configuration-key-strings", fmt.Sprintf("every string of ≤%d symbols from %q that has the documented shape of a configuration key (begins with a lower-case letter of any script, no space, no upper-case letter, no colon), used as a file-configuration key of results built through the API next to another key: set, changed to a value with a blank, deleted, re-added over four results written by one Writer; the output read back gives each result exactly the file configuration it was written with; non-trivial = keys beginning with a non-ASCII letter", maxLen, c01kSymbols), replay)
	if c.Replaying() {
		return
	}
	en := mc.NewStrings(c01kSymbols, maxLen)
	done := mc.ParRange(en.Total(), 256, c.TimeUp, func(w int, lo, hi uint64) {
		l := f.Local()
		var sym []int
		var buf []byte
		for i := lo; i < hi; i++ {
			sym, buf = en.Render(i, sym, buf)
			s := string(buf)
			if !c01ValidKey(s) {
				continue
			}
			var msg string
			if p := mc.Catch(func() { msg = c01kCheck(s) }); p != "" {
				msg = p
			}
			l.Evals++
			if s[0] >= 0x80 {
				l.Nontrivial++
				l.Outcome("non-ASCII first letter")
			} else {
				l.Outcome("ASCII first letter")
			}
			if msg != "" {
				c.Fail(f, "key-roundtrip", []byte(s), msg)
			}
		}
		l.Flush()
	})
	if done < en.Total() {
		f.Capped(fmt.Sprintf("time cap: %d of %d", done, en.Total()))
	}
	f.Sample([]byte("µarch"))
	f.Done()
}

var _ = strings.TrimSpace

// ---- long lines ----

type c01LongCase struct {
	ValueLen, NameLen int
}

func c01LongText(n int, salt int) string {
	// non-periodic printable content without blanks at the ends
	var b strings.Builder
	for i := 0; b.Len() < n; i++ {
		fmt.Fprintf(&b, "%x.", (i+salt)*2654435761%1000003)
	}
	return b.String()[:n]
}

func c01LongCheck(cs c01LongCase) string {
	var out bytes.Buffer
	w := NewWriter(&out)
	val := c01LongText(cs.ValueLen, 1)
	name := "X" + c01LongText(cs.NameLen, 7)
	results := []*Result{
		{Name: Name("A"), Iters: 1, Values: []Value{{Value: 1, Unit: "u"}}, Config: []Config{{Key: "short", Value: []byte("s"), File: true}}},
		{Name: Name(name), Iters: 2, Values: []Value{{Value: 2, Unit: "u"}}, Config: []Config{{Key: "short", Value: []byte("s"), File: true}, {Key: "long", Value: []byte(val), File: true}}},
		{Name: Name("B"), Iters: 3, Values: []Value{{Value: 3, Unit: "u"}}, Config: []Config{{Key: "short", Value: []byte("t"), File: true}, {Key: "long", Value: []byte(val), File: true}}},
	}
	for _, r := range results {
		if err := w.Write(r); err != nil {
			return err.Error()
		}
	}
	rd := NewReader(bytes.NewReader(out.Bytes()), "back")
	i := 0
	for rd.Scan() {
		switch rec := rd.Result().(type) {
		case *SyntaxError:
			return fmt.Sprintf("reading back: %v", rec)
		case *Result:
			if i >= len(results) {
				return "more results read back than written"
			}
			want := results[i]
			if string(rec.Name) != string(want.Name) || rec.Iters != want.Iters {
				return fmt.Sprintf("result %d read back as %.40q… %d, written %.40q… %d (value of %d bytes, name of %d)", i, rec.Name, rec.Iters, want.Name, want.Iters, cs.ValueLen, len(name))
			}
			for _, wc := range want.Config {
				got := ""
				for _, c := range rec.Config {
					if c.Key == wc.Key && c.File {
						got = string(c.Value)
					}
				}
				if got != string(wc.Value) {
					return fmt.Sprintf("result %d: key %q read back with a value of %d bytes (%.30q…), written with %d bytes (%.30q…)", i, wc.Key, len(got), got, len(wc.Value), wc.Value)
				}
			}
			i++
		}
	}
	if err := rd.Err(); err != nil {
		return fmt.Sprintf("reading back: %v", err)
	}
	if i != len(results) {
		return fmt.Sprintf("%d results written, %d read back (value of %d bytes, name of %d)", len(results), i, cs.ValueLen, len(name))
	}
	return ""
}

func c01Long(c *mc.Check) {
	replay := func(raw json.RawMessage) string {
		var cs c01LongCase
		if err := json.Unmarshal(raw, &cs); err != nil {
			return err.Error()
		}
		var msg string
		if p := mc.Catch(func() { msg = c01LongCheck(cs) }); p != "" {
			return p
		}
		return msg
	}
	lens := []int{1, 100, 4000, 4080, 4090, 4095, 4096, 4097, 5000, 8191, 8192, 8193, 9000, 20000, 60000}
	f := c.Family("long-lines", fmt.Sprintf("three results built through the API whose middle one has a configuration value and / or a benchmark name of %v bytes of non-periodic text (lines around and beyond the reader's 4 KiB buffer, below its 64 KiB line limit), written and read back: names, iteration counts and every file-configuration value equal what was written; non-trivial = lines longer than 4096 bytes", lens), replay)
	if c.Replaying() {
		return
	}
	for _, vl := range lens {
		for _, nl := range []int{1, 4096, 6000} {
			cs := c01LongCase{vl, nl}
			var msg string
			if p := mc.Catch(func() { msg = c01LongCheck(cs) }); p != "" {
				msg = p
			}
			nt := int64(0)
			if vl > 4090 || nl > 4090 {
				nt = 1
			}
			f.Count(1, nt)
			f.Outcome(fmt.Sprintf("ok=%v", msg == ""), 1)
			if msg != "" {
				c.Fail(f, "long-line-roundtrip", cs, msg)
			}
		}
	}
	f.Sample(c01LongCase{5000, 1})
	f.Done()
}

// ---- values of changing length ----

var c01vVals = []string{"", "1", "2", "12", "21", "123"}

type c01ValCase struct {
	Steps [][2]int // per result: value index of key a, of key b ("" = key absent)
}

func c01ValCheck(cs c01ValCase) string {
	var out bytes.Buffer
	w := NewWriter(&out)
	for _, st := range cs.Steps {
		r := &Result{Name: Name("X"), Iters: 1, Values: []Value{{Value: 1, Unit: "u"}}}
		for ki, k := range []string{"a", "b"} {
			if v := c01vVals[st[ki]]; v != "" {
				r.Config = append(r.Config, Config{Key: k, Value: []byte(v), File: true})
			}
		}
		if err := w.Write(r); err != nil {
			return err.Error()
		}
	}
	rd := NewReader(bytes.NewReader(out.Bytes()), "back")
	i := 0
	for rd.Scan() {
		rec, ok := rd.Result().(*Result)
		if !ok {
			return fmt.Sprintf("reading back %q: %v", out.String(), rd.Result())
		}
		if i >= len(cs.Steps) {
			return "more results read back than written"
		}
		got := map[string]string{}
		for _, c := range rec.Config {
			if c.File {
				got[c.Key] = string(c.Value)
			}
		}
		want := map[string]string{}
		for ki, k := range []string{"a", "b"} {
			if v := c01vVals[cs.Steps[i][ki]]; v != "" {
				want[k] = v
			}
		}
		if fmt.Sprint(got) != fmt.Sprint(want) {
			return fmt.Sprintf("result %d written with %v, read back with %v (output %q)", i, want, got, out.String())
		}
		i++
	}
	if i != len(cs.Steps) {
		return fmt.Sprintf("%d results written, %d read back", len(cs.Steps), i)
	}
	return ""
}

func c01ValLengths(c *mc.Check, depth int) {
	replay := func(raw json.RawMessage) string {
		var cs c01ValCase
		if err := json.Unmarshal(raw, &cs); err != nil {
			return err.Error()
		}
		var msg string
		if p := mc.Catch(func() { msg = c01ValCheck(cs) }); p != "" {
			return p
		}
		return msg
	}
	f := c.Family("value-length-histories", fmt.Sprintf("every sequence of ≤%d results written by one Writer in which the file keys a and b each take a value from %q (absent, one, two, three bytes; digits shared between the values, so that what is appended to one value is what another changes to): the output read back gives every result exactly its key-to-value mapping; non-trivial = sequences in which a value grows", depth, c01vVals), replay)
	if c.Replaying() {
		return
	}
	nv := len(c01vVals)
	var cases []c01ValCase
	for n := 1; n <= depth; n++ {
		mc.Sequences(nv*nv, n, func(m []int) {
			cs := c01ValCase{}
			for _, x := range m {
				cs.Steps = append(cs.Steps, [2]int{x / nv, x % nv})
			}
			cases = append(cases, cs)
		})
	}
	done := mc.ParRange(uint64(len(cases)), 256, c.TimeUp, func(w int, lo, hi uint64) {
		l := f.Local()
		for i := lo; i < hi; i++ {
			var msg string
			if p := mc.Catch(func() { msg = c01ValCheck(cases[i]) }); p != "" {
				msg = p
			}
			l.Evals++
			l.Nontrivial++
			l.Outcome(fmt.Sprintf("ok=%v", msg == ""))
			if msg != "" {
				c.Fail(f, "value-length-roundtrip", cases[i], msg)
			}
		}
		l.Flush()
	})
	if done < uint64(len(cases)) {
		f.Capped(fmt.Sprintf("time cap: %d of %d", done, len(cases)))
	}
	f.Sample(c01ValCase{[][2]int{{1, 1}, {3, 2}}})
	f.Done()
}
