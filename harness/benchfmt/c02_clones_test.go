//go:build verif

package benchfmt

import (
	"encoding/json"
	"fmt"
	"strings"

	mc "golang.org/x/perf/internal/verifmc"
)

// ---- C02: clones stay what they were while the reader's buffers are refilled ----
//
// The Reader's one Result points into the scanner's 4 KiB buffer (the name)
// and into reused value buffers (configuration values). A clone taken by the
// caller must own all of its bytes: the inputs here are long enough for the
// scanner to refill and compact its buffer many times after each clone, and
// change every configuration value in place along the way.

type c02cCase struct {
	Pad, Lines int
}

func c02cCheck(cs c02cCase) string {
	var text strings.Builder
	var want []string
	pad := strings.Repeat("p", cs.Pad)
	for i := 0; i < cs.Lines; i++ {
		if i%7 == 0 {
			fmt.Fprintf(&text, "k: value-%04d-%s\n", i, pad[:cs.Pad%9])
		}
		if i%11 == 0 {
			fmt.Fprintf(&text, "j: %d\n", i)
		}
		fmt.Fprintf(&text, "BenchmarkClone%s/n=%05d-8 %d %d.5 ns/op %d widgets\n", pad, i, i+1, i, i*3)
	}
	rd := NewReader(strings.NewReader(text.String()), "clones")
	var clones []*Result
	for rd.Scan() {
		res, ok := rd.Result().(*Result)
		if !ok {
			return fmt.Sprintf("unexpected record %v", rd.Result())
		}
		cl := res.Clone()
		clones = append(clones, cl)
		want = append(want, describeResult(cl, true)) // a deep, textual snapshot at the time of cloning
	}
	if err := rd.Err(); err != nil {
		return err.Error()
	}
	if len(clones) != cs.Lines {
		return fmt.Sprintf("%d results for %d benchmark lines", len(clones), cs.Lines)
	}
	for i, cl := range clones {
		if got := describeResult(cl, true); got != want[i] {
			return fmt.Sprintf("the clone of result %d (of %d, names padded by %d bytes) changed while reading continued:\n was %s\n now %s", i, cs.Lines, cs.Pad, want[i], got)
		}
		wantName := fmt.Sprintf("Clone%s/n=%05d-8", pad, i)
		if string(cl.Name) != wantName || cl.Iters != i+1 {
			return fmt.Sprintf("the clone of result %d is %q ×%d, its line says %q ×%d", i, cl.Name, cl.Iters, wantName, i+1)
		}
	}
	return ""
}

func c02Clones(c *mc.Check) {
	replay := func(raw json.RawMessage) string {
		var cs c02cCase
		if err := json.Unmarshal(raw, &cs); err != nil {
			return err.Error()
		}
		var msg string
		if p := mc.Catch(func() { msg = c02cCheck(cs) }); p != "" {
			return p
		}
		return msg
	}
	pads := []int{0, 1, 7, 13, 31, 64, 100, 257, 1000}
	f := c.Family("clones-across-buffer-refills", fmt.Sprintf("inputs of 60 to 1200 benchmark lines (3 to 300 KB: the scanner refills and compacts its 4 KiB buffer many times) with names padded by %v bytes so that lines fall at every alignment of the buffer, configuration values rewritten in place every few lines: EVERY result is cloned when it is returned, and at the end of the input every clone still is what it was when it was taken and what its own line says; non-trivial = every input", pads), replay)
	if c.Replaying() {
		return
	}
	var cases []c02cCase
	for _, p := range pads {
		for _, n := range []int{60, 300, 1200} {
			cases = append(cases, c02cCase{p, n})
		}
	}
	mc.ParRange(uint64(len(cases)), 1, c.TimeUp, func(w int, lo, hi uint64) {
		for i := lo; i < hi; i++ {
			var msg string
			if p := mc.Catch(func() { msg = c02cCheck(cases[i]) }); p != "" {
				msg = p
			}
			f.Count(int64(cases[i].Lines), int64(cases[i].Lines))
			if msg != "" {
				f.Outcome("a clone changed", 1)
				c.Fail(f, "clone", cases[i], msg)
			} else {
				f.Outcome("clones intact", 1)
			}
		}
	})
	f.Sample(c02cCase{13, 300})
	f.Done()
}
