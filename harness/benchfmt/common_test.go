//go:build verif

package benchfmt

import (
	"bufio"
	"fmt"
	"math"
	"reflect"
	"sort"
	"strconv"
	"strings"

	mc "golang.org/x/perf/internal/verifmc"
	ref "golang.org/x/perf/internal/verifref"
)

// readerCanon returns the canonicaliser used for Reader / Writer / Result
// heaps. Omitted parts, each with its argument:
//   - *bufio.Scanner: recreated per input, holds no format state;
//   - Reader.interns: string interning changes identity, never value;
//   - Result.line / UnitMetadata.line / SyntaxError.Line: flow only
//     additively into positions, which are compared on every transition;
//   - Reader.q beyond len: only ever overwritten by append;
//   - Writer.w: the output sink, which the Writer only ever writes to.
func readerCanon() *mc.Canon {
	return &mc.Canon{
		SkipTypes:     map[reflect.Type]bool{reflect.TypeOf((*bufio.Scanner)(nil)): true},
		SkipFields:    map[string]bool{"Reader.interns": true, "Result.line": true, "UnitMetadata.line": true, "Writer.w": true},
		LenOnlyFields: map[string]bool{"Reader.q": true},
	}
}

// describe renders a record of the implementation in the same canonical form
// as ref.Rec.String.
func describe(rec Record) string {
	switch rec := rec.(type) {
	case *SyntaxError:
		return fmt.Sprintf("error@%d", rec.Line)
	case *UnitMetadata:
		_, line := rec.Pos()
		return fmt.Sprintf("unit@%d %q(%q) %q=%q", line, rec.Unit, rec.OrigUnit, rec.Key, rec.Value)
	case *Result:
		return describeResult(rec, true)
	}
	return fmt.Sprintf("unknown record %T", rec)
}

func describeResult(r *Result, withLine bool) string {
	var b strings.Builder
	_, line := r.Pos()
	if !withLine {
		line = 0
	}
	fmt.Fprintf(&b, "result@%d %q %d", line, string(r.Name), r.Iters)
	for _, v := range r.Values {
		fmt.Fprintf(&b, " [%s %q", fbits(v.Value), v.Unit)
		if v.OrigUnit != "" && v.OrigUnit != v.Unit {
			fmt.Fprintf(&b, " orig %s %q", fbits(v.OrigValue), v.OrigUnit)
		}
		b.WriteString("]")
	}
	type kv struct {
		k, v string
		f    bool
	}
	var kvs []kv
	for _, c := range r.Config {
		kvs = append(kvs, kv{c.Key, string(c.Value), c.File})
	}
	sort.Slice(kvs, func(i, j int) bool { return kvs[i].k < kvs[j].k })
	for _, c := range kvs {
		t := "int"
		if c.f {
			t = "file"
		}
		fmt.Fprintf(&b, " {%q=%q %s}", c.k, c.v, t)
	}
	return b.String()
}

func fbits(f float64) string { return ref.Fbits(f) }

// configConsistent checks the public configuration API of a result against
// its Config slice: no duplicate keys, the index finds every key, GetConfig
// returns the stored value, no entry has an empty value.
func configConsistent(r *Result) string {
	seen := map[string]bool{}
	for i, c := range r.Config {
		if seen[c.Key] {
			return fmt.Sprintf("duplicate key %q in Config", c.Key)
		}
		seen[c.Key] = true
		if idx, ok := r.ConfigIndex(c.Key); !ok || idx != i {
			return fmt.Sprintf("ConfigIndex(%q) = %d,%v; entry is at %d", c.Key, idx, ok, i)
		}
		if got := r.GetConfig(c.Key); got != string(c.Value) {
			return fmt.Sprintf("GetConfig(%q) = %q, entry holds %q", c.Key, got, c.Value)
		}
		if len(c.Value) == 0 {
			return fmt.Sprintf("key %q present with empty value", c.Key)
		}
	}
	return ""
}

func histLines(alpha []string, hist []int) []string {
	out := make([]string, len(hist))
	for i, h := range hist {
		out[i] = alpha[h]
	}
	return out
}

// valueLattice is a deterministic finite set of float64 values chosen for
// number formatting/parsing shortcuts: the ±n-ulp neighbourhoods of every
// power of ten from 1e-7 to 1e23 (%v switches notation at 1e-4 and 1e21),
// k/997·10^j (16–17 significant digits), powers of two around 2^53, and the
// special values.
func valueLattice(n int, kmax int) []float64 {
	var out []float64
	for e := -7; e <= 23; e++ {
		p, _ := strconv.ParseFloat(fmt.Sprintf("1e%d", e), 64)
		out = append(out, mc.UlpNeighbourhood(p, n)...)
		out = append(out, mc.UlpNeighbourhood(3*p, n/4)...)
	}
	for k := 1; k <= kmax; k++ {
		for _, j := range []float64{1e-3, 1, 1e3, 1e9, 1e17} {
			out = append(out, float64(k)/997*j)
		}
	}
	for e := 50; e <= 64; e++ {
		out = append(out, mc.UlpNeighbourhood(math.Ldexp(1, e), 8)...)
	}
	out = append(out, 0, math.Copysign(0, -1), math.Inf(1), math.Inf(-1), math.NaN(), 5e-324, math.MaxFloat64, -1.5, 203.18687664732286, 360.87141685690597)
	return out
}

var _ = ref.MaxLine
