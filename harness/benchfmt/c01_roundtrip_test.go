//go:build verif

package benchfmt

import (
	"bytes"
	"encoding/json"
	"fmt"
	"math"
	"os"
	"sort"
	"strconv"
	"strings"
	"testing"

	"golang.org/x/perf/benchunit"

	mc "golang.org/x/perf/internal/verifmc"
)

// ---- C01: write/read round trip ----

// streamRec is what the property says must survive the round trip.
type streamRec struct {
	kind string // result | unit
	desc string // name, iters, measurements as written, unit metadata
	cfg  map[string]string
}

func (s streamRec) String() string {
	keys := make([]string, 0, len(s.cfg))
	for k := range s.cfg {
		keys = append(keys, k)
	}
	sort.Strings(keys)
	var b strings.Builder
	b.WriteString(s.desc)
	for _, k := range keys {
		fmt.Fprintf(&b, " {%q=%q}", k, s.cfg[k])
	}
	return b.String()
}

// asStream describes a record: name, iteration count, each measurement's
// value and unit as reported and as originally written, and the
// file-configuration mapping (internal configuration is not part of it).
func asStream(rec Record) (streamRec, bool) {
	switch rec := rec.(type) {
	case *Result:
		var b strings.Builder
		fmt.Fprintf(&b, "result %q %d", string(rec.Name), rec.Iters)
		for _, v := range rec.Values {
			ov, ou := v.OrigValue, v.OrigUnit
			if ou == "" {
				ov, ou = v.Value, v.Unit
			}
			// "value and unit as originally written"
			fmt.Fprintf(&b, " [written %s %q]", fbits(ov), ou)
		}
		cfg := map[string]string{}
		for _, c := range rec.Config {
			if c.File {
				cfg[c.Key] = string(c.Value)
			}
		}
		return streamRec{"result", b.String(), cfg}, true
	case *UnitMetadata:
		return streamRec{"unit", fmt.Sprintf("unit %q(%q) %q=%q", rec.Unit, rec.OrigUnit, rec.Key, rec.Value), nil}, true
	}
	return streamRec{}, false
}

// readBack parses output and returns its stream; any syntax error in the
// writer's own output is a failure.
func readBack(out []byte, rd *Reader) ([]streamRec, string) {
	rd.Reset(bytes.NewReader(out), "out")
	var got []streamRec
	for rd.Scan() {
		rec := rd.Result()
		if se, ok := rec.(*SyntaxError); ok {
			return got, "writer output does not parse: " + se.Error()
		}
		s, _ := asStream(rec)
		if r, ok := rec.(*Result); ok {
			for _, c := range r.Config {
				if !c.File {
					return got, fmt.Sprintf("read-back result has internal key %q", c.Key)
				}
			}
		}
		got = append(got, s)
	}
	if rd.Err() != nil {
		return got, "read-back Err: " + rd.Err().Error()
	}
	return got, ""
}

func compareStreams(want, got []streamRec, internalKeys map[string]bool) string {
	for i := range want {
		if i >= len(got) {
			return fmt.Sprintf("read-back has %d records, want %d; missing %s", len(got), len(want), want[i])
		}
		if want[i].String() != got[i].String() {
			return fmt.Sprintf("record %d: read back %s, written %s", i, got[i], want[i])
		}
	}
	if len(got) > len(want) {
		return fmt.Sprintf("read-back has extra record %s", got[len(want)])
	}
	return ""
}

// crOnly reports whether the streams agree once one trailing '\r' is dropped
// from every expected file-configuration value (the recorded known finding:
// such a value cannot be represented in the line format).
func crOnly(want, got []streamRec) bool {
	any := false
	w2 := make([]streamRec, len(want))
	for i, w := range want {
		w2[i] = streamRec{w.kind, w.desc, map[string]string{}}
		for k, v := range w.cfg {
			if strings.HasSuffix(v, "\r") {
				any = true
				v = v[:len(v)-1]
			}
			w2[i].cfg[k] = v
		}
	}
	return any && compareStreams(w2, got, nil) == ""
}

// ---- A: text-born streams ----

var c01Core = []string{
	"a: v",
	"a: w",
	"a:",
	"b: v",
	"b:",
	"BenchmarkX 1 1 u",
	"BenchmarkY-4 2 3 ns/op 4 MB/s",
	"BenchmarkX 1 0 ns/op +Inf ns/op NaN ns/op -0 MB/s",
	"Unit ns/op better=lower",
	"Unit sec/op better=lower assume=exact",
	"Unit u k=",
	"PASS",
}

var c01Full = append(append([]string{}, c01Core...),
	"a:\tv",
	"a: x y ",
	"é: v\xff",
	"a: v\r\r",
	"c: 3",
	"c:",
	"BenchmarkX 1 1e-320 ns/op 1.7976931348623157e308 MB/s",
	"BenchmarkX 1 3 ns/op 2 B/op 0.1 ns-MB/op",
	"Benchmark 1 1 u",
	"BenchmarkX",
	"BenchmarkX 1 x u",
	"BenchmarkZ/a=b/c 5 0x1p-2 u -Inf v",
	"Unit ns/op better=higher",
	"Unit MB/s better=higher",
	"Unit u",
	"",
)

type c01State struct {
	src, back Reader
	w         *Writer
	out       bytes.Buffer
}

// c01RunText pumps text through Reader -> Writer -> Reader and compares.
func c01RunText(text []byte, st *c01State) (fail, sig string) {
	st.out.Reset()
	st.w = NewWriter(&st.out)
	st.src.Reset(bytes.NewReader(text), "src", ".tool", "T", ".file", "src")
	var want []streamRec
	for st.src.Scan() {
		rec := st.src.Result()
		s, ok := asStream(rec)
		before := ""
		if r, isRes := rec.(*Result); isRes {
			before = describeResult(r, true)
		}
		if err := st.w.Write(rec); err != nil {
			return "Write: " + err.Error(), "write-error"
		}
		if r, isRes := rec.(*Result); isRes {
			if after := describeResult(r, true); after != before {
				return fmt.Sprintf("Write modified the result: %s -> %s", before, after), "write-mutates"
			}
		}
		if ok {
			want = append(want, s)
		}
	}
	got, m := readBack(st.out.Bytes(), &st.back)
	if m == "" {
		m = compareStreams(want, got, nil)
	}
	if m != "" {
		if crOnly(want, got) {
			return m + fmt.Sprintf(" (output %q)", st.out.String()), "cfg-value-trailing-CR"
		}
		return m + fmt.Sprintf(" (output %q)", st.out.String()), "roundtrip"
	}
	return "", ""
}

func c01ReplayLines(raw json.RawMessage) string {
	var lines []string
	if err := json.Unmarshal(raw, &lines); err != nil {
		return err.Error()
	}
	text := []byte(strings.Join(lines, "\n") + "\n")
	if len(lines) == 0 {
		text = nil
	}
	var msg string
	if p := mc.Catch(func() {
		msg, _ = c01RunText(text, &c01State{})
		if msg == "" {
			msg, _ = c01RunText(append(append([]byte{}, text...), c01Probe...), &c01State{})
		}
	}); p != "" {
		return p
	}
	return msg
}

const c01Probe = "BenchmarkProbe 9 5 ns/op 6 B/op\n"

func c01SpaceA(c *mc.Check, name string, alpha []string, depth, maxStates int) {
	f := c.Family(name, "explicit-state BFS over texts built line by line; every transition pumps the whole text through the real Reader → Writer → Reader "+
		"(the Writer sees the Reader's own reused Result, as cmd/benchfilter does) and compares the read-back stream with the source stream, then repeats with a probe result appended; "+
		"state key = canonical heap dump of source Reader, Writer and read-back Reader; non-trivial = every transition (distinct history)", c01ReplayLines)
	if c.Replaying() {
		return
	}
	f.Bounds["alphabet"] = len(alpha)
	f.Bounds["max_depth"] = depth
	nw := mc.Workers()
	canons := make([]*mc.Canon, nw)
	states := make([]*c01State, nw)
	for i := range canons {
		canons[i] = readerCanon()
		states[i] = &c01State{}
	}
	sp := &mc.Space{
		NOps: len(alpha), MaxDepth: depth, MaxStates: maxStates, Stop: c.TimeUp,
		Step: func(w int, hist []int) (string, string, bool) {
			lines := histLines(alpha, hist)
			text := []byte(strings.Join(lines, "\n") + "\n")
			if len(lines) == 0 {
				text = nil
			}
			var key, msg, sig string
			p := mc.Catch(func() {
				st := &c01State{} // fresh objects for every transition
				msg, sig = c01RunText(text, st)
				if msg != "" {
					return
				}
				key = canons[w].Key(&st.src, st.w, &st.back)
				st2 := &c01State{}
				msg, sig = c01RunText(append(append([]byte{}, text...), c01Probe...), st2)
			})
			if p != "" {
				msg, sig = p, "panic"
			}
			if msg != "" {
				msg = sig + "\x00" + msg
			}
			return key, msg, false
		},
		OnFail: func(hist []int, msg string) {
			sig, m, _ := strings.Cut(msg, "\x00")
			c.Fail(f, sig, histLines(alpha, hist), m)
		},
	}
	sp.Run()
	f.SpaceStats(sp.States, sp.Transitions, sp.Depth, sp.Fixpoint)
	f.Count(sp.Transitions, sp.Transitions)
	f.Outcome("merged-into-known-state", sp.Merged)
	f.Outcome("new-state", sp.States)
	if sp.Capped != "" {
		f.Capped(sp.Capped)
	}
	f.Sample(histLines(alpha, []int{0, 5, 2, 5}))
	f.Done()
}

// ---- B: API-born streams ----

type c01Op struct {
	Kind string // "result" | "unit"
	A, B string // "", "f:v", "f:w", "i:v", "i:w"
	Vals int    // value shape
}

func c01OpsB() []c01Op {
	var ops []c01Op
	cfgs := []string{"", "f:v", "f:w", "i:v", "i:w"}
	for _, a := range cfgs {
		for _, b := range cfgs {
			for vs := 0; vs < 2; vs++ {
				ops = append(ops, c01Op{"result", a, b, vs})
			}
		}
	}
	ops = append(ops, c01Op{Kind: "unit", Vals: 0}, c01Op{Kind: "unit", Vals: 1})
	return ops
}

func c01MakeRecord(op c01Op) Record {
	if op.Kind == "unit" {
		if op.Vals == 0 {
			return &UnitMetadata{UnitMetadataKey: UnitMetadataKey{"sec/op", "better"}, OrigUnit: "ns/op", Value: "lower"}
		}
		return &UnitMetadata{UnitMetadataKey: UnitMetadataKey{"u", "assume"}, OrigUnit: "u", Value: "exact"}
	}
	r := &Result{Name: Name("X/k=1-2"), Iters: 3}
	// Key b is listed first so that slice order differs from key order.
	for _, kv := range [][2]string{{"b", op.B}, {"a", op.A}} {
		if kv[1] == "" {
			continue
		}
		r.Config = append(r.Config, Config{Key: kv[0], Value: []byte(kv[1][2:]), File: kv[1][0] == 'f'})
	}
	if op.Vals == 0 {
		r.Values = []Value{{Value: 1.5, Unit: "u"}}
	} else {
		r.Values = []Value{{Value: 3e-9, Unit: "sec/op", OrigValue: 3, OrigUnit: "ns/op"}, {Value: 0, Unit: "B/s", OrigValue: 0, OrigUnit: "MB/s"}}
	}
	return r
}

func c01RunB(ops []c01Op, canon *mc.Canon) (key, msg string) {
	var out bytes.Buffer
	w := NewWriter(&out)
	var want []streamRec
	for _, op := range ops {
		rec := c01MakeRecord(op)
		s, _ := asStream(rec)
		want = append(want, s)
		if err := w.Write(rec); err != nil {
			return "", "Write: " + err.Error()
		}
	}
	var back Reader
	got, m := readBack(out.Bytes(), &back)
	if m == "" {
		m = compareStreams(want, got, nil)
	}
	if m != "" {
		return "", m + fmt.Sprintf(" (output %q)", out.String())
	}
	if canon != nil {
		key = canon.Key(w, &back)
	}
	return key, ""
}

func c01SpaceB(c *mc.Check, depth int) {
	ops := c01OpsB()
	replay := func(raw json.RawMessage) string {
		var o []c01Op
		if err := json.Unmarshal(raw, &o); err != nil {
			return err.Error()
		}
		var msg string
		if p := mc.Catch(func() { _, msg = c01RunB(o, nil) }); p != "" {
			return p
		}
		return msg
	}
	f := c.Family("space-api", "explicit-state BFS over sequences of Write(record) on one real Writer: results from the full product over keys {a,b} of {absent, file:v, file:w, internal:v, internal:w} × 2 measurement shapes, plus unit-metadata records; "+
		"the complete output is read back on every transition; state key = heap dump of Writer and read-back Reader; non-trivial = every transition", replay)
	if c.Replaying() {
		return
	}
	f.Bounds["alphabet"] = len(ops)
	f.Bounds["max_depth"] = depth
	canons := make([]*mc.Canon, mc.Workers())
	for i := range canons {
		canons[i] = readerCanon()
	}
	mk := func(hist []int) []c01Op {
		o := make([]c01Op, len(hist))
		for i, h := range hist {
			o[i] = ops[h]
		}
		return o
	}
	sp := &mc.Space{
		NOps: len(ops), MaxDepth: depth, Stop: c.TimeUp,
		Step: func(w int, hist []int) (string, string, bool) {
			// Domain: a stream carries each piece of unit metadata once (the
			// format de-duplicates repeated metadata by design).
			seenUnit := map[int]bool{}
			for _, h := range hist {
				if ops[h].Kind == "unit" {
					if seenUnit[h] {
						return "", "", true
					}
					seenUnit[h] = true
				}
			}
			var key, msg string
			if p := mc.Catch(func() { key, msg = c01RunB(mk(hist), canons[w]) }); p != "" {
				msg = p
			}
			return key, msg, false
		},
		OnFail: func(hist []int, msg string) { c.Fail(f, "api-roundtrip", mk(hist), msg) },
	}
	sp.Run()
	f.SpaceStats(sp.States, sp.Transitions, sp.Depth, sp.Fixpoint)
	f.Count(sp.Transitions, sp.Transitions)
	f.Outcome("merged-into-known-state", sp.Merged)
	f.Outcome("new-state", sp.States)
	if sp.Capped != "" {
		f.Capped(sp.Capped)
	}
	f.Sample(mk([]int{2, 6}))
	f.Done()
}

// ---- B2: one reused Result edited through the API between writes ----

var c01B2Ops = []string{
	"fill:a: v\nb: w\nBenchmarkX 1 1 u",
	"fill:a: w\nBenchmarkX 1 2 ns/op",
	"fill:BenchmarkY 1 1 u",
	"set:a=", "set:a=v", "set:a=w",
	"set:b=", "set:b=w",
	"write",
}

func c01RunB2(ops []string, canon *mc.Canon) (key, msg string) {
	var out bytes.Buffer
	w := NewWriter(&out)
	cur := &Result{Name: Name("Init"), Iters: 1, Values: []Value{{Value: 1, Unit: "u"}}}
	var want []streamRec
	// model of the edited result's configuration, kept by the harness: key → value and whether it is file
	// configuration (every key parsed from text is; every key set through SetConfig is internal, whatever it was)
	type mcfg struct {
		val  string
		file bool
	}
	model := map[string]mcfg{}
	agree := func(op string) string {
		if len(cur.Config) != len(model) {
			return fmt.Sprintf("after %s: the result has %d configuration entries, the history implies %d (%v)", op, len(cur.Config), len(model), model)
		}
		for _, c := range cur.Config {
			m, ok := model[c.Key]
			if !ok || m.val != string(c.Value) || m.file != c.File {
				return fmt.Sprintf("after %s: key %q is (%q, file=%v) in the result, the history implies (%q, file=%v, present=%v)", op, c.Key, c.Value, c.File, m.val, m.file, ok)
			}
		}
		return ""
	}
	for _, op := range ops {
		switch {
		case strings.HasPrefix(op, "fill:"):
			rd := NewReader(strings.NewReader(op[5:]+"\n"), "src")
			for rd.Scan() {
				if r, ok := rd.Result().(*Result); ok {
					cur = r.Clone()
				}
			}
			model = map[string]mcfg{}
			for _, line := range strings.Split(op[5:], "\n") {
				if k, v, ok := strings.Cut(line, ": "); ok && !strings.HasPrefix(line, "Benchmark") {
					model[k] = mcfg{v, true}
				}
			}
			if m := agree(op); m != "" {
				return "", m
			}
		case strings.HasPrefix(op, "set:"):
			k, v, _ := strings.Cut(op[4:], "=")
			cur.SetConfig(k, v)
			if m := configConsistent(cur); m != "" {
				return "", "after " + op + ": " + m
			}
			if v == "" {
				delete(model, k)
			} else {
				model[k] = mcfg{v, false}
			}
			if m := agree(op); m != "" {
				return "", m
			}
		case op == "write":
			s, _ := asStream(cur)
			want = append(want, s)
			before := describeResult(cur, true)
			if err := w.Write(cur); err != nil {
				return "", "Write: " + err.Error()
			}
			if after := describeResult(cur, true); after != before {
				return "", "Write modified the result"
			}
		}
	}
	var back Reader
	got, m := readBack(out.Bytes(), &back)
	if m == "" {
		m = compareStreams(want, got, nil)
	}
	if m != "" {
		return "", m + fmt.Sprintf(" (output %q)", out.String())
	}
	if canon != nil {
		key = canon.Key(w, &back, cur)
	}
	return key, ""
}

func c01SpaceB2(c *mc.Check, depth int) {
	replay := func(raw json.RawMessage) string {
		var o []string
		if err := json.Unmarshal(raw, &o); err != nil {
			return err.Error()
		}
		var msg string
		if p := mc.Catch(func() { _, msg = c01RunB2(o, nil) }); p != "" {
			return p
		}
		return msg
	}
	f := c.Family("space-edit", "explicit-state BFS over histories of {refill one Result from parsed text (3 texts), SetConfig(k,\"\"|v|w) on it (file→internal flips, deletes on the swap-delete index, re-adds), Write it}; "+
		"output read back on every transition; state key = heap dump of Writer, read-back Reader and the edited Result; non-trivial = every transition", replay)
	if c.Replaying() {
		return
	}
	f.Bounds["alphabet"] = len(c01B2Ops)
	f.Bounds["max_depth"] = depth
	canons := make([]*mc.Canon, mc.Workers())
	for i := range canons {
		canons[i] = readerCanon()
	}
	sp := &mc.Space{
		NOps: len(c01B2Ops), MaxDepth: depth, Stop: c.TimeUp,
		Step: func(w int, hist []int) (string, string, bool) {
			var key, msg string
			if p := mc.Catch(func() { key, msg = c01RunB2(histLines(c01B2Ops, hist), canons[w]) }); p != "" {
				msg = p
			}
			return key, msg, false
		},
		OnFail: func(hist []int, msg string) { c.Fail(f, "edit-roundtrip", histLines(c01B2Ops, hist), msg) },
	}
	sp.Run()
	f.SpaceStats(sp.States, sp.Transitions, sp.Depth, sp.Fixpoint)
	f.Count(sp.Transitions, sp.Transitions)
	f.Outcome("merged-into-known-state", sp.Merged)
	f.Outcome("new-state", sp.States)
	if sp.Capped != "" {
		f.Capped(sp.Capped)
	}
	f.Sample(histLines(c01B2Ops, []int{0, 8, 4, 8}))
	f.Done()
}

// c01Values: every value of the lattice survives the round trip, written as
// a plain measurement and as the original of a rescaled one.
func c01Values(c *mc.Check, n, kmax int) {
	replay := func(raw json.RawMessage) string {
		var bits []uint64
		if err := json.Unmarshal(raw, &bits); err != nil {
			return err.Error()
		}
		vals := make([]float64, len(bits))
		for i, b := range bits {
			vals[i] = math.Float64frombits(b)
		}
		_, msg := c01CheckValues(vals)
		return msg
	}
	f := c.Family("float-values", fmt.Sprintf("every value of a deterministic lattice (±%d ulp around every power of ten 1e-7…1e23, k/997·10^j for k≤%d, neighbourhoods of 2^50…2^64, specials) written through the API as a plain measurement and as the original value of a rescaled measurement, 64 results per stream: the read-back written value is bit-identical; non-trivial = values needing ≥16 significant digits", n, kmax), replay)
	if c.Replaying() {
		return
	}
	vals := valueLattice(n, kmax)
	f.Bounds["values"] = len(vals)
	const batch = 64
	nb := (len(vals) + batch - 1) / batch
	mc.ParRange(uint64(nb), 4, c.TimeUp, func(w int, lo, hi uint64) {
		l := f.Local()
		for b := lo; b < hi; b++ {
			part := vals[b*batch : min(int(b+1)*batch, len(vals))]
			var bad int
			var msg string
			if p := mc.Catch(func() { bad, msg = c01CheckValues(part) }); p != "" {
				bad, msg = 0, p
			}
			for _, v := range part {
				l.Evals++
				if len(strconv.FormatFloat(v, 'e', -1, 64)) >= 20 {
					l.Nontrivial++
					l.Outcome("long-mantissa")
				} else {
					l.Outcome("short-mantissa")
				}
			}
			if msg != "" {
				c.Fail(f, "value-roundtrip", []uint64{math.Float64bits(part[bad])}, msg)
			}
		}
		l.Flush()
	})
	f.Sample(203.18687664732286)
	f.Done()
}

func c01CheckValues(vals []float64) (int, string) {
	var out bytes.Buffer
	w := NewWriter(&out)
	for i, v := range vals {
		tv, tu := benchunit.Tidy(v, "ns/op")
		r := &Result{Name: Name("V"), Iters: i + 1, Values: []Value{{Value: v, Unit: "u"}, {Value: tv, Unit: tu, OrigValue: v, OrigUnit: "ns/op"}}}
		if err := w.Write(r); err != nil {
			return i, err.Error()
		}
	}
	rd := NewReader(bytes.NewReader(out.Bytes()), "out")
	i := 0
	for rd.Scan() {
		res, ok := rd.Result().(*Result)
		if !ok {
			return i, fmt.Sprintf("value %v: writer output does not parse: %v", vals[min(i, len(vals)-1)], rd.Result())
		}
		if i >= len(vals) {
			return len(vals) - 1, "extra result"
		}
		v := vals[i]
		if len(res.Values) != 2 {
			return i, "expected two measurements"
		}
		same := func(a, b float64) bool {
			return math.Float64bits(a) == math.Float64bits(b) || (math.IsNaN(a) && math.IsNaN(b))
		}
		if !same(res.Values[0].Value, v) || res.Values[0].Unit != "u" {
			return i, fmt.Sprintf("value %s (%v u) read back as %s %s", fbits(v), v, fbits(res.Values[0].Value), res.Values[0].Unit)
		}
		ov, ou := res.Values[1].OrigValue, res.Values[1].OrigUnit
		if ou == "" {
			ov, ou = res.Values[1].Value, res.Values[1].Unit
		}
		if !same(ov, v) || ou != "ns/op" {
			return i, fmt.Sprintf("original value %s (%v ns/op) read back as %s %s", fbits(v), v, fbits(ov), ou)
		}
		i++
	}
	if i != len(vals) {
		return min(i, len(vals)-1), fmt.Sprintf("%d results read back, %d written", i, len(vals))
	}
	return 0, ""
}

func TestVerifC01(t *testing.T) {
	c := mc.NewCheck("C01")
	c.Assume("the Reader is the read-back oracle; it is checked against the independent format model by C02")
	c.Assume("domain of API-born streams: keys/values/names the line format can represent")
	c01SpaceA(c, "space-text-core", c01Core, mc.Pick(c, 40, 40), 0)
	c01SpaceA(c, "space-text-full", c01Full, mc.Pick(c, 4, 6), mc.Pick(c, 300000, 3000000))
	c01SpaceB(c, mc.Pick(c, 40, 40))
	c01SpaceB2(c, mc.Pick(c, 40, 40))
	c01Values(c, mc.Pick(c, 64, 1024), mc.Pick(c, 20000, 200000))
	c01Keys(c, mc.Pick(c, 4, 5))
	c01Long(c)
	c01ValLengths(c, mc.Pick(c, 3, 4))
	if code := c.Finish(); code != 0 {
		os.Exit(code)
	}
}
