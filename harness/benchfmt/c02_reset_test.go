//go:build verif

package benchfmt

import (
	"encoding/json"
	"fmt"
	"strings"

	mc "golang.org/x/perf/internal/verifmc"
)

// ---- C02: a reader that is reset before its input has been read to the end ----

var c02ResetFirst = []string{
	"Unit ns/op better=lower assume=exact extra=1\nBenchmarkA 1 1 ns/op\n",
	"Unit ns/op better=lower bogus better=higher\nk: v\nBenchmarkA 1 1 ns/op\n",
	"k: v\nBenchmarkA 1 1 ns/op\nBenchmarkB oops\nj: w\nBenchmarkC 1 2 ns/op\n",
	"Unit x/op a=1 b=2 c=3 d=4\n",
}

var c02ResetSecond = []string{
	"j: z\nBenchmarkN 1 7 ns/op\nBenchmarkM 2 8 ns/op\n",
	"BenchmarkN 1 7 B/op\nUnit B/op better=lower note=n\n",
	"",
}

type c02ResetCase struct {
	First, Second, Consumed int
}

func c02ResetRun(cs c02ResetCase) string {
	read := func(rd *Reader) ([]string, string) {
		var out []string
		for rd.Scan() {
			rec := rd.Result()
			if rec == nil {
				return out, "Scan returned true but Result() is nil"
			}
			out = append(out, describe(rec))
			if len(out) > 100 {
				return out, "more than 100 records"
			}
		}
		return out, ""
	}
	var rd Reader
	rd.Reset(strings.NewReader(c02ResetFirst[cs.First]), "first")
	for i := 0; i < cs.Consumed; i++ {
		if !rd.Scan() {
			break
		}
	}
	rd.Reset(strings.NewReader(c02ResetSecond[cs.Second]), "second")
	got, msg := read(&rd)
	if msg != "" {
		return fmt.Sprintf("after %d records of %q and a Reset, reading %q: %s (records so far %q)", cs.Consumed, c02ResetFirst[cs.First], c02ResetSecond[cs.Second], msg, got)
	}
	// the same second input after the first one was read to its end (the case every other family covers): what is
	// carried over — unit metadata — is the same, so the records are
	var rd2 Reader
	rd2.Reset(strings.NewReader(c02ResetFirst[cs.First]), "first")
	for rd2.Scan() {
	}
	rd2.Reset(strings.NewReader(c02ResetSecond[cs.Second]), "second")
	want, _ := read(&rd2)
	if strings.Join(got, "\n") != strings.Join(want, "\n") {
		return fmt.Sprintf("after %d records of %q and a Reset, %q reads as %q; after reading the first input to its end it reads as %q", cs.Consumed, c02ResetFirst[cs.First], c02ResetSecond[cs.Second], got, want)
	}
	return ""
}

func c02Reset(c *mc.Check) {
	replay := func(raw json.RawMessage) string {
		var cs c02ResetCase
		if err := json.Unmarshal(raw, &cs); err != nil {
			return err.Error()
		}
		var msg string
		if p := mc.Catch(func() { msg = c02ResetRun(cs) }); p != "" {
			return p
		}
		return msg
	}
	f := c.Family("reset-before-the-end", fmt.Sprintf("one reused Reader given %d first inputs (unit lines that yield several records at once, some of them errors; malformed benchmark lines), Reset after EVERY number of records taken from them (0, 1, 2, … up to all) and then given each of %d second inputs: every Scan that returns true has a record, and the second input reads exactly as it does after the first was read to its end; non-trivial = resets in the middle of a line's records", len(c02ResetFirst), len(c02ResetSecond)), replay)
	if c.Replaying() {
		return
	}
	for fi := range c02ResetFirst {
		for si := range c02ResetSecond {
			for k := 0; k <= 12; k++ {
				cs := c02ResetCase{fi, si, k}
				var msg string
				if p := mc.Catch(func() { msg = c02ResetRun(cs) }); p != "" {
					msg = p
				}
				f.Count(1, 1)
				f.Outcome(fmt.Sprintf("ok=%v", msg == ""), 1)
				if msg != "" {
					c.Fail(f, "reader-reset", cs, msg)
				}
			}
		}
	}
	f.Sample(c02ResetCase{0, 0, 1})
	f.Done()
}
