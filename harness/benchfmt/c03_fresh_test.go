//go:build verif

package benchfmt

import (
	"fmt"
	"math"
	"strings"
	"testing"

	mc "golang.org/x/perf/internal/verifmc"
)

// ---- C03: first calls of a fresh process (see mc.FirstCalls) ----

func c03Read(iters, val string) string {
	rd := NewReader(strings.NewReader("BenchmarkX "+iters+" "+val+" u\n"), "f")
	if !rd.Scan() {
		return "no record"
	}
	switch r := rd.Result().(type) {
	case *Result:
		return fmt.Sprintf("iters=%d bits=%x", r.Iters, math.Float64bits(r.Values[0].Value))
	case *SyntaxError:
		return "syntax error: " + r.Msg
	}
	return "?"
}

var c03Calls = []mc.Call{
	{"1 1", func() string { return c03Read("1", "1") }},
	{"decimal slow path", func() string { return c03Read("1", "9007199254740993.0000000000000000000001") }},
	{"halfway", func() string { return c03Read("1", "1.00000000000000011102230246251565404236316680908203125") }},
	{"exact fast path", func() string { return c03Read("1", "1234.5e3") }},
	{"eisel-lemire", func() string { return c03Read("1", "2.2250738585072011e-308") }},
	{"hex", func() string { return c03Read("1", "0x1.000000000000084p0") }},
	{"inf/nan", func() string { return c03Read("1", "-Inf") + " " + c03Read("1", "nan") + " " + c03Read("1", "+nan") }},
	{"iters 2^63", func() string { return c03Read("9223372036854775808", "1") + " " + c03Read("9223372036854775807", "1") }},
	{"1e400 / 1e-400", func() string { return c03Read("1", "1e400") + " " + c03Read("1", "1e-400") }},
	{"underscore", func() string { return c03Read("1_0", "1_0") }},
	{"19 digits", func() string { return c03Read("1", "9223372036854775807") + " " + c03Read("1", "18446744073709551616") }},
}

func TestVerifC03Fresh(t *testing.T) {
	if !mc.FirstCallsChild(c03Calls, "VERIF_C03_CALLS") {
		t.Skip()
	}
}
