//go:build verif

package benchfmt

import (
	"bytes"
	"encoding/json"
	"fmt"
	"math"
	"math/big"
	"os"
	"strconv"
	"strings"
	"sync/atomic"
	"testing"

	mc "golang.org/x/perf/internal/verifmc"
)

// ---- C03: numbers are read as correctly rounded float64 / exact integers ----

type c03Case struct {
	Field string // "value" | "iters"
	Text  string
}

func c03Line(field string, s string) string {
	if field == "value" {
		return "BenchmarkX 1 " + s + " u\n"
	}
	return "BenchmarkX " + s + " 1 u\n"
}

// c03Expect describes the record the format prescribes for the line.
func c03Expect(field, s string) (isErr bool, bits uint64, iters int) {
	if field == "value" {
		v, err := strconv.ParseFloat(s, 64)
		if err != nil {
			return true, 0, 0
		}
		return false, math.Float64bits(v), 1
	}
	n, err := strconv.Atoi(s)
	if err != nil {
		return true, 0, 0
	}
	return false, math.Float64bits(1), n
}

// c03Batch reads one text with a line per numeric text and compares every
// record with strconv. It returns the index of the first failing text.
func c03Batch(field string, texts []string, rd *Reader, buf *bytes.Buffer) (int, string) {
	buf.Reset()
	for _, s := range texts {
		buf.WriteString(c03Line(field, s))
	}
	rd.Reset(bytes.NewReader(buf.Bytes()), "n")
	i := 0
	for rd.Scan() {
		if i >= len(texts) {
			return len(texts) - 1, "extra record"
		}
		rec := rd.Result()
		_, line := rec.Pos()
		if line != i+1 {
			return i, fmt.Sprintf("record for line %d, expected one for line %d", line, i+1)
		}
		wantErr, bits, iters := c03Expect(field, texts[i])
		switch rec := rec.(type) {
		case *SyntaxError:
			if !wantErr {
				return i, fmt.Sprintf("%s %q: syntax error %q, strconv accepts it", field, texts[i], rec.Msg)
			}
		case *Result:
			if wantErr {
				return i, fmt.Sprintf("%s %q: accepted as iters=%d value=%v, strconv rejects it", field, texts[i], rec.Iters, rec.Values[0].Value)
			}
			if len(rec.Values) != 1 || rec.Values[0].Unit != "u" {
				return i, fmt.Sprintf("%s %q: unexpected measurements %v", field, texts[i], rec.Values)
			}
			if got := math.Float64bits(rec.Values[0].Value); got != bits && !exactlyRounded(texts[i], rec.Values[0].Value) {
				return i, fmt.Sprintf("%s %q: value bits %x (%v), strconv gives %x (%v)", field, texts[i], got, rec.Values[0].Value, bits, math.Float64frombits(bits))
			}
			if rec.Iters != iters {
				return i, fmt.Sprintf("%s %q: iters %d, strconv gives %d", field, texts[i], rec.Iters, iters)
			}
		default:
			return i, fmt.Sprintf("unexpected record %T", rec)
		}
		i++
	}
	if rd.Err() != nil {
		return i, "Err: " + rd.Err().Error()
	}
	if i != len(texts) {
		return i, fmt.Sprintf("%s %q: no record for this line", field, texts[i])
	}
	return -1, ""
}

// exactlyRounded reports whether got is the correctly rounded (nearest, ties
// to even) float64 of the decimal text s, computed in exact rationals. It is
// consulted only when the reader and strconv disagree: the standard library's
// own slow path mis-places the decimal point of texts with more than 800
// integer digits when its fast path does not apply, and the property's
// "correctly rounded" then takes precedence over "what strconv returns".
func exactlyRounded(s string, got float64) bool {
	if strings.ContainsAny(s, "xXpP_") || len(s) < 700 {
		return false
	}
	r, ok := new(big.Rat).SetString(s)
	if !ok {
		return false
	}
	f, _ := r.Float64()
	stdlibDisagrees.Add(1)
	return math.Float64bits(f) == math.Float64bits(got)
}

var stdlibDisagrees atomic.Int64

func c03Replay(raw json.RawMessage) string {
	var cs c03Case
	if err := json.Unmarshal(raw, &cs); err != nil {
		return err.Error()
	}
	var msg string
	var rd Reader
	if p := mc.Catch(func() { _, msg = c03Batch(cs.Field, []string{cs.Text}, &rd, &bytes.Buffer{}) }); p != "" {
		return p
	}
	return msg
}

func c03Class(field, s string) string {
	wantErr, bits, _ := c03Expect(field, s)
	if wantErr {
		return "rejected"
	}
	if field == "iters" {
		return "integer"
	}
	v := math.Float64frombits(bits)
	switch {
	case math.IsNaN(v):
		return "nan"
	case math.IsInf(v, 0):
		return "inf"
	case v == 0:
		return "zero"
	case math.Abs(v) < 2.2250738585072014e-308:
		return "subnormal"
	case strings.ContainsAny(s, "xX"):
		return "hex"
	case strings.ContainsAny(s, ".eE"):
		return "decimal"
	}
	return "integer"
}

// c03RunList checks a list of texts in both fields, in batches.
func c03RunList(c *mc.Check, f *mc.Family, texts []string, fields []string) {
	const batch = 512
	nb := (len(texts) + batch - 1) / batch
	for _, field := range fields {
		field := field
		mc.ParRange(uint64(nb), 1, nil, func(w int, lo, hi uint64) {
			var rd Reader
			var buf bytes.Buffer
			l := f.Local()
			for b := lo; b < hi; b++ {
				part := texts[b*batch : min(int(b+1)*batch, len(texts))]
				c03CheckPart(c, f, l, field, part, &rd, &buf)
			}
			l.Flush()
		})
	}
}

func c03CheckPart(c *mc.Check, f *mc.Family, l *mc.Local, field string, part []string, rd *Reader, buf *bytes.Buffer) {
	for len(part) > 0 {
		var idx int
		var msg string
		if p := mc.Catch(func() { idx, msg = c03Batch(field, part, rd, buf) }); p != "" {
			// Find the culprit one by one.
			idx, msg = -1, ""
			for i, s := range part {
				if p1 := mc.Catch(func() { _, msg = c03Batch(field, []string{s}, rd, buf) }); p1 != "" {
					idx, msg = i, p1
					break
				} else if msg != "" {
					idx = i
					break
				}
			}
			if idx < 0 {
				idx, msg = 0, p
			}
		}
		n := len(part)
		if idx >= 0 {
			n = idx + 1
		}
		for _, s := range part[:n] {
			l.Evals++
			cl := c03Class(field, s)
			if cl != "rejected" {
				l.Nontrivial++
			}
			l.Outcome(field + ":" + cl)
		}
		if idx < 0 {
			return
		}
		c.Fail(f, "number-"+field, c03Case{field, part[idx]}, msg)
		part = part[idx+1:]
	}
}

var c03Symbols = []string{"0", "1", "5", "9", ".", "e", "E", "+", "-", "_", "x", "p", "i", "n", "f", "a"}

func c03Strings(c *mc.Check, name string, symbols []string, maxLen int, fields []string) {
	f := c.Family(name, fmt.Sprintf("every string of 1..%d symbols from %v placed in the measurement field and in the iteration-count field of a benchmark line (512 lines per text), read by the real Reader and compared bit for bit with strconv.ParseFloat / strconv.Atoi, error ⇔ SyntaxError record; non-trivial = strconv accepts the text", maxLen, symbols), c03Replay)
	if c.Replaying() {
		return
	}
	f.Bounds["max_len"] = maxLen
	en := mc.NewStrings(symbols, maxLen)
	for _, field := range fields {
		field := field
		done := mc.ParRange(en.Total(), 512, c.TimeUp, func(w int, lo, hi uint64) {
			if lo == 0 {
				lo = 1 // the empty text is not a field
			}
			var rd Reader
			var buf bytes.Buffer
			var sym []int
			var b []byte
			part := make([]string, 0, hi-lo)
			for i := lo; i < hi; i++ {
				sym, b = en.Render(i, sym, b)
				part = append(part, string(b))
			}
			l := f.Local()
			c03CheckPart(c, f, l, field, part, &rd, &buf)
			l.Flush()
		})
		if done < en.Total() {
			f.Capped(fmt.Sprintf("time cap in field %s: %d of %d", field, done, en.Total()))
		}
	}
	f.Sample(c03Case{"value", "1e-5"})
	f.Sample(c03Case{"iters", "+15"})
	f.Done()
}

// exactDecimal returns the exact decimal expansion of a big.Float as an
// integer mantissa string and a decimal exponent.
func exactDecimal(x *big.Float) (digits string, exp10 int) {
	if x.Sign() == 0 {
		return "0", 0
	}
	// x = mant * 2^e with integer mant.
	mant := new(big.Float)
	e := x.MantExp(mant) // x = mant * 2^e, 0.5 <= mant < 1
	prec := int(x.MinPrec())
	mant.SetMantExp(mant, prec)
	e -= prec
	mi, _ := mant.Int(nil)
	if e >= 0 {
		mi.Lsh(mi, uint(e))
		return mi.String(), 0
	}
	// mi / 2^-e = mi * 5^-e / 10^-e
	p5 := new(big.Int).Exp(big.NewInt(5), big.NewInt(int64(-e)), nil)
	mi.Mul(mi, p5)
	return mi.String(), e
}

func decStr(digits string, exp10 int) string {
	return digits + "e" + strconv.Itoa(exp10)
}

// around returns the exact decimal, and the decimals one unit above and
// below in an extra appended digit.
func around(x *big.Float) []string {
	d, e := exactDecimal(x)
	di, _ := new(big.Int).SetString(d, 10)
	t := new(big.Int).Mul(di, big.NewInt(10))
	up := new(big.Int).Add(t, big.NewInt(1))
	dn := new(big.Int).Sub(t, big.NewInt(1))
	return []string{decStr(d, e), decStr(up.String(), e-1), decStr(dn.String(), e-1)}
}

func c03Halfway(c *mc.Check, step int) {
	f := c.Family("halfway", "for every binary exponent −1074…1023 (step given in bounds) × {2^e, its successor, the predecessor of 2^(e+1)}: the exact decimal expansion of the float, of the halfway points to both neighbours, and of each ±1 unit in an extra digit (up to ≈770 digits), both signs for a subset; compared bit for bit with strconv; non-trivial = all (every text sits on or next to a rounding boundary)", c03Replay)
	if c.Replaying() {
		return
	}
	f.Bounds["exponent_step"] = step
	var texts []string
	for e := -1074; e <= 1023; e += step {
		base := math.Ldexp(1, e)
		xs := []float64{base, math.Nextafter(base, math.Inf(1))}
		if e < 1023 {
			xs = append(xs, math.Nextafter(math.Ldexp(1, e+1), 0))
		} else {
			xs = append(xs, math.MaxFloat64)
		}
		for _, x := range xs {
			bx := new(big.Float).SetPrec(2200).SetFloat64(x)
			texts = append(texts, around(bx)...)
			for _, nb := range []float64{math.Nextafter(x, math.Inf(1)), math.Nextafter(x, 0)} {
				var h *big.Float
				if math.IsInf(nb, 0) {
					// halfway between MaxFloat64 and 2^1024
					h = new(big.Float).SetPrec(2200).SetMantExp(big.NewFloat(1), 1024)
					h.Add(h, bx)
				} else {
					h = new(big.Float).SetPrec(2200).SetFloat64(nb)
					h.Add(h, bx)
				}
				h.Quo(h, big.NewFloat(2))
				for _, s := range around(h) {
					texts = append(texts, s)
					if e%64 == 0 {
						texts = append(texts, "-"+s)
					}
					if e%16 == 0 {
						// More than 800 digits: the decimal parser truncates
						// and must remember whether it dropped a non-zero digit.
						m, ex, _ := strings.Cut(s, "e")
						exn, _ := strconv.Atoi(ex)
						texts = append(texts, m+strings.Repeat("0", 850)+"1e"+strconv.Itoa(exn-851))
						texts = append(texts, m+strings.Repeat("0", 850)+"e"+strconv.Itoa(exn-850))
					}
				}
			}
		}
	}
	// halfway below the smallest subnormal
	texts = append(texts, around(new(big.Float).SetPrec(2200).SetMantExp(big.NewFloat(1), -1075))...)
	c03RunList(c, f, texts, []string{"value"})
	f.Set("texts_where_strconv_is_not_correctly_rounded_and_exact_rationals_decided", stdlibDisagrees.Load())
	f.Sample(c03Case{"value", texts[7]})
	f.Done()
}

func c03Powers(c *mc.Check) {
	f := c.Family("powers-of-ten", "d·10^e for d∈1..9, e∈−400..400 written as de±E, as d followed by 15..19 zeros and a 1, and as (d−1) followed by 15..19 nines, compared with strconv; non-trivial = strconv accepts", c03Replay)
	if c.Replaying() {
		return
	}
	var texts []string
	for d := 1; d <= 9; d++ {
		for e := -400; e <= 400; e++ {
			texts = append(texts, fmt.Sprintf("%de%d", d, e), fmt.Sprintf("%dE%+d", d, e))
			for k := 15; k <= 19; k++ {
				texts = append(texts, fmt.Sprintf("%d%s1e%d", d, strings.Repeat("0", k), e-k-1))
				texts = append(texts, fmt.Sprintf("%d%se%d", d-1, strings.Repeat("9", k+1), e-k-1))
				texts = append(texts, fmt.Sprintf("%d.%s1e%d", d, strings.Repeat("0", k), e))
			}
		}
	}
	c03RunList(c, f, texts, []string{"value"})
	f.Sample(c03Case{"value", texts[100]})
	f.Done()
}

func c03HexHalfway(c *mc.Check, tailBits int) {
	f := c.Family("hex-halfway", fmt.Sprintf("hexadecimal floats whose mantissa has more bits than a float64 holds: leading hex digit ∈ {1,3,7,f,8} (so the mantissa must be shifted right by 0…3 bits) × 13 further hex digits from 10 patterns (all zero, all f, even and odd last bit, alternating) × EVERY tail of %d extra bits written as 1–3 more hex digits (so every position of the round bit and of the sticky bits occurs, just below, at and just above each halfway point) × exponents p0, p-1022, p-1023, p-1074, p1023, p1020, p-5, both signs for a subset; compared bit for bit with strconv; non-trivial = tails with a non-zero sticky part", tailBits), c03Replay)
	if c.Replaying() {
		return
	}
	leads := []string{"1", "3", "7", "f", "8"}
	mids := []string{"0000000000000", "fffffffffffff", "0000000000001", "ffffffffffffe", "5555555555555", "aaaaaaaaaaaaa", "8000000000000", "0000000000003", "123456789abcd", "fedcba9876542"}
	exps := []string{"p0", "p-1022", "p-1023", "p-1074", "p1023", "p1020", "p-5"}
	var texts []string
	for _, ld := range leads {
		for _, mid := range mids {
			for t := 0; t < 1<<tailBits; t++ {
				var tails []string
				switch {
				case tailBits <= 4:
					tails = []string{fmt.Sprintf("%x", t)}
				case tailBits <= 8:
					tails = []string{fmt.Sprintf("%02x", t)}
				default:
					tails = []string{fmt.Sprintf("%03x", t)}
				}
				if t < 16 {
					tails = append(tails, fmt.Sprintf("%x", t), fmt.Sprintf("%x000000001", t))
				}
				for _, tl := range tails {
					for ei, e := range exps {
						s := "0x" + ld + "." + mid + tl + e
						texts = append(texts, s)
						if ei == 0 && t%7 == 0 {
							texts = append(texts, "-"+s, "0X"+strings.ToUpper(ld+"."+mid+tl)+"P+0")
						}
					}
				}
			}
		}
	}
	c03RunList(c, f, texts, []string{"value"})
	f.Sample(c03Case{"value", "0x1.000000000000084p0"})
	f.Done()
}

func c03HexPoint(c *mc.Check) {
	f := c.Family("hex-point-positions", "hexadecimal floats of 1…22 significant hex digits (8 digit patterns: all f, a one and zeros, zeros and a one, a counting string, 8 and zeros, f…e, leading zeros, underscore-free) with the point at EVERY position — before the first digit, between any two, after the last, and absent — × exponents p0, p-4, p-1074, p960, p1000: more digits before the point than a 64-bit mantissa holds, all digits behind it, values that round to 2^1024 (out of range); compared bit for bit with strconv; non-trivial = strconv accepts", c03Replay)
	if c.Replaying() {
		return
	}
	const count = "123456789abcdef0fedcba9876543210"
	var texts []string
	for n := 1; n <= 22; n++ {
		pats := []string{
			strings.Repeat("f", n), "1" + strings.Repeat("0", n-1), strings.Repeat("0", n-1) + "1", count[:n],
			"8" + strings.Repeat("0", n-1), strings.Repeat("f", n-1) + "e", "00" + count[:n], "1" + strings.Repeat("f", n-1) + "8",
		}
		for _, d := range pats {
			for k := 0; k <= len(d)+1; k++ {
				var m string
				switch {
				case k == len(d)+1:
					m = d // no point at all
				default:
					m = d[:k] + "." + d[k:]
				}
				for _, e := range []string{"p0", "p-4", "p-1074", "p960", "p1000"} {
					texts = append(texts, "0x"+m+e)
				}
				if k%5 == 0 {
					texts = append(texts, "-0X"+strings.ToUpper(m)+"P+0")
				}
			}
		}
	}
	c03RunList(c, f, texts, []string{"value"})
	f.Sample(c03Case{"value", "0x10000000000000000p0"})
	f.Done()
}

func c03MantExp(c *mc.Check, offsets int) {
	f := c.Family("mantissa-x-exponent", fmt.Sprintf("decimal numbers M·10^e for every mantissa length 1…19, %d mantissas per length (windows of a fixed digit string, so mantissas of every length below, at and above 2^53 and 10^15…10^19) × every exponent −45…45, written as Me<e>, as d.ddd…e<e'> and (for small |e|) without an exponent: the exact-arithmetic fast paths (mantissa and power of ten both exact, the power split in two for e>22) and their limits; compared bit for bit with strconv; non-trivial = strconv accepts", offsets), c03Replay)
	if c.Replaying() {
		return
	}
	const digits = "31415926535897932384626433832795028841971693993751058209749445923078164062862089986280348253421170679"
	var texts []string
	for n := 1; n <= 19; n++ {
		for off := 0; off < offsets; off++ {
			m := strings.TrimLeft(digits[off*3:off*3+n], "0")
			if m == "" {
				continue
			}
			for e := -45; e <= 45; e++ {
				texts = append(texts, fmt.Sprintf("%se%d", m, e))
				if len(m) > 1 {
					texts = append(texts, fmt.Sprintf("%s.%se%d", m[:1], m[1:], e+len(m)-1))
				}
				if e >= 0 && e <= 4 {
					texts = append(texts, m+strings.Repeat("0", e))
				}
				if e < 0 && -e < len(m) {
					texts = append(texts, m[:len(m)+e]+"."+m[len(m)+e:])
				}
			}
		}
	}
	c03RunList(c, f, texts, []string{"value"})
	f.Sample(c03Case{"value", "17331776148e36"})
	f.Done()
}

func c03Exponents(c *mc.Check) {
	f := c.Family("exponent-digit-strings", "exponents written with 1 to 26 digits (all nines, a one followed by zeros, leading zeros in front of a small exponent, the digits of 2^31, 2^32, 2^63, 2^64 and their neighbours) × sign {none,+,-} × mantissas 1, 2.5, 0, 0.001e, 123456789 and the hexadecimal 0x1p / 0x1.8p forms: an exponent too large for any accumulator is still out of range (or rounds to zero) exactly as the standard parser says; compared with strconv; non-trivial = exponents of ≥10 digits", c03Replay)
	if c.Replaying() {
		return
	}
	var exps []string
	for n := 1; n <= 26; n++ {
		exps = append(exps, strings.Repeat("9", n), "1"+strings.Repeat("0", n-1), strings.Repeat("0", n-1)+"7", strings.Repeat("0", n)+"308")
	}
	for _, v := range []string{"2147483647", "2147483648", "4294967295", "4294967296", "4294967297", "9223372036854775807", "9223372036854775808",
		"18446744073709551615", "18446744073709551616", "18446744073709551617", "18446744073709551618", "18446744073709551926", "36893488147419103232", "100000", "99999", "10000", "9999", "400", "308", "324"} {
		exps = append(exps, v)
	}
	var texts []string
	for _, e := range exps {
		for _, sign := range []string{"", "+", "-"} {
			for _, m := range []string{"1", "2.5", "0", "0.001", "123456789", "-1"} {
				texts = append(texts, m+"e"+sign+e, m+"E"+sign+e)
			}
			for _, m := range []string{"0x1", "0x1.8", "-0x1"} {
				texts = append(texts, m+"p"+sign+e)
			}
		}
	}
	c03RunList(c, f, texts, []string{"value"})
	f.Sample(c03Case{"value", "1e18446744073709551617"})
	f.Done()
}

func c03Integers(c *mc.Check) {
	f := c.Family("integer-boundaries", "integers B+δ (δ∈−25..25) around 2^53, 2^63, 2^64, (MaxInt64−10)/10 and its ×10, 10^18, 10^19, 10^22, 10^23, each also ×10^k (k≤21) and with suffixes .0 .5 e0 and leading zeros / signs, and written with underscore-separated digit groups, in both fields; compared with strconv; non-trivial = strconv accepts", c03Replay)
	if c.Replaying() {
		return
	}
	var bases []*big.Int
	pow := func(b, e int64) *big.Int { return new(big.Int).Exp(big.NewInt(b), big.NewInt(e), nil) }
	bases = append(bases, pow(2, 53), pow(2, 63), pow(2, 64), big.NewInt((math.MaxInt64-10)/10),
		new(big.Int).Mul(big.NewInt((math.MaxInt64-10)/10), big.NewInt(10)), pow(10, 18), pow(10, 19), pow(10, 22), pow(10, 23), pow(2, 31), pow(2, 32))
	var texts []string
	for _, b := range bases {
		for k := int64(0); k <= 21; k++ {
			bk := new(big.Int).Mul(b, pow(10, k))
			for d := int64(-25); d <= 25; d++ {
				v := new(big.Int).Add(bk, big.NewInt(d))
				s := v.String()
				texts = append(texts, s)
				if k <= 2 {
					texts = append(texts, "-"+s, "+"+s, "00"+s, s+".0", s+".5", s+"e0", s+"_", "0"+s+"e-1")
				}
				if d == 0 || d == -1 || d == 1 {
					// digit groups separated by underscores (accepted in base-prefixed literals only): long
					// fields take another path through the integer parser than short ones
					var g []byte
					for i := 0; i < len(s); i++ {
						if i > 0 && (len(s)-i)%3 == 0 {
							g = append(g, '_')
						}
						g = append(g, s[i])
					}
					texts = append(texts, string(g), "+"+string(g), "-"+string(g), "0"+string(g), string(g)+".0", "0x"+string(g))
				}
			}
		}
	}
	c03RunList(c, f, texts, []string{"value", "iters"})
	f.Sample(c03Case{"iters", "9223372036854775808"})
	f.Sample(c03Case{"value", "922337203685477579"})
	f.Done()
}

func c03Special(c *mc.Check) {
	f := c.Family("special-spellings", "every prefix of inf/infinity/nan in every letter case with signs {\"\",+,-}, and every near-miss obtained by one substitution or one appended character from {x,i,n,f,0,_}; both fields; compared with strconv; non-trivial = strconv accepts", c03Replay)
	if c.Replaying() {
		return
	}
	seen := map[string]bool{}
	var texts []string
	add := func(s string) {
		if s != "" && !seen[s] {
			seen[s] = true
			texts = append(texts, s)
		}
	}
	for _, word := range []string{"inf", "infinity", "nan"} {
		for pl := 1; pl <= len(word); pl++ {
			p := word[:pl]
			for mask := 0; mask < 1<<pl; mask++ {
				b := []byte(p)
				for i := range b {
					if mask&(1<<i) != 0 {
						b[i] -= 32
					}
				}
				for _, sign := range []string{"", "+", "-", "--", "+-"} {
					s := sign + string(b)
					add(s)
					if mask == 0 || mask == 1<<pl-1 || mask == 1 {
						for _, x := range []string{"x", "i", "n", "f", "0", "_", "."} {
							add(s + x)
							for i := range b {
								add(sign + string(b[:i]) + x + string(b[i+1:]))
							}
						}
					}
				}
			}
		}
	}
	c03RunList(c, f, texts, []string{"value", "iters"})
	f.Sample(c03Case{"value", "+InFiNiTy"})
	f.Sample(c03Case{"value", "+nan"})
	f.Done()
}

func c03Shortest(c *mc.Check, n, kmax int) {
	f := c.Family("printed-floats", fmt.Sprintf("every value of the deterministic lattice (±%d ulp around powers of ten 1e-7…1e23, k/997·10^j for k≤%d, neighbourhoods of 2^50…2^64) printed as its shortest round-tripping decimal in plain ('f'), exponent ('e') and %%v notation and with 17 significant digits: read back bit for bit as strconv does; non-trivial = accepted texts", n, kmax), c03Replay)
	if c.Replaying() {
		return
	}
	var texts []string
	for _, v := range valueLattice(n, kmax) {
		if math.IsNaN(v) || math.IsInf(v, 0) {
			continue
		}
		texts = append(texts, strconv.FormatFloat(v, 'e', -1, 64), strconv.FormatFloat(v, 'g', 17, 64), fmt.Sprint(v))
		if a := math.Abs(v); a == 0 || (a > 1e-30 && a < 1e40) {
			texts = append(texts, strconv.FormatFloat(v, 'f', -1, 64))
		}
	}
	f.Bounds["texts"] = len(texts)
	c03RunList(c, f, texts, []string{"value"})
	f.Sample(c03Case{"value", "203.18687664732286"})
	f.Done()
}

func TestVerifC03(t *testing.T) {
	c := mc.NewCheck("C03")
	c.Assume("strconv.ParseFloat / strconv.Atoi define correct rounding and the accepted syntax")
	c03Strings(c, "symbol-strings", c03Symbols, mc.Pick(c, 6, 7), []string{"value", "iters"})
	c03Strings(c, "hex-strings", []string{"0", "x", "1", "f", ".", "p", "+", "-", "4", "_"}, mc.Pick(c, 7, 8), []string{"value"})
	c03Halfway(c, 1)
	c03HexHalfway(c, mc.Pick(c, 8, 12))
	c03HexPoint(c)
	c03Powers(c)
	c03MantExp(c, mc.Pick(c, 12, 27))
	c03Exponents(c)
	c03Integers(c)
	c03Special(c)
	c03Shortest(c, mc.Pick(c, 64, 1024), mc.Pick(c, 20000, 200000))
	mc.FirstCalls(c, c03Calls, "TestVerifC03Fresh", "VERIF_C03_CALLS")
	if code := c.Finish(); code != 0 {
		os.Exit(code)
	}
}
