//go:build verif

package app

import (
	"bytes"
	"encoding/json"
	"fmt"
	"io"
	"mime/multipart"
	"net/http"
	"net/http/httptest"
	"os"
	"path/filepath"
	"sort"
	"strconv"
	"strings"
	"unicode"

	"golang.org/x/perf/storage/benchfmt"
	"golang.org/x/perf/storage/db"
	_ "golang.org/x/perf/storage/db/sqlite3"
	"golang.org/x/perf/storage/fs"
)

// ---- a server instance on a file-backed sqlite database ----

type vApp struct {
	dir string
	db  *db.DB
	fs  fs.FS
	mem *fs.MemFS
	app *App
	mux *http.ServeMux
}

func newVApp(filesys fs.FS) *vApp {
	dir, err := os.MkdirTemp("", "verif-store-")
	if err != nil {
		panic(err)
	}
	d, err := db.OpenSQL("sqlite3", "file:"+filepath.Join(dir, "db.sqlite")+"?_busy_timeout=10000")
	if err != nil {
		panic(err)
	}
	v := &vApp{dir: dir, db: d}
	if filesys == nil {
		v.mem = fs.NewMemFS()
		filesys = v.mem
	}
	v.fs = filesys
	v.app = &App{DB: d, FS: filesys, Auth: func(http.ResponseWriter, *http.Request) (string, error) { return "user", nil }}
	v.mux = http.NewServeMux()
	v.app.RegisterOnMux(v.mux)
	return v
}

func (v *vApp) Close() {
	v.db.Close()
	os.RemoveAll(v.dir)
}

type upPart struct {
	Field, FileName, Content string
}

const vBoundary = "verifboundary0123456789"

// mwPostN writes the multipart encoding of the first n parts to w (without
// the closing boundary).
func mwPostN(parts []upPart, n int, w io.Writer) *multipart.Writer {
	mw := multipart.NewWriter(w)
	mw.SetBoundary(vBoundary)
	for _, p := range parts[:n] {
		var pw io.Writer
		if p.Field == "file" {
			pw, _ = mw.CreateFormFile("file", p.FileName)
		} else {
			pw, _ = mw.CreateFormField(p.Field)
		}
		io.WriteString(pw, p.Content)
	}
	return mw
}

// mwPost writes the complete multipart body.
func mwPost(parts []upPart, w io.Writer) string {
	mw := mwPostN(parts, len(parts), w)
	mw.Close()
	return mw.FormDataContentType()
}

// post sends a multipart upload (cut after truncate bytes if truncate >= 0)
// and returns status code and body.
func (v *vApp) post(parts []upPart, truncate int) (int, string) {
	var body bytes.Buffer
	ctype := mwPost(parts, &body)
	b := body.Bytes()
	if truncate >= 0 && truncate < len(b) {
		b = b[:truncate]
	}
	req := httptest.NewRequest("POST", "/upload", bytes.NewReader(b))
	req.Header.Set("Content-Type", ctype)
	rec := httptest.NewRecorder()
	v.mux.ServeHTTP(rec, req)
	return rec.Code, rec.Body.String()
}

func (v *vApp) get(path string) (int, string) {
	req := httptest.NewRequest("GET", path, nil)
	rec := httptest.NewRecorder()
	v.mux.ServeHTTP(rec, req)
	return rec.Code, rec.Body.String()
}

func uploadID(body string) string {
	var st struct {
		UploadID string   `json:"uploadid"`
		FileIDs  []string `json:"fileids"`
	}
	json.Unmarshal([]byte(body), &st)
	return st.UploadID
}

// ---- reference store ----

type refRecord struct {
	Upload string
	Labels map[string]string // file labels ∪ server labels ∪ name labels
	Lines  []string
}

// refParseFile parses one uploaded file the way the legacy format prescribes
// and groups consecutive results with identical labels into records.
func refParseFile(text string, server map[string]string, prev *refRecord, out *[]*refRecord, upload string) *refRecord {
	labels := map[string]string{}
	for k, v := range server {
		labels[k] = v
	}
	for _, line := range strings.Split(text, "\n") {
		line = strings.TrimSuffix(line, "\r")
		if k, v, ok := refKeyValue(line); ok {
			if _, perm := server[k]; perm {
				continue
			}
			if v == "" {
				delete(labels, k)
			} else {
				labels[k] = v
			}
			continue
		}
		sp := strings.IndexFunc(line, unicode.IsSpace)
		if sp < 0 || !strings.HasPrefix(line[:sp], "Benchmark") {
			continue
		}
		all := map[string]string{}
		for k, v := range labels {
			all[k] = v
		}
		for k, v := range refNameLabels(line[len("Benchmark"):sp]) {
			all[k] = v
		}
		if prev != nil && sameMap(prev.Labels, all) {
			prev.Lines = append(prev.Lines, line)
			continue
		}
		prev = &refRecord{Upload: upload, Labels: all, Lines: []string{line}}
		*out = append(*out, prev)
	}
	return prev
}

func sameMap(a, b map[string]string) bool {
	if len(a) != len(b) {
		return false
	}
	for k, v := range a {
		if b[k] != v {
			return false
		}
	}
	return true
}

func refKeyValue(line string) (string, string, bool) {
	colon := -1
	for i, r := range line {
		if i == 0 && !unicode.IsLower(r) {
			return "", "", false
		}
		if unicode.IsSpace(r) || unicode.IsUpper(r) {
			return "", "", false
		}
		if r == ':' {
			colon = i
			break
		}
	}
	if colon <= 0 {
		return "", "", false
	}
	k, v := line[:colon], line[colon+1:]
	if v == "" {
		return k, "", true
	}
	if v[0] != ' ' && v[0] != '\t' {
		return "", "", false
	}
	return k, strings.TrimLeft(v, " \t"), true
}

func refNameLabels(name string) map[string]string {
	out := map[string]string{}
	if d := strings.LastIndex(name, "-"); d >= 0 {
		if _, err := strconv.Atoi(name[d+1:]); err == nil {
			out["gomaxprocs"] = name[d+1:]
			name = name[:d]
		}
	}
	parts := strings.Split(name, "/")
	out["name"] = parts[0]
	for i, p := range parts[1:] {
		if eq := strings.Index(p, "="); eq >= 0 {
			out[p[:eq]] = p[eq+1:]
		} else {
			out[fmt.Sprintf("sub%d", i+1)] = p
		}
	}
	return out
}

// term is one query term.
type term struct {
	Key, Op, Val string
}

func (t term) word() string {
	w := t.Key + t.Op + t.Val
	if strings.ContainsAny(w, " \t\"\\") {
		w = `"` + strings.NewReplacer(`\`, `\\`, `"`, `\"`).Replace(w) + `"`
	}
	return w
}

func (t term) matches(r *refRecord) bool {
	var v string
	var ok bool
	if t.Key == "upload" {
		v, ok = r.Upload, true
	} else {
		v, ok = r.Labels[t.Key]
	}
	if !ok {
		return false
	}
	switch t.Op {
	case ":":
		return v == t.Val
	case "<":
		return v < t.Val
	}
	if t.Val == "" {
		return true
	}
	return v > t.Val
}

// queryError reports whether the documented grammar rejects the conjunction.
func queryError(ts []term) bool {
	byKey := map[string][]term{}
	for _, t := range ts {
		byKey[t.Key] = append(byKey[t.Key], t)
	}
	for _, t := range ts {
		if t.Op == ":" && t.Val == "" && t.Key != "upload" {
			return true
		}
	}
	return false
}

func recordKey(labels map[string]string, line string) string {
	var ks []string
	for k, v := range labels {
		ks = append(ks, k+"="+v)
	}
	sort.Strings(ks)
	return line + "\x00" + strings.Join(ks, "\x01")
}

// resultKey renders a result of the implementation the same way.
func resultKey(r *benchfmt.Result) string {
	all := map[string]string{}
	for k, v := range r.Labels {
		all[k] = v
	}
	for k, v := range r.NameLabels {
		all[k] = v
	}
	return recordKey(all, r.Content)
}
