//go:build verif

package app

import (
	"bytes"
	"encoding/json"
	"fmt"
	"os"
	"sort"
	"strings"
	"testing"

	mc "golang.org/x/perf/internal/verifmc"
	"golang.org/x/perf/storage/benchfmt"
	"golang.org/x/perf/storage/query"
)

// ---- C19: stored results come back exactly, and queries mean what they say ----

var c19Files = []string{
	// consecutive results with equal labels (one record), then a changed label
	"k: a\nBenchmarkA 1 1 ns/op\nBenchmarkA 1 2 ns/op\nk: b\nBenchmarkA 1 3 ns/op\n",
	// a value needing quoting, a deleted label, sub-names and -N
	"k: a\nj: x y\nBenchmarkB/sub/k2=v-4 1 1 ns/op\nj:\nBenchmarkB/sub/k2=v-4 1 2 ns/op\n",
	// label set after the first result, two names
	"BenchmarkC 1 1 ns/op\nk: zz\nBenchmarkC-8 1 2 ns/op\nBenchmarkA 1 5 ns/op\n",
	// re-added label, same name as file 0
	"k: a\nBenchmarkA 1 7 ns/op\nk:\nBenchmarkA 1 8 ns/op\nk: c\nBenchmarkA 1 9 ns/op\n",
	// a quote and a backslash in a value; foreign lines; names with inner dashes, with and without the -N suffix
	"j: q\"u\\o\nPASS\nBenchmarkD 1 1 ns/op\nok pkg 1s\nBenchmarkE-x/utf-8-4 1 1 ns/op\nBenchmarkE-x/utf-8 1 2 ns/op\n",
	// lines naming the labels the server adds (empty-valued, and with another value): they are the server's, a
	// file can neither remove nor change them
	"k: a\nBenchmarkA 1 1 ns/op\nby:\nupload-part:\nupload: other\nupload-file:\nupload-time:\nBenchmarkA 1 2 ns/op\nk: b\nBenchmarkA 1 3 ns/op\n",
	// a ladder of values of one key (for conjunctions of several range terms on that key)
	"k: a\nBenchmarkL 1 1 ns/op\nk: b\nBenchmarkL 1 2 ns/op\nk: c\nBenchmarkL 1 3 ns/op\nk: d\nBenchmarkL 1 4 ns/op\nk: e\nBenchmarkL 1 5 ns/op\nk: f\nBenchmarkL 1 6 ns/op\nk: g\nBenchmarkL 1 7 ns/op\nk:\nBenchmarkL 1 8 ns/op\n",
	// configuration lines that leave the labels as they were: a label restated verbatim, a key set and removed again,
	// a value changed and changed back — the results around them have equal labels and are ONE record
	"k: a\nBenchmarkA 1 1 ns/op\nk: a\nBenchmarkA 1 2 ns/op\nz: 1\nz:\nBenchmarkA 1 3 ns/op\nk: b\nk: a\nBenchmarkA 1 4 ns/op\nk: b\nBenchmarkA 1 5 ns/op\nj: tuned \nBenchmarkA 1 6 ns/op\nj: tuned\nBenchmarkA 1 7 ns/op\n",
}

// uploads of the state alphabet: lists of file indices
var c19Uploads = [][]int{{0}, {1}, {2}, {0, 1}, {1, 0}, {2, 3}, {4, 7}, {5, 3}, {6}}

// c19FileName: files are called f<i>.txt, except that the second file of upload {1, 0} and the first of {2, 3} are
// sent without a name (allowed by the client API): each file's server labels are its own.
func c19FileName(ui, fi int) string {
	if (ui == 4 && fi == 1) || (ui == 5 && fi == 0) {
		return ""
	}
	return fmt.Sprintf("f%d.txt", fi)
}

// c19MainUploads is the number of uploads the history enumeration draws from;
// the ladder upload (index 8) is only used by the one-key family.
const c19MainUploads = 8

type c19State []int // upload indices

type c19Case struct {
	State c19State
	Terms []term
	Limit int
}

type builtState struct {
	v       *vApp
	records []*refRecord
	ids     []string
}

func buildState(st c19State) (*builtState, string) {
	v := newVApp(nil)
	bs := &builtState{v: v}
	for _, ui := range st {
		var parts []upPart
		for fi, f := range c19Uploads[ui] {
			parts = append(parts, upPart{"file", c19FileName(ui, fi), c19Files[f]})
		}
		code, body := v.post(parts, -1)
		if code != 200 {
			v.Close()
			return nil, fmt.Sprintf("upload %v failed: %d %s", c19Uploads[ui], code, body)
		}
		id := uploadID(body)
		bs.ids = append(bs.ids, id)
		var prev *refRecord
		for fi, f := range c19Uploads[ui] {
			server := map[string]string{"upload": id, "upload-part": fmt.Sprintf("%s/%d", id, fi), "by": "user", "upload-time": "T"}
			if n := c19FileName(ui, fi); n != "" {
				server["upload-file"] = n // the server labels a file with its name only if it has one
			}
			prev = refParseFile(c19Files[f], server, prev, &bs.records, id)
		}
	}
	return bs, ""
}

func stripTime(s string) string {
	// the upload time is the server's clock; it is not compared
	i := strings.Index(s, "upload-time=")
	if i < 0 {
		return s
	}
	j := strings.IndexByte(s[i:], '\x01')
	if j < 0 {
		return s[:i] + "upload-time=T"
	}
	return s[:i] + "upload-time=T" + s[i+j:]
}

func c19CheckQuery(bs *builtState, ts []term, limit int, viaHTTP bool) (msg, sig string) {
	var words []string
	for _, t := range ts {
		words = append(words, t.word())
	}
	q := strings.Join(words, " ")
	wantErr := queryError(ts)
	// expected records
	var want []string
	perUpload := map[string]int{}
	for _, r := range bs.records {
		ok := true
		for _, t := range ts {
			if !t.matches(r) {
				ok = false
			}
		}
		if !ok {
			continue
		}
		perUpload[r.Upload]++
		for _, l := range r.Lines {
			want = append(want, recordKey(r.Labels, l))
		}
	}
	sort.Strings(want)
	// --- Query ---
	var got []string
	if viaHTTP {
		code, body := bs.v.get("/search?q=" + urlEscape(q))
		if code != 200 && !wantErr {
			return fmt.Sprintf("/search %q: status %d %s", q, code, body), "query-status"
		}
		if code == 200 {
			br := benchfmt.NewReader(strings.NewReader(body))
			for br.Next() {
				got = append(got, stripTime(resultKey(br.Result())))
			}
			if br.Err() != nil {
				return fmt.Sprintf("/search %q: reading the response: %v", q, br.Err()), "query-read"
			}
		}
	} else {
		qr := bs.v.db.Query(q)
		for qr.Next() {
			got = append(got, stripTime(resultKey(qr.Result())))
		}
		err := qr.Err()
		qr.Close()
		// An equality term with an empty value can match nothing (labels
		// never have empty values): an error and an empty result are both
		// faithful answers.
		if err != nil && !wantErr {
			return fmt.Sprintf("Query(%q): unexpected error %v", q, err), "query-error"
		}
		if wantErr && err != nil {
			got = nil
		}
	}
	{
		sort.Strings(got)
		if strings.Join(got, "\n") != strings.Join(want, "\n") {
			return fmt.Sprintf("Query(%q) on uploads %v returned %d results, expected %d:\n got  %q\n want %q", q, bs.ids, len(got), len(want), got, want), "query-results"
		}
	}
	// --- ListUploads ---
	type ui struct {
		UploadID string
		Count    int
	}
	var gotL []ui
	var lerr error
	if viaHTTP {
		path := "/uploads?q=" + urlEscape(q)
		if limit >= 0 {
			path += fmt.Sprintf("&limit=%d", limit)
		}
		code, body := bs.v.get(path)
		if code != 200 {
			lerr = fmt.Errorf("status %d: %s", code, strings.TrimSpace(body))
		} else {
			dec := json.NewDecoder(strings.NewReader(body))
			for dec.More() {
				var u ui
				if err := dec.Decode(&u); err != nil {
					return "bad /uploads JSON: " + err.Error(), "uploads-json"
				}
				gotL = append(gotL, u)
			}
		}
	} else {
		lim := limit
		if lim < 0 {
			lim = 0
		}
		ul := bs.v.db.ListUploads(q, nil, lim)
		for ul.Next() {
			gotL = append(gotL, ui{ul.Info().UploadID, ul.Info().Count})
		}
		lerr = ul.Err()
		ul.Close()
	}
	if lerr != nil && !wantErr {
		return fmt.Sprintf("ListUploads(%q): err=%v although the query is well formed (it matches %d records)", q, lerr, len(want)), "uploads-error"
	}
	if lerr != nil {
		return "", ""
	}
	var wantL []ui
	for i := len(bs.ids) - 1; i >= 0; i-- { // newest first
		if n := perUpload[bs.ids[i]]; n > 0 {
			wantL = append(wantL, ui{bs.ids[i], n})
		}
	}
	if limit > 0 && len(wantL) > limit {
		wantL = wantL[:limit]
	}
	if fmt.Sprint(gotL) != fmt.Sprint(wantL) {
		return fmt.Sprintf("ListUploads(%q, limit %d) = %v, expected %v (matching stored records per upload, newest first)", q, limit, gotL, wantL), "uploads-list"
	}
	return "", ""
}

func urlEscape(s string) string {
	var b strings.Builder
	for i := 0; i < len(s); i++ {
		c := s[i]
		if c >= 'a' && c <= 'z' || c >= 'A' && c <= 'Z' || c >= '0' && c <= '9' || c == '-' || c == '.' {
			b.WriteByte(c)
		} else {
			fmt.Fprintf(&b, "%%%02X", c)
		}
	}
	return b.String()
}

func c19Terms(ids []string) []term {
	var ts []term
	add := func(k, op, v string) { ts = append(ts, term{k, op, v}) }
	for _, op := range []string{":", "<", ">"} {
		for _, v := range []string{"a", "b", "ab", "zzz"} {
			add("k", op, v)
		}
	}
	add("k", ">", "")
	add("k", "<", "")
	add("k", ":", "")
	add("j", ":", "x y")
	add("j", ">", "")
	add("j", "<", "y")
	add("j", ":", "q\"u\\o")
	// values that read like further terms: written quoted, `k:"a name:A"` is ONE term although its words, joined by
	// blanks, spell the conjunction `k:a name:A` (which the enumeration also asks, on the same server process)
	add("k", ":", "a name:A")
	add("k", ">", "a k<b")
	add("name", ":", "A")
	add("name", ">", "A")
	add("name", "<", "C")
	add("sub1", ":", "sub")
	// names with a dash that is not the -N suffix (only the LAST dash, followed by digits, is one)
	add("sub1", ":", "utf-8")
	// a label value that ends in a blank is another value than the same text without it
	add("j", ":", "tuned ")
	add("j", ":", "tuned")
	add("j", ">", "tuned")
	add("name", ":", "E-x")
	add("k2", ":", "v")
	add("gomaxprocs", ":", "4")
	add("gomaxprocs", ">", "4")
	add("missing", ">", "")
	add("missing", ":", "x")
	add("by", ":", "user")
	add("upload-file", ":", "f0.txt")
	add("upload-file", ">", "")
	if len(ids) > 0 {
		add("upload", ":", ids[0])
		add("upload", ">", ids[0])
		add("upload", "<", ids[len(ids)-1])
		add("upload-part", ":", ids[0]+"/1")
		add("upload", ":", "nosuch")
	}
	return ts
}

func c19Replay(raw json.RawMessage) string {
	var cs c19Case
	if err := json.Unmarshal(raw, &cs); err != nil {
		return err.Error()
	}
	bs, m := buildState(cs.State)
	if m != "" {
		return m
	}
	defer bs.v.Close()
	// upload IDs in a replayed state are the same as long as the day is;
	// terms naming an ID are rebound by position
	var msg string
	if p := mc.Catch(func() { msg, _ = c19CheckQuery(bs, cs.Terms, cs.Limit, false) }); p != "" {
		return p
	}
	if msg == "" {
		if p := mc.Catch(func() { msg, _ = c19CheckQuery(bs, cs.Terms, cs.Limit, true) }); p != "" {
			return p
		}
	}
	return msg
}

func c19Space(c *mc.Check, maxUploads, maxTerms int) {
	f := c.Family("upload-histories-x-queries", fmt.Sprintf("every sequence of ≤%d successful uploads from %d uploads of 1–2 files (label set/changed/deleted/re-added, consecutive results with equal labels coalescing into one record, sub-names and -N, values with blanks, quotes and backslashes, foreign lines) on a fresh sqlite database × every ordered conjunction of ≤%d terms from ≈40 (keys k, j, name, sub1, k2, gomaxprocs, by, upload, upload-part, missing × {:,<,>} × present/absent/between/empty/quoted values, incl. contradictory and redundant pairs): Query returns exactly the stored results whose labels satisfy every term, each once, line and labels intact; ListUploads reports per upload the number of matching stored records, newest first, for limits {0,1,2}; errors only for an empty equality value; a sub-lattice is repeated through the HTTP handlers (/search re-serialised by the printer and re-read by the client's reader, /uploads); non-trivial = conjunctions of ≥2 terms", maxUploads, c19MainUploads, maxTerms), c19Replay)
	if c.Replaying() {
		return
	}
	f.Bounds["max_uploads"], f.Bounds["max_terms"] = maxUploads, maxTerms
	var states []c19State
	for n := 1; n <= maxUploads; n++ {
		mc.Sequences(c19MainUploads, n, func(m []int) { states = append(states, append(c19State{}, m...)) })
	}
	f.Bounds["states"] = len(states)
	done := mc.ParRange(uint64(len(states)), 1, c.TimeUp, func(w int, lo, hi uint64) {
		l := f.Local()
		for si := lo; si < hi; si++ {
			st := states[si]
			bs, m := buildState(st)
			if m != "" {
				c.Fail(f, "upload-failed", c19Case{State: st}, m)
				continue
			}
			terms := c19Terms(bs.ids)
			var conj [][]term
			for _, a := range terms {
				conj = append(conj, []term{a})
				if maxTerms >= 2 {
					for _, b := range terms {
						conj = append(conj, []term{a, b})
					}
				}
			}
			if maxTerms >= 3 {
				// triples on the keys whose merging logic has three-way cases
				var kt []term
				for _, t := range terms {
					if t.Key == "k" || t.Key == "upload" {
						kt = append(kt, t)
					}
				}
				for _, a := range kt {
					for _, b := range kt {
						for _, cc := range kt {
							conj = append(conj, []term{a, b, cc})
						}
					}
				}
			}
			for qi, ts := range conj {
				limit := []int{0, 1, 2}[qi%3]
				viaHTTP := qi%7 == 0
				var msg, sig string
				if p := mc.Catch(func() { msg, sig = c19CheckQuery(bs, ts, limit, viaHTTP) }); p != "" {
					msg, sig = p, "panic"
				}
				l.Evals++
				if len(ts) >= 2 {
					l.Nontrivial++
				}
				if msg != "" {
					l.Outcome("violation:" + sig)
					if sig == "uploads-error" && isContradiction(ts) {
						sig = "uploads-error-contradictory-terms"
					}
					c.Fail(f, sig, c19Case{st, ts, limit}, msg)
				} else {
					l.Outcome("ok")
				}
			}
			bs.v.Close()
		}
		l.Flush()
	})
	if done < uint64(len(states)) {
		f.Capped(fmt.Sprintf("time cap: %d of %d states", done, len(states)))
	}
	f.Sample(c19Case{c19State{3, 5}, []term{{"k", ":", "a"}, {"name", ">", "A"}}, 1})
	f.Done()
}

// isContradiction: several terms on one key that no value can satisfy.
// c19OneKey: every ordered conjunction of up to maxTerms terms on ONE key. The
// merging of several terms on a key has cases that only a third or fourth term
// reaches (a range merged into an already merged range).
func c19OneKey(c *mc.Check, maxTerms int) {
	f := c.Family("one-key-conjunctions", fmt.Sprintf("stores {a ladder of 8 results with k = a…g and absent; the same after an earlier two-file upload} × EVERY ordered conjunction of ≤%d terms on the single key k from {k:v, k<v, k>v for v ∈ {b, d, f}; k>\"\"}: Query and ListUploads (limits 0,1,2; every 7th through the HTTP handlers) must return exactly what the conjunction of the terms selects from the reference store; non-trivial = ≥3 terms", maxTerms), c19Replay)
	if c.Replaying() {
		return
	}
	f.Bounds["max_terms"] = maxTerms
	var terms []term
	for _, v := range []string{"b", "d", "f"} {
		for _, op := range []string{":", "<", ">"} {
			terms = append(terms, term{"k", op, v})
		}
	}
	terms = append(terms, term{"k", ">", ""})
	states := []c19State{{8}, {3, 8}}
	var conj [][]int
	for n := 1; n <= maxTerms; n++ {
		mc.Sequences(len(terms), n, func(m []int) { conj = append(conj, append([]int{}, m...)) })
	}
	f.Bounds["conjunctions"] = len(conj)
	for _, st := range states {
		done := mc.ParRange(uint64(len(conj)), 64, c.TimeUp, func(w int, lo, hi uint64) {
			bs, m := buildState(st)
			if m != "" {
				c.Fail(f, "upload-failed", c19Case{State: st}, m)
				return
			}
			defer bs.v.Close()
			l := f.Local()
			for qi := lo; qi < hi; qi++ {
				var ts []term
				for _, ti := range conj[qi] {
					ts = append(ts, terms[ti])
				}
				limit := []int{0, 1, 2}[qi%3]
				var msg, sig string
				if p := mc.Catch(func() { msg, sig = c19CheckQuery(bs, ts, limit, qi%7 == 0) }); p != "" {
					msg, sig = p, "panic"
				}
				l.Evals++
				if len(ts) >= 3 {
					l.Nontrivial++
				}
				if msg != "" {
					l.Outcome("violation:" + sig)
					if sig == "uploads-error" && isContradiction(ts) {
						sig = "uploads-error-contradictory-terms"
					}
					c.Fail(f, sig, c19Case{st, ts, limit}, msg)
				} else if isContradiction(ts) {
					l.Outcome("ok-contradictory")
				} else {
					l.Outcome("ok")
				}
			}
			l.Flush()
		})
		if done < uint64(len(conj)) {
			f.Capped(fmt.Sprintf("time cap: %d of %d conjunctions", done, len(conj)))
		}
	}
	f.Sample(c19Case{c19State{8}, []term{{"k", ">", "b"}, {"k", "<", "f"}, {"k", ">", "d"}}, 0})
	f.Done()
}

func isContradiction(ts []term) bool {
	byKey := map[string][]term{}
	for _, t := range ts {
		byKey[t.Key] = append(byKey[t.Key], t)
	}
	for _, g := range byKey {
		if len(g) < 2 {
			continue
		}
		// brute force over a small universe of candidate values
		cands := []string{"", "a", "aa", "ab", "b", "c", "zz", "zzz", "zzzz", "A", "B", "C", "x y", "user", "4", "5"}
		for _, t := range g {
			cands = append(cands, t.Val, t.Val+"\x00", strings.TrimSuffix(t.Val, t.Val[max(0, len(t.Val)-1):]))
		}
		sat := false
		for _, v := range cands {
			ok := true
			for _, t := range g {
				r := &refRecord{Upload: v, Labels: map[string]string{t.Key: v}}
				if !t.matches(r) {
					ok = false
				}
			}
			if ok {
				sat = true
			}
		}
		if !sat {
			return true
		}
	}
	return false
}

// ---- word splitting ----

// refSplit splits shell-style: blanks separate words, double quotes group,
// a backslash makes the next character literal (inside and outside quotes);
// words that end up empty are dropped.
func refSplit(q string) []string {
	var words []string
	var cur bytes.Buffer
	inWord := false
	quoting := false
	for i := 0; i < len(q); i++ {
		c := q[i]
		switch {
		case c == '\\':
			if i+1 < len(q) {
				i++
				cur.WriteByte(q[i])
				inWord = true
			}
		case c == '"':
			quoting = !quoting
		case (c == ' ' || c == '\t') && !quoting:
			if cur.Len() > 0 {
				words = append(words, cur.String())
			}
			cur.Reset()
			inWord = false
		default:
			cur.WriteByte(c)
			inWord = true
		}
	}
	_ = inWord
	if cur.Len() > 0 {
		words = append(words, cur.String())
	}
	return words
}

func c19Split(c *mc.Check, maxLen int) {
	// only the blank and the tab separate words: other white space (a no-break space, a form feed, an
	// ideographic space) is part of a word, as it is part of a label value
	syms := []string{"a", "b", " ", "\t", "\"", "\\", "\u00a0", "\f", "\u3000"}
	replay := func(raw json.RawMessage) string {
		var s string
		json.Unmarshal(raw, &s)
		got, want := query.SplitWords(s), refSplit(s)
		if fmt.Sprintf("%q", got) != fmt.Sprintf("%q", want) {
			return fmt.Sprintf("SplitWords(%q) = %q, shell-style splitting gives %q", s, got, want)
		}
		return ""
	}
	f := c.Family("word-splitting", fmt.Sprintf("every string of ≤%d symbols from %q: SplitWords against a reference shell-style splitter; non-trivial = strings with a quote or backslash", maxLen, syms), replay)
	if c.Replaying() {
		return
	}
	en := mc.NewStrings(syms, maxLen)
	mc.ParRange(en.Total(), 4096, c.TimeUp, func(w int, lo, hi uint64) {
		l := f.Local()
		var sym []int
		var buf []byte
		for i := lo; i < hi; i++ {
			sym, buf = en.Render(i, sym, buf)
			s := string(buf)
			got, want := query.SplitWords(s), refSplit(s)
			l.Evals++
			if strings.ContainsAny(s, "\"\\") {
				l.Nontrivial++
			}
			l.Outcome(fmt.Sprintf("words=%d", min(len(want), 3)))
			if fmt.Sprintf("%q", got) != fmt.Sprintf("%q", want) {
				c.Fail(f, "split", s, fmt.Sprintf("SplitWords(%q) = %q, shell-style splitting gives %q", s, got, want))
			}
		}
		l.Flush()
	})
	f.Sample(`a "b \" c" d\ e`)
	f.Done()
}

// ---- listings over many uploads: newest first, limited as requested ----

func c19Ladders(c *mc.Check) {
	f := c.Family("upload-ladders-x-limits", "N uploads on one database for every N in the bounds (so that the sequence number of the day passes 9→10 and, thorough, 99→100: the textual order of upload IDs then differs from their order of creation), drawn in rotation from three uploads (k=a,b; no k at all; k=zz) × queries {empty, k:a, k>a, j>\"\", by:user, upload>first, k:a by:user} × limits {none, 1, 2, 3, 5, N−1, N, N+1}: ListUploads (directly and through /uploads) lists exactly the uploads with matching records, newest first, cut to the limit, with the number of matching stored records; Query returns the matching records; non-trivial = a limit smaller than the number of matching uploads", c19Replay)
	if c.Replaying() {
		return
	}
	ns := mc.Pick(c, []int{3, 9, 10, 11, 12, 13}, []int{3, 9, 10, 11, 12, 13, 21, 99, 100, 101, 102})
	f.Bounds["uploads"] = ns
	rot := []int{0, 6, 2}
	mc.ParRange(uint64(len(ns)), 1, c.TimeUp, func(w int, lo, hi uint64) {
		l := f.Local()
		for ni := lo; ni < hi; ni++ {
			n := ns[ni]
			var st c19State
			for i := 0; i < n; i++ {
				st = append(st, rot[(i+i/3)%3])
			}
			bs, m := buildState(st)
			if m != "" {
				c.Fail(f, "build", c19Case{State: st}, m)
				continue
			}
			queries := [][]term{nil, {{"k", ":", "a"}}, {{"k", ">", "a"}}, {{"j", ">", ""}}, {{"by", ":", "user"}},
				{{"upload", ">", bs.ids[0]}}, {{"k", ":", "a"}, {"by", ":", "user"}}}
			for qi, ts := range queries {
				for _, lim := range []int{-1, 1, 2, 3, 5, n - 1, n, n + 1} {
					if lim == 0 {
						continue
					}
					for _, via := range []bool{false, true} {
						if via && ((qi+lim)%2 == 1 || len(ts) == 0) {
							continue // half of the cases through the HTTP handlers (/search refuses an empty query by design)
						}
						var msg, sig string
						if p := mc.Catch(func() { msg, sig = c19CheckQuery(bs, ts, lim, via) }); p != "" {
							msg, sig = p, "panic"
						}
						l.Evals++
						if lim > 0 && lim < n/3 {
							l.Nontrivial++
						}
						if msg != "" {
							l.Outcome("differs")
							c.Fail(f, sig, c19Case{st, ts, lim}, msg)
						} else {
							l.Outcome(fmt.Sprintf("N=%d ok", n))
						}
					}
				}
			}
			bs.v.Close()
		}
		l.Flush()
	})
	f.Sample(c19Case{c19State{0, 6, 2, 6, 2, 0, 2, 0, 6, 0, 6, 2}, []term{{"k", ":", "a"}}, 1})
	f.Done()
}

func TestVerifC19(t *testing.T) {
	c := mc.NewCheck("C19")
	c.Assume("reference store and term semantics in the harness, written from the property; sqlite only")
	c.Assume("the upload-time label is the server's clock and is not compared")
	if os.Getenv("VERIF_PART") == "" || os.Getenv("VERIF_PART") == "0" {
		c19Space(c, mc.Pick(c, 2, 3), mc.Pick(c, 2, 3))
		c19OneKey(c, mc.Pick(c, 5, 6))
		c19Ladders(c)
		c19Split(c, mc.Pick(c, 6, 7))
	}
	if code := c.Finish(); code != 0 {
		os.Exit(code)
	}
}
