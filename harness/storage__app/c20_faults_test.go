//go:build verif

package app

import (
	"context"
	"encoding/json"
	"errors"
	"fmt"
	"os"
	"path/filepath"
	"regexp"
	"sort"
	"strconv"
	"strings"
	"testing"

	mc "golang.org/x/perf/internal/verifmc"
	"golang.org/x/perf/storage/fs"
	"golang.org/x/perf/storage/fs/local"
)

// ---- C20 (server part): uploads are all-or-nothing under every single fault ----

// faultFS wraps a file store and fails the k-th operation (NewWriter, Write or
// Close, counted from 0 over the whole upload under test).
type faultFS struct {
	inner  fs.FS
	failAt int
	// closeStores: a failing Close has already stored the data (the error is
	// reported after the fact, as a quota or network error on close would be).
	closeStores bool
	n           int
	ops         []string
	failedFile  string
	armed       bool
}

var errInjected = errors.New("injected storage fault")

func (f *faultFS) step(op, name string) bool {
	if !f.armed {
		return false
	}
	i := f.n
	f.n++
	f.ops = append(f.ops, op+" "+name)
	if i == f.failAt {
		f.failedFile = name
		return true
	}
	return false
}

func (f *faultFS) NewWriter(ctx context.Context, name string, meta map[string]string) (fs.Writer, error) {
	if f.step("create", name) {
		return nil, errInjected
	}
	w, err := f.inner.NewWriter(ctx, name, meta)
	if err != nil {
		return nil, err
	}
	return &faultWriter{f, w, name}, nil
}

type faultWriter struct {
	f    *faultFS
	w    fs.Writer
	name string
}

func (w *faultWriter) Write(p []byte) (int, error) {
	if w.f.step("write", w.name) {
		return 0, errInjected
	}
	return w.w.Write(p)
}

func (w *faultWriter) Close() error {
	if w.f.step("close", w.name) {
		if w.f.closeStores {
			w.w.Close()
		} else {
			w.w.CloseWithError(errInjected)
		}
		return errInjected
	}
	return w.w.Close()
}

func (w *faultWriter) CloseWithError(err error) error { return w.w.CloseWithError(err) }

// ---- observations ----

type c20Env struct {
	v     *vApp
	ff    *faultFS
	root  string // local file store root ("" for MemFS)
	ids   []string
	lines map[string]int // upload id -> number of stored benchmark lines expected
}

func newC20Env(localFS bool) *c20Env {
	e := &c20Env{lines: map[string]int{}}
	var inner fs.FS
	var mem *fs.MemFS
	if localFS {
		e.root, _ = os.MkdirTemp("", "verif-c20fs-")
		inner = local.NewFS(e.root)
	} else {
		mem = fs.NewMemFS()
		inner = mem
	}
	e.ff = &faultFS{inner: inner, failAt: -1}
	e.v = newVApp(e.ff)
	e.v.mem = mem
	return e
}

func (e *c20Env) Close() {
	e.v.Close()
	if e.root != "" {
		os.RemoveAll(e.root)
	}
}

// files lists the file store: name -> content ("" if contents are not readable).
func (e *c20Env) files() map[string]string {
	out := map[string]string{}
	if e.root == "" {
		for _, f := range e.v.mem.Files() {
			out[f] = ""
		}
		return out
	}
	filepath.Walk(e.root, func(p string, info os.FileInfo, err error) error {
		if err == nil && !info.IsDir() {
			b, _ := os.ReadFile(p)
			rel, _ := filepath.Rel(e.root, p)
			out[rel] = string(b)
		}
		return nil
	})
	return out
}

var timeRE = regexp.MustCompile(`upload-time: [^\n]*`)

// queryable dumps everything queries and listings can see.
func (e *c20Env) queryable() string {
	var b strings.Builder
	code, body := e.v.get("/search?q=upload%3E")
	fmt.Fprintf(&b, "search-all %d\n%s\n", code, timeRE.ReplaceAllString(body, "upload-time: T"))
	code, body = e.v.get("/uploads?q=&limit=0")
	fmt.Fprintf(&b, "uploads %d\n%s\n", code, body)
	for _, q := range []string{"k%3E", "name%3AA", "by%3Auser"} {
		code, body = e.v.get("/uploads?limit=0&q=" + q)
		fmt.Fprintf(&b, "uploads %s %d\n%s\n", q, code, body)
	}
	return b.String()
}

var goodFiles = []string{
	"k: a\nBenchmarkA 1 1 ns/op\nBenchmarkA 1 2 ns/op\n",
	"k: b\nBenchmarkB/x=1-4 1 3 ns/op\n",
	"BenchmarkA 1 5 ns/op\nk: c\nBenchmarkC 1 6 ns/op\nBenchmarkC 1 7 ns/op\n",
}

func countLines(text string) int {
	n := 0
	for _, l := range strings.Split(text, "\n") {
		if strings.HasPrefix(l, "Benchmark") && strings.Contains(l, " ") {
			n++
		}
	}
	return n
}

// goodUpload performs a successful upload of nFiles files and checks that
// everything is visible.
func (e *c20Env) goodUpload(nFiles int) string {
	var parts []upPart
	want := 0
	for i := 0; i < nFiles; i++ {
		// every second file is sent without a name (allowed): its header and labels carry no upload-file
		parts = append(parts, upPart{"file", c20GoodName(i), goodFiles[i%len(goodFiles)]})
		want += countLines(goodFiles[i%len(goodFiles)])
	}
	before := e.files()
	code, body := e.v.post(parts, -1)
	if code != 200 {
		return fmt.Sprintf("a fault-free upload failed: %d %s", code, body)
	}
	id := uploadID(body)
	if !regexp.MustCompile(`^\d{8}\.\d+$`).MatchString(id) {
		return fmt.Sprintf("upload ID %q is not of the form YYYYMMDD.N", id)
	}
	for _, old := range e.ids {
		if old == id {
			return fmt.Sprintf("upload ID %s was handed out before", id)
		}
		if old[:8] == id[:8] {
			a, _ := strconv.Atoi(old[9:])
			b, _ := strconv.Atoi(id[9:])
			if b <= a {
				return fmt.Sprintf("upload ID %s does not follow the earlier ID %s", id, old)
			}
		}
	}
	e.ids = append(e.ids, id)
	e.lines[id] = want
	// every record of every file is queryable
	code, body = e.v.get("/search?q=upload%3A" + id)
	if got := countLines(body); code != 200 || got != want {
		return fmt.Sprintf("after the successful upload %s, /search returns %d of its %d results (status %d)", id, got, want, code)
	}
	// each file stored once with the server's metadata header
	after := e.files()
	added := 0
	for name, content := range after {
		if _, ok := before[name]; ok {
			continue
		}
		added++
		if !strings.HasPrefix(name, "uploads/"+id+"/") {
			return fmt.Sprintf("unexpected new file %q for upload %s", name, id)
		}
		if e.root != "" {
			if !strings.Contains(content, "upload: "+id+"\n") || !strings.Contains(content, "upload-part: "+id+"/") {
				return fmt.Sprintf("stored file %q lacks the server's metadata header:\n%s", name, content)
			}
			idx, _ := strconv.Atoi(strings.TrimSuffix(strings.TrimPrefix(name, "uploads/"+id+"/"), ".txt"))
			if !strings.HasSuffix(content, goodFiles[idx%len(goodFiles)]) {
				return fmt.Sprintf("stored file %q does not end with the uploaded content", name)
			}
			// the header is exactly the server's labels of THIS file, then a blank line, then the content
			head, _, _ := strings.Cut(content, "\n\n")
			got := map[string]string{}
			for _, l := range strings.Split(head, "\n") {
				k, v, _ := strings.Cut(l, ": ")
				got[k] = v
			}
			wantHdr := map[string]string{"upload": id, "upload-part": fmt.Sprintf("%s/%d", id, idx)}
			if n := c20GoodName(idx); n != "" {
				wantHdr["upload-file"] = n
			}
			for k, v := range got {
				if k == "upload-time" || k == "by" {
					continue
				}
				if wv, ok := wantHdr[k]; !ok || wv != v {
					return fmt.Sprintf("stored file %q: header line %q: %q is not a label of this file (want %v)", name, k, v, wantHdr)
				}
			}
			for k, v := range wantHdr {
				if got[k] != v {
					return fmt.Sprintf("stored file %q: header lacks %s: %s (header %q)", name, k, v, head)
				}
			}
			if content != head+"\n\n"+goodFiles[idx%len(goodFiles)] {
				return fmt.Sprintf("stored file %q is not header, blank line, uploaded content:\n%s", name, content)
			}
		}
	}
	if added != nFiles {
		return fmt.Sprintf("upload %s of %d files added %d files to the store", id, nFiles, added)
	}
	// the records of each file carry that file's labels: asking for a file name returns the named files' lines only
	for i := 0; i < nFiles; i++ {
		n := c20GoodName(i)
		if n == "" {
			continue
		}
		code, body = e.v.get("/search?q=upload%3A" + id + "+upload-file%3A" + n)
		if got, w := countLines(body), countLines(goodFiles[i%len(goodFiles)]); code != 200 || got != w {
			return fmt.Sprintf("upload %s: /search for upload-file:%s returns %d results, the file has %d (status %d)", id, n, got, w, code)
		}
	}
	return ""
}

// c20GoodName: the files of a fault-free upload are called g<i>.txt, except that every second one has no name.
func c20GoodName(i int) string {
	if i%2 == 1 {
		return ""
	}
	return fmt.Sprintf("g%d.txt", i)
}

type c20Fault struct {
	Local   bool
	Prefix  int    // 0: empty server, 1: one committed upload, 2: committed + failed
	Files   int    // files of the upload under test
	Kind    string // fs, fs-close-stored, cut, nobench, field, collide, none
	Pos     int    // operation index / byte offset / file or field position
	Field   string
	ExpFail bool
	Commit  int // 0: no commit field (except the fault-free upload, which ends with one); k>0: a "commit" field before file part k-1 (k = Files+1: after the last file)
}

// c20Parts builds the multipart parts of the upload under test.
func c20Parts(fc c20Fault) []upPart {
	var parts []upPart
	for i := 0; i < fc.Files; i++ {
		content := goodFiles[i%len(goodFiles)]
		if fc.Kind == "nobench" && i == fc.Pos {
			content = "k: v\nnot a benchmark line\n"
		}
		if fc.Kind == "collide" && i == fc.Pos {
			content = "name: x\n" + content
		}
		if fc.Commit == i+1 {
			parts = append(parts, upPart{"commit", "", "1"})
		}
		if fc.Kind == "field" && i == fc.Pos {
			parts = append(parts, upPart{fc.Field, "", "1"})
		}
		parts = append(parts, upPart{"file", fmt.Sprintf("t%d.txt", i), content})
	}
	if fc.Commit == fc.Files+1 {
		parts = append(parts, upPart{"commit", "", "1"})
	}
	if fc.Kind == "field" && fc.Pos >= fc.Files {
		parts = append(parts, upPart{fc.Field, "", "1"})
	}
	if fc.Kind == "none" && fc.Commit == 0 {
		parts = append(parts, upPart{"commit", "", "1"})
	}
	return parts
}

// c20RunFault runs one fault case and checks the differential oracle.
func c20RunFault(fc c20Fault) (msg string, nOps int, bodyLen int) {
	e := newC20Env(fc.Local)
	defer e.Close()
	if fc.Prefix >= 1 {
		if m := e.goodUpload(2); m != "" {
			return "history: " + m, 0, 0
		}
	}
	if fc.Prefix >= 2 {
		if code, _ := e.v.post([]upPart{{"file", "bad.txt", "no benchmarks here\n"}}, -1); code == 200 {
			return "history: an upload without benchmark lines succeeded", 0, 0
		}
	}
	preQ, preF := e.queryable(), e.files()
	// the upload under test
	parts := c20Parts(fc)
	truncate := -1
	if fc.Kind == "cut" {
		truncate = fc.Pos
	}
	e.ff.armed = true
	e.ff.failAt = -1
	if fc.Kind == "fs" || fc.Kind == "fs-close-stored" {
		e.ff.failAt = fc.Pos
		e.ff.closeStores = fc.Kind == "fs-close-stored"
	}
	code, body := e.v.post(parts, truncate)
	e.ff.armed = false
	nOps = e.ff.n
	bodyLen = bodyLength(parts)
	failed := code != 200
	if (fc.Kind == "fs" || fc.Kind == "fs-close-stored") && fc.Pos >= nOps {
		// the fault position lies beyond the last storage operation: no fault happened
		if failed {
			return fmt.Sprintf("upload failed (%d %s) although no fault was injected", code, strings.TrimSpace(body)), nOps, bodyLen
		}
	}
	postQ, postF := e.queryable(), e.files()
	if failed {
		if postQ != preQ {
			return fmt.Sprintf("after the failed upload (%s) queries and listings differ from the state before it:\n--- before ---\n%s--- after ---\n%s", strings.TrimSpace(body), preQ, postQ), nOps, bodyLen
		}
		for name, content := range preF {
			if c2, ok := postF[name]; !ok || c2 != content {
				return fmt.Sprintf("after the failed upload the earlier stored file %q changed or disappeared", name), nOps, bodyLen
			}
		}
		// the file being written when the failure happened is removed
		if e.ff.failedFile != "" {
			if _, ok := postF[e.ff.failedFile]; ok {
				return fmt.Sprintf("after the %s fault on %s (operation %d: %v) the file is still in the store", fc.Kind, e.ff.failedFile, fc.Pos, e.ff.ops), nOps, bodyLen
			}
		}
		if fc.Kind == "nobench" {
			pi, nf := 0, 0
			for j, p := range parts {
				if p.Field == "file" {
					if nf == fc.Pos {
						pi = j
					}
					nf++
				}
			}
			for name := range postF {
				if _, ok := preF[name]; !ok && strings.HasSuffix(name, fmt.Sprintf("/%d.txt", pi)) {
					return fmt.Sprintf("the file without benchmark lines (%s) is still in the store", name), nOps, bodyLen
				}
			}
		}
		if fc.Kind == "cut" {
			// the part the cut falls into must not be stored; parts after it neither
			k := cutPart(parts, fc.Pos)
			for name := range postF {
				if _, ok := preF[name]; ok {
					continue
				}
				idx, _ := strconv.Atoi(strings.TrimSuffix(name[strings.LastIndex(name, "/")+1:], ".txt"))
				if idx >= k {
					return fmt.Sprintf("body cut at byte %d (inside part %d; the upload failed with %d %s): file %q is in the store; cut point context: …%q|", fc.Pos, k, code, strings.TrimSpace(body), name, cutContext(parts, fc.Pos)), nOps, bodyLen
				}
			}
		}
	} else {
		// success: everything must be visible
		id := uploadID(body)
		if fc.Kind == "cut" {
			var st struct {
				FileIDs []string `json:"fileids"`
			}
			json.Unmarshal([]byte(body), &st)
			if len(st.FileIDs) < fc.Files {
				return fmt.Sprintf("CUT-ACCEPTED the request body was cut at byte %d of %d, yet the upload %s was committed with %d of the %d files sent; cut point context: …%q|", fc.Pos, bodyLen, id, len(st.FileIDs), fc.Files, cutContext(parts, fc.Pos)), nOps, bodyLen
			}
		}
		want := 0
		for _, p := range parts {
			if p.Field == "file" {
				want += countLines(p.Content)
			}
		}
		c2, b2 := e.v.get("/search?q=upload%3A" + id)
		if got := countLines(b2); c2 != 200 || got != want {
			return fmt.Sprintf("upload %s succeeded but /search returns %d of its %d results", id, got, want), nOps, bodyLen
		}
		newFiles := 0
		for name := range postF {
			if _, ok := preF[name]; !ok {
				newFiles++
			}
		}
		if newFiles != fc.Files {
			return fmt.Sprintf("upload %s of %d files succeeded but %d files were added to the store", id, fc.Files, newFiles), nOps, bodyLen
		}
		e.ids = append(e.ids, id)
	}
	if fc.ExpFail && !failed {
		return fmt.Sprintf("the upload succeeded although it contains a %s fault at position %d", fc.Kind, fc.Pos), nOps, bodyLen
	}
	// afterwards a fresh upload works and gets a never-seen ID
	if m := e.goodUpload(1); m != "" {
		return "after the fault: " + m, nOps, bodyLen
	}
	return "", nOps, bodyLen
}

func cutContext(parts []upPart, off int) string {
	var b strings.Builder
	mwPost(parts, &b)
	s := b.String()
	return s[max(0, off-40):min(off, len(s))]
}

// inLaterPartHeader reports whether a cut at off falls inside (or right
// before) the MIME header block of a part other than the first.
func inLaterPartHeader(parts []upPart, off int) bool {
	var b strings.Builder
	mwPost(parts, &b)
	s := b.String()
	delim := "\r\n--" + vBoundary + "\r\n"
	pos := 0
	for {
		i := strings.Index(s[pos:], delim)
		if i < 0 {
			return false
		}
		start := pos + i + len(delim)
		end := strings.Index(s[start:], "\r\n\r\n")
		if end < 0 {
			return false
		}
		if off >= start && off < start+end+4 {
			return true
		}
		pos = start
	}
}

func bodyLength(parts []upPart) int {
	var n countWriter
	mwPost(parts, &n)
	return int(n)
}

type countWriter int

func (c *countWriter) Write(p []byte) (int, error) { *c += countWriter(len(p)); return len(p), nil }

// cutPart returns the index (among all parts: stored files are numbered by
// part index) of the part a cut at byte off falls into: the number of parts
// whose content ended before off.
func cutPart(parts []upPart, off int) int {
	k := 0
	for i := 1; i <= len(parts); i++ {
		var n countWriter
		mwPostN(parts, i, &n)
		if int(n) <= off {
			k++
		}
	}
	return k
}

func c20Replay(raw json.RawMessage) string {
	var fc c20Fault
	if err := json.Unmarshal(raw, &fc); err != nil {
		return err.Error()
	}
	var msg string
	if p := mc.Catch(func() { msg, _, _ = c20RunFault(fc) }); p != "" {
		return p
	}
	return msg
}

func c20Faults(c *mc.Check) {
	f := c.Family("single-faults", "the real /upload handler driven in-process, for history prefixes {empty server, one committed upload, committed + failed} × uploads of 1–3 files × file stores {in-memory, local directory}: a single fault at EVERY position — (a) the k-th file-store operation fails, for every k over create / each write / close of each file (close failing before or after the data reached the store); (b) the request body cut at every byte offset (quick tier: every offset from 3 bytes before the end of a part to 3 bytes after the delimiter line that follows it, and every 7th byte); (c) a file without benchmark lines at each position; (d) an unexpected form field (abort, x) at each position; (e) a file whose labels collide with name-derived labels (insertion fails at commit); plus the fault-free upload; (f) every fault of (a), (c), (d), (e) again in an upload that carries the commit form field before file k or after the last file, for every k, and the cuts of (b) with the field first or before the last file: the field does not end the upload, so a fault after it fails the whole upload. Oracle, differential against the state before the upload: on failure queries and listings are byte-identical to before, earlier stored files unchanged, the file being written at the failure is absent from the store; on success every record and file is visible; afterwards a fresh upload succeeds with a never-seen, larger ID, all its records queryable and its file stored once with the metadata header; non-trivial = runs with a fault", c20Replay)
	if c.Replaying() {
		return
	}
	var cases []c20Fault
	for _, loc := range []bool{false, true} {
		for prefix := 0; prefix <= 2; prefix++ {
			for files := 1; files <= 3; files++ {
				base := c20Fault{Local: loc, Prefix: prefix, Files: files}
				// learn the number of storage operations and the body length
				probe := base
				probe.Kind = "none"
				_, nOps, bodyLen := c20RunFault(probe)
				cases = append(cases, probe)
				for k := 0; k < nOps; k++ {
					kinds := []string{"fs"}
					if loc {
						// The in-memory store is a test double whose
						// CloseWithError cannot un-store a closed file.
						kinds = append(kinds, "fs-close-stored")
					}
					for _, kind := range kinds {
						fc := base
						fc.Kind, fc.Pos, fc.ExpFail = kind, k, true
						cases = append(cases, fc)
					}
				}
				for i := 0; i < files; i++ {
					fc := base
					fc.Kind, fc.Pos, fc.ExpFail = "nobench", i, true
					cases = append(cases, fc)
					fc.Kind = "collide"
					cases = append(cases, fc)
				}
				for i := 0; i <= files; i++ {
					for _, field := range []string{"abort", "x"} {
						fc := base
						fc.Kind, fc.Pos, fc.Field, fc.ExpFail = "field", i, field, true
						cases = append(cases, fc)
					}
				}
				// the same faults in an upload that also carries the "commit" field, at every position:
				// the field does not end the upload, so a fault after it still fails the whole upload
				for cm := 1; cm <= files+1; cm++ {
					cb := base
					cb.Commit = cm
					fc := cb
					fc.Kind = "none"
					cases = append(cases, fc)
					for i := 0; i < files; i++ {
						fc := cb
						fc.Kind, fc.Pos, fc.ExpFail = "nobench", i, true
						cases = append(cases, fc)
						fc.Kind = "collide"
						cases = append(cases, fc)
					}
					for i := 0; i <= files; i++ {
						for _, field := range []string{"abort", "x"} {
							fc := cb
							fc.Kind, fc.Pos, fc.Field, fc.ExpFail = "field", i, field, true
							cases = append(cases, fc)
						}
					}
					for k := 0; k < nOps; k++ {
						fc := cb
						fc.Kind, fc.Pos, fc.ExpFail = "fs", k, true
						cases = append(cases, fc)
					}
				}
				if prefix == 2 && !c.Thorough() {
					continue
				}
				for _, cm := range []int{0, 1, files} {
					if cm != 0 && (loc || prefix != 0) && !c.Thorough() {
						continue
					}
					if cm == files && files == 1 {
						continue
					}
					cbase := base
					cbase.Commit = cm
					cbase.Kind = "cut"
					parts := c20Parts(cbase)
					bounds := map[int]bool{}
					for i := 1; i <= len(parts); i++ {
						var n countWriter
						mwPostN(parts, i, &n)
						// from 3 bytes before the end of the part to 3 bytes after the whole delimiter line that
						// follows it (CR LF "--" boundary, then CR LF or "--" CR LF): every byte of the line
						for d := -3; d <= len("\r\n--"+vBoundary+"--\r\n")+3; d++ {
							bounds[int(n)+d] = true
						}
					}
					_ = bodyLen
					total := bodyLength(parts)
					for off := 0; off < total; off++ {
						if c.Thorough() || bounds[off] || off%7 == 0 {
							fc := cbase
							fc.Pos = off
							cases = append(cases, fc)
						}
					}
				}
			}
		}
	}
	f.Bounds["fault_positions_enumerated"] = len(cases)
	sort.SliceStable(cases, func(i, j int) bool { return cases[i].Files < cases[j].Files })
	done := mc.ParRange(uint64(len(cases)), 4, c.TimeUp, func(w int, lo, hi uint64) {
		l := f.Local()
		for i := lo; i < hi; i++ {
			fc := cases[i]
			var msg string
			if p := mc.Catch(func() { msg, _, _ = c20RunFault(fc) }); p != "" {
				msg = p
			}
			l.Evals++
			if fc.Kind != "none" {
				l.Nontrivial++
			}
			l.Outcome(fc.Kind)
			if msg != "" {
				sig := "fault-" + fc.Kind
				if strings.HasPrefix(msg, "CUT-ACCEPTED") {
					if inLaterPartHeader(c20Parts(fc), fc.Pos) {
						sig = "cut-inside-later-part-header-accepted"
					}
				}
				c.Fail(f, sig, fc, msg)
			}
		}
		l.Flush()
	})
	if done < uint64(len(cases)) {
		f.Capped(fmt.Sprintf("time cap: %d of %d fault cases", done, len(cases)))
	}
	f.Sample(c20Fault{Local: true, Prefix: 1, Files: 2, Kind: "fs", Pos: 7, ExpFail: true})
	f.Sample(c20Fault{Prefix: 0, Files: 3, Kind: "cut", Pos: 333})
	f.Done()
}

func TestVerifC20(t *testing.T) {
	c := mc.NewCheck("C20")
	c.Assume("sqlite only; single faults; files stored by earlier parts of a failed upload may remain in the file store (the property only requires the file being written to be removed)")
	c20Faults(c)
	if code := c.Finish(); code != 0 {
		os.Exit(code)
	}
}
