//go:build verif

package verifref

import (
	"bytes"
	"fmt"
	"math"
	"sort"
	"strconv"
	"strings"
	"unicode"
	"unicode/utf8"
)

// Val is one measurement of an expected result.
type Val struct {
	Value     float64
	Unit      string
	OrigValue float64
	OrigUnit  string
	Rescaled  bool // the written unit differs from the base unit
}

// Cfg is one configuration entry.
type Cfg struct {
	Value string
	File  bool
}

// Rec is one expected record.
type Rec struct {
	Kind   string // "result", "error", "unit"
	Line   int
	Name   string
	Iters  int
	Values []Val
	Config map[string]Cfg
	// unit metadata
	Unit, OrigUnit, Key, Value string
	// error
	Msg string
}

// FmtModel is the reference model of the benchmark format: a running
// configuration map and unit metadata keyed by base unit.
type FmtModel struct {
	Config map[string]Cfg
	Units  map[[2]string]string
	Line   int
}

// NewFmtModel returns an empty model.
func NewFmtModel() *FmtModel {
	return &FmtModel{Config: map[string]Cfg{}, Units: map[[2]string]string{}}
}

// Reset starts a new file: the configuration is forgotten, unit metadata is
// kept; labels are tool-supplied (internal) configuration.
func (m *FmtModel) Reset(labels ...string) {
	m.Config = map[string]Cfg{}
	m.Line = 0
	for i := 0; i+1 < len(labels); i += 2 {
		if labels[i+1] == "" {
			delete(m.Config, labels[i])
		} else {
			m.Config[labels[i]] = Cfg{labels[i+1], false}
		}
	}
}

// MaxLine is the longest line (without its terminator) a reader is required
// to handle; longer lines end reading with an error.
const MaxLine = 64*1024 - 1

// Lines splits text into lines the way the format does: terminated by '\n',
// one trailing '\r' dropped, a final unterminated non-empty line counts.
func Lines(text []byte) [][]byte {
	var out [][]byte
	for len(text) > 0 {
		i := bytes.IndexByte(text, '\n')
		var l []byte
		if i < 0 {
			l, text = text, nil
		} else {
			l, text = text[:i], text[i+1:]
		}
		if n := len(l); n > 0 && l[n-1] == '\r' {
			l = l[:n-1]
		}
		out = append(out, l)
	}
	return out
}

// Feed consumes a whole text and returns the expected records.
func (m *FmtModel) Feed(text []byte) []Rec {
	var out []Rec
	for _, l := range Lines(text) {
		out = append(out, m.Line1(string(l))...)
	}
	return out
}

// Line1 consumes one line (without terminator).
func (m *FmtModel) Line1(line string) []Rec {
	m.Line++
	switch {
	case strings.HasPrefix(line, "Benchmark"):
		return m.benchLine(line)
	case isUnitLine(line):
		return m.unitLine(line)
	}
	if k, v, ok := KeyValue(line); ok {
		if v == "" {
			delete(m.Config, k)
		} else {
			m.Config[k] = Cfg{v, true}
		}
	}
	return nil
}

func isUnitLine(line string) bool {
	if !strings.HasPrefix(line, "Unit") {
		return false
	}
	rest := line[4:]
	if rest == "" {
		return true
	}
	r, _ := utf8.DecodeRuneInString(rest)
	return unicode.IsSpace(r)
}

// KeyValue recognises a configuration line.
func KeyValue(line string) (key, val string, ok bool) {
	colon := -1
	for i := 0; i < len(line); {
		r, n := utf8.DecodeRuneInString(line[i:])
		if i == 0 && !unicode.IsLower(r) {
			return "", "", false
		}
		if unicode.IsSpace(r) || unicode.IsUpper(r) {
			return "", "", false
		}
		if r == ':' {
			colon = i
			break
		}
		i += n
	}
	if colon <= 0 {
		return "", "", false
	}
	key, val = line[:colon], line[colon+1:]
	if val == "" {
		return key, "", true
	}
	if val[0] != ' ' && val[0] != '\t' {
		return "", "", false
	}
	val = strings.TrimLeft(val, " \t")
	return key, val, true
}

func (m *FmtModel) errRec(msg string) []Rec {
	return []Rec{{Kind: "error", Line: m.Line, Msg: msg}}
}

func (m *FmtModel) benchLine(line string) []Rec {
	rest := line[len("Benchmark"):]
	// name = up to the first white space
	end := -1
	for i := 0; i < len(rest); {
		r, n := utf8.DecodeRuneInString(rest[i:])
		if unicode.IsSpace(r) {
			end = i
			break
		}
		i += n
	}
	if end < 0 {
		// "go test -v" prints the bare name when a benchmark starts.
		return nil
	}
	name := rest[:end]
	fields := strings.FieldsFunc(rest[end:], unicode.IsSpace)
	if len(fields) == 0 {
		return m.errRec("missing iteration count")
	}
	iters, err := strconv.Atoi(fields[0])
	if err != nil {
		return m.errRec("iteration count")
	}
	fields = fields[1:]
	if len(fields) == 0 {
		return m.errRec("missing measurements")
	}
	var vals []Val
	for len(fields) > 0 {
		v, err := strconv.ParseFloat(fields[0], 64)
		if err != nil {
			return m.errRec("measurement")
		}
		if len(fields) < 2 {
			return m.errRec("missing units")
		}
		vals = append(vals, MakeVal(v, fields[1]))
		fields = fields[2:]
	}
	cfg := make(map[string]Cfg, len(m.Config))
	for k, v := range m.Config {
		cfg[k] = v
	}
	return []Rec{{Kind: "result", Line: m.Line, Name: name, Iters: iters, Values: vals, Config: cfg}}
}

// MakeVal normalises a written value/unit pair.
func MakeVal(v float64, unit string) Val {
	base, factors, _ := BaseUnit(unit)
	if base == unit {
		return Val{Value: v, Unit: unit}
	}
	return Val{Value: Scale(v, factors), Unit: base, OrigValue: v, OrigUnit: unit, Rescaled: true}
}

func (m *FmtModel) unitLine(line string) []Rec {
	fields := strings.FieldsFunc(line, unicode.IsSpace)[1:]
	if len(fields) == 0 {
		return m.errRec("missing unit")
	}
	unit := fields[0]
	base, _, _ := BaseUnit(unit)
	var out []Rec
	for _, f := range fields[1:] {
		eq := strings.IndexByte(f, '=')
		if eq <= 0 {
			out = append(out, m.errRec("expected key=value")...)
			continue
		}
		k, v := f[:eq], f[eq+1:]
		if have, ok := m.Units[[2]string{base, k}]; ok {
			if have != v {
				out = append(out, m.errRec("conflict")...)
			}
			continue
		}
		m.Units[[2]string{base, k}] = v
		out = append(out, Rec{Kind: "unit", Line: m.Line, Unit: base, OrigUnit: unit, Key: k, Value: v})
	}
	return out
}

// String renders a record canonically (configuration sorted by key).
func (r Rec) String() string {
	switch r.Kind {
	case "error":
		return fmt.Sprintf("error@%d", r.Line)
	case "unit":
		return fmt.Sprintf("unit@%d %q(%q) %q=%q", r.Line, r.Unit, r.OrigUnit, r.Key, r.Value)
	}
	var b strings.Builder
	fmt.Fprintf(&b, "result@%d %q %d", r.Line, r.Name, r.Iters)
	for _, v := range r.Values {
		fmt.Fprintf(&b, " [%s %q", Fbits(v.Value), v.Unit)
		if v.Rescaled {
			fmt.Fprintf(&b, " orig %s %q", Fbits(v.OrigValue), v.OrigUnit)
		}
		b.WriteString("]")
	}
	keys := make([]string, 0, len(r.Config))
	for k := range r.Config {
		keys = append(keys, k)
	}
	sort.Strings(keys)
	for _, k := range keys {
		c := r.Config[k]
		t := "int"
		if c.File {
			t = "file"
		}
		fmt.Fprintf(&b, " {%q=%q %s}", k, c.Value, t)
	}
	return b.String()
}

// Fbits renders a float by its bits.
func Fbits(f float64) string {
	if math.IsNaN(f) {
		return "NaN"
	}
	return strconv.FormatUint(math.Float64bits(f), 16) + "(" + strconv.FormatFloat(f, 'g', -1, 64) + ")"
}
