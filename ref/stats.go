//go:build verif

package verifref

import (
	"math/big"
	"sort"
)

// TwoU is twice the Mann-Whitney U statistic of a against b by definition:
// a pair with a>b counts 2, a tie counts 1.
func TwoU(a, b []float64) int {
	u := 0
	for _, x := range a {
		for _, y := range b {
			if x > y {
				u += 2
			} else if x == y {
				u++
			}
		}
	}
	return u
}

// ExactU returns P(U<=u) and P(U>=u) for the observed u over all C(n1+n2,n1)
// equally likely assignments of the pooled values to the two groups, in
// exact rationals.
func ExactU(x1, x2 []float64) (less, greater *big.Rat) {
	pooled := append(append([]float64{}, x1...), x2...)
	sort.Float64s(pooled)
	n, n1 := len(pooled), len(x1)
	obs := TwoU(x1, x2)
	le, ge, total := new(big.Int), new(big.Int), new(big.Int)
	one := big.NewInt(1)
	idx := make([]int, n1)
	a := make([]float64, n1)
	b := make([]float64, 0, n-n1)
	var rec func(pos, start int)
	rec = func(pos, start int) {
		if pos == n1 {
			b = b[:0]
			j := 0
			for i := 0; i < n; i++ {
				if j < n1 && idx[j] == i {
					a[j] = pooled[i]
					j++
				} else {
					b = append(b, pooled[i])
				}
			}
			u := TwoU(a, b)
			if u <= obs {
				le.Add(le, one)
			}
			if u >= obs {
				ge.Add(ge, one)
			}
			total.Add(total, one)
			return
		}
		for i := start; i <= n-(n1-pos); i++ {
			idx[pos] = i
			rec(pos+1, i+1)
		}
	}
	rec(0, 0)
	return new(big.Rat).SetFrac(le, total), new(big.Rat).SetFrac(ge, total)
}

// ExactUTwoSided is min(1, 2·min(P(U<=u), P(U>=u))).
func ExactUTwoSided(x1, x2 []float64) float64 {
	l, g := ExactU(x1, x2)
	m := l
	if g.Cmp(l) < 0 {
		m = g
	}
	p := new(big.Rat).Mul(m, big.NewRat(2, 1))
	if p.Cmp(big.NewRat(1, 1)) > 0 {
		return 1
	}
	f, _ := p.Float64()
	return f
}

// BinomialCoverage returns Σ_{k=l}^{h-1} C(n,k)/2^n: the probability that the
// population median lies between the l-th and h-th order statistics (1-based;
// l=0 means -∞, h=n+1 means +∞).
func BinomialCoverage(n, l, h int) float64 {
	s := new(big.Int)
	for k := l; k < h; k++ {
		if k < 0 || k > n {
			continue
		}
		s.Add(s, new(big.Int).Binomial(int64(n), int64(k)))
	}
	f, _ := new(big.Rat).SetFrac(s, new(big.Int).Lsh(big.NewInt(1), uint(n))).Float64()
	return f
}
