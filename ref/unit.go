//go:build verif

// Package verifref holds the reference models the harnesses compare the
// implementation with. They are written from the documentation in boring Go
// (strings, strconv, unicode, math/big) and share no code with golang/perf.
package verifref

import (
	"strings"
	"unicode"
	"unicode/utf8"
)

// UnitTok is one component of a unit.
type UnitTok struct {
	Text  string
	Denom bool
}

func isUnitSep(r rune) bool {
	return r == '/' || r == '*' || r == '-' || unicode.IsSpace(r)
}

type unitRun struct {
	text  string
	sep   bool
	denom bool // for components: in the denominator
}

// unitRuns cuts a unit into alternating separator characters and components.
// A component is in the denominator if the nearest preceding '/' or '*' is
// a '/'. Invalid UTF-8 bytes are ordinary component bytes.
func unitRuns(unit string) []unitRun {
	var out []unitRun
	denom := false
	i := 0
	for i < len(unit) {
		r, n := utf8.DecodeRuneInString(unit[i:])
		if isUnitSep(r) {
			if r == '/' {
				denom = true
			} else if r == '*' {
				denom = false
			}
			out = append(out, unitRun{unit[i : i+n], true, false})
			i += n
			continue
		}
		j := i
		for j < len(unit) {
			r, n := utf8.DecodeRuneInString(unit[j:])
			if isUnitSep(r) {
				break
			}
			j += n
		}
		out = append(out, unitRun{unit[i:j], false, denom})
		i = j
	}
	return out
}

// UnitTokens returns the components of a unit.
func UnitTokens(unit string) []UnitTok {
	var out []UnitTok
	for _, r := range unitRuns(unit) {
		if !r.sep {
			out = append(out, UnitTok{r.text, r.denom})
		}
	}
	return out
}

// BaseUnit returns the base-unit spelling of unit, the per-component factors
// (1e-9 for each numerator "ns", 1e6 for each numerator "MB") and whether the
// unit has bytes in the numerator.
func BaseUnit(unit string) (base string, factors []float64, binary bool) {
	var b strings.Builder
	for _, r := range unitRuns(unit) {
		tok := r.text
		if !r.sep && !r.denom {
			switch tok {
			case "ns":
				tok = "sec"
				factors = append(factors, 1e-9)
			case "MB":
				tok = "B"
				factors = append(factors, 1e6)
				binary = true
			case "B", "bytes":
				binary = true
			}
		}
		b.WriteString(tok)
	}
	return b.String(), factors, binary
}

// Scale applies the product of the factors to v, accumulating the factor the
// way a straightforward implementation would (left to right).
func Scale(v float64, factors []float64) float64 {
	f := 1.0
	for _, x := range factors {
		f *= x
	}
	return v * f
}
