//go:build verif

package verifref

import "strings"

// NameParts decomposes a benchmark name: base name, the '/'-introduced
// segments, and the optional trailing "-N" GOMAXPROCS part (N = one or more
// decimal digits at the very end of the name).
func NameParts(full string) (base string, segs []string, gomaxprocs string) {
	body := full
	// trailing digits
	i := len(full)
	for i > 0 && full[i-1] >= '0' && full[i-1] <= '9' {
		i--
	}
	if i < len(full) && i > 0 && full[i-1] == '-' {
		body, gomaxprocs = full[:i-1], full[i-1:]
	}
	if j := strings.IndexByte(body, '/'); j >= 0 {
		base = body[:j]
		rest := body[j:]
		for len(rest) > 0 {
			k := strings.IndexByte(rest[1:], '/')
			if k < 0 {
				segs = append(segs, rest)
				break
			}
			segs = append(segs, rest[:k+1])
			rest = rest[k+1:]
		}
	} else {
		base = body
	}
	return
}

// NameKey returns the value of a name-derived key: ".name", ".fullname" or
// "/k" (sub-name key, with the /gomaxprocs special case).
func NameKey(full, key string) string {
	base, segs, gmp := NameParts(full)
	switch {
	case key == ".name":
		return base
	case key == ".fullname":
		return full
	case strings.HasPrefix(key, "/"):
		if key == "/gomaxprocs" && gmp != "" {
			return gmp[1:]
		}
		for _, s := range segs {
			if strings.HasPrefix(s, key+"=") {
				return s[len(key)+1:]
			}
		}
		return ""
	}
	panic("not a name key: " + key)
}

// NameWithout returns the name with the given sub-name keys' segments (and
// the GOMAXPROCS part for "/gomaxprocs") deleted, and the base replaced by
// "*" if ".name" is excluded.
func NameWithout(full string, exclude []string) string {
	base, segs, gmp := NameParts(full)
	excName, excG := false, false
	var keys []string
	for _, k := range exclude {
		switch {
		case k == ".name":
			excName = true
		case strings.HasPrefix(k, "/"):
			keys = append(keys, k+"=")
			if k == "/gomaxprocs" {
				excG = true
			}
		}
	}
	var b strings.Builder
	if excName {
		b.WriteString("*")
	} else {
		b.WriteString(base)
	}
segs:
	for _, s := range segs {
		for _, k := range keys {
			if strings.HasPrefix(s, k) {
				continue segs
			}
		}
		b.WriteString(s)
	}
	if !excG {
		b.WriteString(gmp)
	}
	return b.String()
}
