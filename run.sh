#!/bin/sh
# run.sh <ID> quick|thorough | run.sh <ID> --replay <path>
exec python3 "$(dirname "$0")/run.py" "$@"
